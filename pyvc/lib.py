"""Builtins and library models (the assumed contracts of the Python / numpy / os layer).

Every model here is part of the trusted base and is listed in the evidence (`LIB_ASSUMPTIONS`).
Domain-specific models (numpy index maps, pint, files) are registered by the contract modules via
``Executor.ext_models[dotted_name] = fn(ex, path, args, kwargs, node)``.
"""
import ast

import z3

from . import sv
from .path import Unsupported
from .expr import Seq, US

LIB_ASSUMPTIONS = [
    "python ints are unbounded; bool is 0/1 in arithmetic",
    "datetime/timedelta are integers of microseconds; timedelta/int rounds half-to-even as CPython's _divide_and_round; timedelta/timedelta and all floats are mathematical reals",
    "dict/list iteration is in insertion order; containers and numpy arrays are values: what is stored in a field is owned by its object (no aliasing between objects; a local name for a container of an object is followed); sharing of one dict / array buffer between objects is only covered by the native stand-ins",
    "logger calls and ErrorLogger wrappers have no effect on program state (exceptions propagate unchanged)",
    "class families are disjoint: no object is at once a slot (IInput/IOutput), a component, an Info or a grid; otherwise the class hierarchy is open (user subclasses are only constrained by the interface contracts)",
]


class LibMixin:
    def expect(self, v, cls, path, node, what="type"):
        """the value must be of symbolic kind `cls`: other alternatives become safety obligations"""
        if isinstance(v, cls):
            return v
        if isinstance(v, sv.SUnion):
            keep = []
            for g, x in v.alts:
                if isinstance(x, cls):
                    keep.append((g, x))
                else:
                    self.safe(path, what, sv.Not(g), node)
            if keep:
                r = keep[-1][1]
                for g, x in reversed(keep[:-1]):
                    r = sv.ite(g, x, r)
                return r
        self.safe(path, what, z3.BoolVal(False), node)
        raise Unsupported(f"expected {getattr(cls, '__name__', cls)}, got {v}", node)

    # hooks with default "not handled"
    def lib_binop(self, op, a, b, path, node):
        for h in self.hooks.get("binop", ()):
            r = h(self, op, a, b, path, node)
            if r is not None:
                return r
        return None

    def lib_eq(self, a, b, path, node):
        for h in self.hooks.get("eq", ()):
            r = h(self, a, b, path, node)
            if r is not None:
                return r
        return None

    def lib_contains(self, cont, x, path, node):
        return None

    def lib_subscript(self, base, idx, path, node):
        for h in self.hooks.get("subscript", ()):
            r = h(self, base, idx, path, node)
            if r is not None:
                return r
        return None

    def lib_slice(self, base, sl, path, node):
        for h in self.hooks.get("slice", ()):
            r = h(self, base, sl, path, node)
            if r is not None:
                return r
        return None

    def lib_setslice(self, cont, sl, v, path, node):
        return None

    def lib_setitem(self, cont, key, v, path, node):
        for h in self.hooks.get("setitem", ()):
            r = h(self, cont, key, v, path, node)
            if r is not None:
                return r
        return None

    def lib_unpack(self, v, n, path, node):
        for h in self.hooks.get("unpack", ()):
            r = h(self, v, n, path, node)
            if r is not None:
                return r
        return None

    def lib_invert(self, v, path, node):
        for h in self.hooks.get("invert", ()):
            r = h(self, v, path, node)
            if r is not None:
                return r
        raise Unsupported("operator ~", node)

    def lib_sequence(self, it, path, node):
        for h in self.hooks.get("sequence", ()):
            r = h(self, it, path, node)
            if r is not None:
                return r
        return None

    def lib_comprehension(self, e, path, kind):
        for h in self.hooks.get("comprehension", ()):
            r = h(self, e, path, kind)
            if r is not None:
                return r
        if kind == "dict" and len(e.generators) == 1:
            r = self.dict_comprehension(e, path)
            if r is not None:
                return r
        if kind in ("dict", "list") and len(e.generators) == 1 and not e.generators[0].ifs and self.frame_depth == 0 \
                and self.cur_contract is not None:
            r = self.effectful_comprehension(e, path, kind)
            if r is not None:
                return r
        if kind == "list" and len(e.generators) == 1 and all(self.is_pure_expr(c) for c in e.generators[0].ifs) \
                and self.is_pure_expr(e.elt):
            return self.filter_comprehension(e, path)
        raise Unsupported(f"{kind} comprehension over a symbolic sequence with filter / several generators", e)

    def effectful_comprehension(self, e, path, kind):
        """{k: f(x) for x in xs} / [f(x) for x in xs] whose element has effects: executed as the loop
              $res = {} / []; for x in xs: $res[k] = f(x) / $res.append(f(x))
        cut by the sidecar invariant registered under the loop key "c<n>" (n-th such comprehension in source order)"""
        import copy as _copy

        key = self.comp_ordinals.get(id(e))
        spec = self.cur_contract.loops.get(key) if key else None
        if spec is None:
            return None
        self.used_loops.add(key)
        gen = e.generators[0]
        res_name = "$res"
        path.env[res_name] = self.empty_dict() if kind == "dict" else self.list_of([])
        if kind == "dict":
            tgt = ast.Subscript(value=ast.Name(id=res_name, ctx=ast.Load()), slice=e.key, ctx=ast.Store())
            body = [ast.Assign(targets=[tgt], value=e.value)]
        else:
            call = ast.Call(func=ast.Attribute(value=ast.Name(id=res_name, ctx=ast.Load()), attr="append", ctx=ast.Load()), args=[e.elt], keywords=[])
            body = [ast.Expr(value=call)]
        loop = ast.For(target=gen.target, iter=gen.iter, body=body, orelse=[])
        ast.copy_location(loop, e)
        for n in ast.walk(loop):
            if not hasattr(n, "lineno"):
                ast.copy_location(n, e)
        ast.fix_missing_locations(loop)
        self.loop_ordinals[id(loop)] = key
        outs = self._s_For(loop, path)
        from .stmt import NEXT, RAISE
        from .stmt import RaisedInExpr
        nexts = [o for o in outs if o[0] == NEXT]
        raises = [o for o in outs if o[0] == RAISE]
        alls = nexts + raises
        if not alls:
            from .path import DeadPath
            raise DeadPath()
        k = self.choose_n(path, len(alls)) if len(alls) > 1 else 0
        kind2, p2, val = alls[k]
        env, guards, memo, pos = path.env, path.guards, path.memo, path.memo_pos
        path.__dict__.update(p2.__dict__)
        path.guards, path.memo, path.memo_pos = guards, memo, pos
        if kind2 == RAISE:
            raise RaisedInExpr(path, val)
        return path.env.pop(res_name)

    def dict_comprehension(self, e, path):
        """{k: v for k, v in d.items() if P}: same keys and values, filtered (the only shape finam uses)"""
        gen = e.generators[0]
        it = gen.iter
        if not (isinstance(it, ast.Call) and isinstance(it.func, ast.Attribute) and it.func.attr == "items"
                and isinstance(gen.target, ast.Tuple) and len(gen.target.elts) == 2
                and isinstance(e.key, ast.Name) and isinstance(e.value, ast.Name)
                and isinstance(gen.target.elts[0], ast.Name) and isinstance(gen.target.elts[1], ast.Name)
                and e.key.id == gen.target.elts[0].id and e.value.id == gen.target.elts[1].id):
            return None
        d = self.eval(it.func.value, path)
        if isinstance(d, sv.SUnion) and any(isinstance(x, sv.SDict) for _g, x in d.alts):
            d = self.expect(d, sv.SDict, path, e, what="none")
        if not isinstance(d, sv.SDict) or not all(self.is_pure_expr(c) for c in gen.ifs):
            return None
        env0 = dict(path.env)
        kname, vname = gen.target.elts[0].id, gen.target.elts[1].id

        def pred(k, self=self, d=d, env0=env0, gen=gen, path=path):
            p = path.clone()
            p.env = dict(env0)
            p.env[kname] = d.kwrap(k)
            p.env[vname] = d.val(k)
            self.silent += 1
            try:
                return sv.And(*[self.truthy(self.eval(c, p), p) for c in gen.ifs])
            finally:
                self.silent -= 1

        # safety of the filter at a generic key of the dict
        ks = getattr(d, "ksort", None)
        if ks is None:
            return None
        kk = z3.Const(sv.uid("dk"), ks)
        saved = dict(path.env)
        n_pc = len(path.pc)
        path.guards.append(d.dom(kk))
        try:
            path.env[kname] = d.kwrap(kk)
            path.env[vname] = d.val(kk)
            for c in gen.ifs:
                self.eval(c, path)
        finally:
            path.guards.pop()
            path.env = saved
        # facts learnt at the generic key (e.g. "no KeyError happened") hold for every key of the dict
        for i in range(n_pc, len(path.pc)):
            f = path.pc[i]
            if _mentions(f, kk):
                path.pc[i] = z3.ForAll([kk], f)
        return self.dict_filter(d, pred, path)

    def filter_comprehension(self, e, path):
        """[f(x) for x in xs if P(x)] over a symbolic sequence: the result is xs filtered by P in order.
        Axiomatised by a position function pos (result index -> source index, strictly increasing, onto the
        elements satisfying P)."""
        gen = e.generators[0]
        seq = self.as_sequence(self.eval(gen.iter, path), path, e)
        env0 = dict(path.env)
        tag = sv.uid("flt")
        pos = z3.Function(tag + ".pos", sv.IntS, sv.IntS)
        inv = z3.Function(tag + ".inv", sv.IntS, sv.IntS)
        n = z3.Int(tag + ".len")

        def at_src(j, what):
            p = path.clone()
            p.env = dict(env0)
            self.silent += 1
            try:
                self.assign(gen.target, seq.at(j), p)
                if what == "elt":
                    return self.eval(e.elt, p)
                return sv.And(*[self.truthy(self.eval(c, p), p) for c in gen.ifs])
            finally:
                self.silent -= 1

        # safety obligations of filter and element expression at a generic source index
        jj = z3.Int(sv.uid("fj"))
        saved = dict(path.env)
        path.guards.append(sv.And(0 <= jj, jj < seq.n))
        try:
            self.assign(gen.target, seq.at(jj), path)
            conds = [self.truthy(self.eval(c, path), path) for c in gen.ifs]
            path.guards.append(sv.And(*conds))
            try:
                self.eval(e.elt, path)
            finally:
                path.guards.pop()
        finally:
            path.guards.pop()
            path.env = saved
        i, i2, j = z3.Ints(f"{tag}.i {tag}.i2 {tag}.j")
        path.assume(sv.And(0 <= n, n <= seq.n))
        path.assume(z3.ForAll([i], sv.Implies(sv.And(0 <= i, i < n), sv.And(0 <= pos(i), pos(i) < seq.n, at_src(pos(i), "if"))),
                              patterns=[pos(i)]))
        path.assume(z3.ForAll([i, i2], sv.Implies(sv.And(0 <= i, i < i2, i2 < n), pos(i) < pos(i2)),
                              patterns=[z3.MultiPattern(pos(i), pos(i2))]))
        path.assume(z3.ForAll([j], sv.Implies(sv.And(0 <= j, j < seq.n, at_src(j, "if")),
                                              sv.And(0 <= inv(j), inv(j) < n, pos(inv(j)) == j)), patterns=[inv(j)]))
        # consequence (a strictly increasing map of [0,n) into [0,n) is the identity; not found by E-matching):
        # if nothing was filtered out, every element satisfies the filter and positions coincide
        path.assume(sv.Implies(n == seq.n, sv.And(
            z3.ForAll([j], sv.Implies(sv.And(0 <= j, j < seq.n), at_src(j, "if"))),
            z3.ForAll([i], sv.Implies(sv.And(0 <= i, i < n), pos(i) == i), patterns=[pos(i)]))))
        w = z3.Int(tag + ".w")
        path.assume(sv.Implies(n < seq.n, sv.And(0 <= w, w < seq.n, sv.Not(at_src(w, "if")))))
        res = sv.SList(n, lambda k: at_src(pos(k), "elt"), fresh=True)
        res.filter_of = (seq, pos, inv, lambda j: at_src(j, "if"))
        d = getattr(seq, "dict_src", None)
        if d is not None and getattr(d, "ksort", None) is not None:
            def on_key(kk, what, self=self, d=d):
                p = path.clone()
                p.env = dict(env0)
                self.silent += 1
                try:
                    self.assign(gen.target, d.val(kk), p)
                    if what == "elt":
                        return self.eval(e.elt, p)
                    return sv.And(*[self.truthy(self.eval(c, p), p) for c in gen.ifs])
                finally:
                    self.silent -= 1
            res.filtered_dict = (d, on_key)
        return res

    def lib_kwargs(self, v, path, node):
        if isinstance(v, sv.SPy) and v.what == "kwargs":
            return dict(v.payload)
        if isinstance(v, sv.SDict):
            return {"$kwargs": v}  # symbolic keyword arguments: handed to **kw parameters / contracts as one dict
        for h in self.hooks.get("kwargs", ()):
            r = h(self, v, path, node)
            if r is not None:
                return r
        return None

    def lib_construct(self, ci, args, kwargs, path, node):
        for h in self.hooks.get("construct", ()):
            r = h(self, ci, args, kwargs, path, node)
            if r is not None:
                return r
        return None

    def lib_call_value(self, fn, args, kwargs, path, node):
        for h in self.hooks.get("call_value", ()):
            r = h(self, fn, args, kwargs, path, node)
            if r is not None:
                return r
        return None

    def lib_container_method(self, base, attr, args, kwargs, lvalue, path, node):
        return None

    def lib_list_sort(self, base, kwargs, lvalue, path, node):
        for h in self.hooks.get("list_sort", ()):
            r = h(self, base, kwargs, lvalue, path, node)
            if r is not None:
                return r
        keyf = kwargs.get("key")
        if kwargs.get("reverse") is not None:
            raise Unsupported("list.sort(reverse=...)", node)
        tag = sv.uid("sort")
        perm = z3.Function(tag + ".perm", sv.IntS, sv.IntS)   # result index -> original index
        pinv = z3.Function(tag + ".inv", sv.IntS, sv.IntS)
        n = base.n

        def key_of(v):
            if keyf is None:
                return v
            self.silent += 1
            try:
                return self.call_value(keyf, [v], {}, path.clone(), node)
            finally:
                self.silent -= 1

        # the key function must be applicable to every element (safety at a generic index)
        if keyf is not None:
            jj = z3.Int(sv.uid("sj"))
            path.guards.append(sv.And(0 <= jj, jj < n))
            try:
                self.call_value(keyf, [base.at(jj)], {}, path, node)
            finally:
                path.guards.pop()
        res = sv.SList(n, lambda i, base=base: base.at(perm(i)), base.fresh)
        i, i2, j = z3.Ints(f"{tag}.i {tag}.i2 {tag}.j")
        path.assume(z3.ForAll([i], sv.Implies(sv.And(0 <= i, i < n), sv.And(0 <= perm(i), perm(i) < n, pinv(perm(i)) == i)), patterns=[perm(i)]))
        path.assume(z3.ForAll([j], sv.Implies(sv.And(0 <= j, j < n), sv.And(0 <= pinv(j), pinv(j) < n, perm(pinv(j)) == j)), patterns=[pinv(j)]))
        # keys must be mutually comparable (safety at two generic positions)
        j1, j2 = z3.Int(sv.uid("sj1")), z3.Int(sv.uid("sj2"))
        path.guards.append(sv.And(0 <= j1, j1 < n, 0 <= j2, j2 < n))
        try:
            self.compare(ast.LtE(), key_of(base.at(j1)), key_of(base.at(j2)), path, node)
        finally:
            path.guards.pop()
        self.silent += 1
        try:
            le = self.compare(ast.LtE(), key_of(res.at(i)), key_of(res.at(i2)), path, node)
            le0 = self.compare(ast.LtE(), key_of(res.at(z3.IntVal(0))), key_of(base.at(j)), path, node)
        finally:
            self.silent -= 1
        path.assume(z3.ForAll([i, i2], sv.Implies(sv.And(0 <= i, i < i2, i2 < n), le), patterns=[z3.MultiPattern(perm(i), perm(i2))]))
        # consequence: the first element of the result is a minimum of the original list
        path.assume(z3.ForAll([j], sv.Implies(sv.And(0 <= j, j < n), le0)))
        res.sorted_of = (base, perm, pinv)
        self.assign(lvalue, res, path, writeback=True)
        return sv.NONE

    def lib_getattr(self, base, attr, path, node):
        if isinstance(base, sv.SDelta):
            if attr == "total_seconds":
                return sv.SPy("libfn", lambda ex, p, a, k, n, base=base: sv.SReal(z3.ToReal(base.e) / US))
        if isinstance(base, sv.SStr) and attr in ("join", "format"):
            def strfn(ex, p, a, k, n):
                return sv.SStr(z3.Const(sv.uid("str"), sv.StrS))
            return sv.SPy("libfn", strfn)
        if isinstance(base, sv.SPy) and base.what == "dynclass":
            if attr in ("__name__", "__qualname__", "__module__"):
                return sv.SStr(z3.Const(sv.uid("clsname"), sv.StrS))
        for h in self.hooks.get("getattr", ()):
            r = h(self, base, attr, path, node)
            if r is not None:
                return r
        return None

    # ------------------------------------------------------------------ builtins
    def call_builtin(self, name, args, kwargs, path, node):
        if name == "len":
            v = args[0]
            if isinstance(v, sv.SUnion):
                parts = []
                for g, x in v.alts:
                    if isinstance(x, sv.SNone):
                        self.safe(path, "type", sv.Not(g), node)
                        continue
                    parts.append((g, self.call_builtin("len", [x], {}, path, node)))
                return sv.mk_union(parts)
            if isinstance(v, sv.SList):
                return sv.SInt(v.n)
            if isinstance(v, sv.SDict):
                return sv.SInt(v.keys.n)
            if isinstance(v, sv.STup):
                return sv.SInt(z3.IntVal(len(v.items)))
            if isinstance(v, sv.SSet):
                if v.card is None:
                    raise Unsupported("len of set with unknown cardinality", node)
                return sv.SInt(v.card)
            if isinstance(v, sv.SPy) and v.what == "seq":
                return sv.SInt(v.payload.n)
            r = self._hook_builtin(name, args, kwargs, path, node)
            if r is not None:
                return r
            raise Unsupported(f"len of {v}", node)
        if name == "isinstance":
            return sv.SBool(self.isinstance_value(path, args[0], args[1], node))
        if name == "bool":
            return sv.SBool(self.truthy(args[0], path))
        if name == "id":
            v = args[0]
            if isinstance(v, sv.SRef):
                return sv.SInt(v.e)
            return sv.SInt(z3.Int(sv.uid("id")))
        if name in ("str", "repr"):
            return sv.SStr(z3.Const(sv.uid("str"), sv.StrS))
        if name == "abs":
            v = args[0]
            if isinstance(v, (sv.SInt, sv.SReal, sv.SDelta, sv.SPay)):
                return sv.rebuild(v, sv.If(v.e >= 0, v.e, -v.e))
        if name in ("min", "max"):
            return self.min_max(name, args, kwargs, path, node)
        if name in ("any", "all"):
            return self.any_all(name, args[0], path, node)
        if name == "enumerate":
            seq = self.as_sequence(args[0], path, node)
            start = args[1].e if len(args) > 1 else z3.IntVal(0)
            return sv.SPy("seq", Seq(seq.n, lambda i, seq=seq, start=start: sv.STup([sv.SInt(sv.simp(i + start)), seq.at(i)])))
        if name == "range":
            if len(args) == 1:
                lo, hi = z3.IntVal(0), args[0].e
            elif len(args) == 2:
                lo, hi = args[0].e, args[1].e
            else:
                raise Unsupported("range with step", node)
            n = sv.simp(sv.If(hi > lo, hi - lo, z3.IntVal(0)))
            return sv.SPy("seq", Seq(n, lambda i, lo=lo: sv.SInt(sv.simp(i + lo))))
        if name == "reversed":
            seq = self.as_sequence(args[0], path, node)
            return sv.SPy("seq", Seq(seq.n, lambda i, seq=seq: seq.at(sv.simp(seq.n - 1 - i))))
        if name == "zip":
            seqs = [self.as_sequence(a, path, node) for a in args]
            n = seqs[0].n
            for s in seqs[1:]:
                n = sv.If(s.n < n, s.n, n)
            return sv.SPy("seq", Seq(sv.simp(n), lambda i, seqs=seqs: sv.STup([s.at(i) for s in seqs])))
        if name in ("list", "tuple"):
            if not args:
                return self.list_of([]) if name == "list" else sv.STup([])
            r = self._hook_builtin(name, args, kwargs, path, node)    # value kinds defined outside this module (arrays)
            if r is not None:
                return r
            v = args[0]
            if name == "tuple" and isinstance(v, sv.STup):
                return v
            seq = self.as_sequence(v, path, node)
            n = sv.simp(seq.n)
            if name == "tuple":
                if z3.is_int_value(n):
                    return sv.STup([seq.at(z3.IntVal(i)) for i in range(n.as_long())])
                raise Unsupported("tuple() of symbolic length", node)
            lst = sv.SList(seq.n, seq.at, fresh=True)
            if isinstance(v, sv.SList) and getattr(v, "items", None) is not None:
                lst.items = v.items
            return lst
        if name == "map":
            seq = self.as_sequence(args[1], path, node)
            fnv = args[0]
            j = z3.Int(sv.uid("mj"))
            path.guards.append(sv.And(0 <= j, j < seq.n))
            try:
                self.call_value(fnv, [seq.at(j)], {}, path, node)  # applicability at a generic position
            finally:
                path.guards.pop()

            def at(i, self=self, fnv=fnv, seq=seq, path=path, node=node):
                self.silent += 1
                try:
                    return self.call_value(fnv, [seq.at(i)], {}, path.clone(), node)
                finally:
                    self.silent -= 1

            return sv.SPy("seq", Seq(seq.n, at))
        if name == "dict" and not args and not kwargs:
            return self.empty_dict()
        if name == "set" and not args:
            return self.empty_set()
        if name == "super":
            fr = self.frames[-1]
            if fr.cls is None or "self" not in path.env:
                raise Unsupported("super() outside a method", node)
            ref = path.env["self"]
            dyn = self.class_of_ref(ref)
            # super() continues in the MRO of the *dynamic* class after the defining class
            mro = dyn.mro
            i = mro.index(fr.cls)
            from .front import ClassInfo  # noqa

            class _V:  # a view whose mro starts at the defining class
                pass

            v = _V()
            v.mro = mro[i:]
            return sv.SPy("super", (v, ref))
        if name in ("int", "float"):
            v = args[0]
            if isinstance(v, sv.SInt):
                return v if name == "int" else sv.SReal(z3.ToReal(v.e))
            if isinstance(v, sv.SReal) and name == "float":
                return v
            if isinstance(v, sv.SBool):
                e = sv.If(v.e, z3.IntVal(1), z3.IntVal(0))
                return sv.SInt(e) if name == "int" else sv.SReal(z3.ToReal(e))
        if name == "type":
            if isinstance(args[0], sv.SRef):
                return sv.SPy("dynclass", args[0])
        if name == "hasattr":
            r = self._hook_builtin(name, args, kwargs, path, node)
            if r is not None:
                return r
        r = self._hook_builtin(name, args, kwargs, path, node)
        if r is not None:
            return r
        raise Unsupported(f"builtin {name}({', '.join(str(a) for a in args)})", node)

    def _hook_builtin(self, name, args, kwargs, path, node):
        for h in self.hooks.get("builtin", ()):
            r = h(self, name, args, kwargs, path, node)
            if r is not None:
                return r
        return None

    def min_max(self, name, args, kwargs, path, node):
        is_min = name == "min"
        if len(args) >= 2:
            r = args[0]
            for x in args[1:]:
                # python: min(a, b) returns a unless b < a ; max(a, b) returns a unless b > a
                c = self.compare(ast.Lt() if is_min else ast.Gt(), x, r, path, node)
                if isinstance(r, sv.SInt) and isinstance(x, sv.SReal):
                    r = sv.SReal(z3.ToReal(r.e))
                if isinstance(x, sv.SInt) and isinstance(r, sv.SReal):
                    x = sv.SReal(z3.ToReal(x.e))
                r = sv.ite(c, x, r)
            return r
        seq = self.as_sequence(args[0], path, node)
        self.safe(path, "empty", seq.n > 0, node)
        n = sv.simp(seq.n)
        if z3.is_int_value(n):
            return self.min_max(name, [seq.at(z3.IntVal(i)) for i in range(n.as_long())], kwargs, path, node)
        # symbolic sequence: result is an element that bounds all others
        w = z3.Int(sv.uid("argm"))
        j = z3.Int(sv.uid("j"))
        path.assume(sv.And(0 <= w, w < seq.n))
        res = seq.at(w)
        elem_j = seq.at(j)
        # elements must be mutually comparable (None among them raises TypeError)
        if isinstance(elem_j, sv.SUnion):
            for g, x in elem_j.alts:
                if isinstance(x, sv.SNone):
                    self.safe(path, "type", z3.ForAll([j], sv.Implies(sv.And(0 <= j, j < seq.n), sv.Not(g))), node)
            res = _strip_none(res)
            elem_j = _strip_none(elem_j)
        op = ast.LtE() if is_min else ast.GtE()
        self.silent += 1
        try:
            c = self.compare(op, res, elem_j, path, node)
        finally:
            self.silent -= 1
        path.assume(z3.ForAll([j], sv.Implies(sv.And(0 <= j, j < seq.n), c)))
        fd = getattr(seq, "filtered_dict", None)
        if fd is not None:
            # per key of the dict whose values were filtered: every key passing the filter is bounded
            d0, on_key = fd
            kk = z3.Const(sv.uid("mk"), d0.ksort)
            self.silent += 1
            try:
                ck = self.compare(op, res, _strip_none(on_key(kk, "elt")), path, node)
            finally:
                self.silent -= 1
            path.assume(z3.ForAll([kk], sv.Implies(sv.And(d0.dom(kk), on_key(kk, "if")), ck)))
        d = getattr(seq, "dict_src", None)
        if d is not None and getattr(d, "ksort", None) is not None:
            # the same fact per key (a consequence of dict semantics: every key in the domain has a position)
            kk = z3.Const(sv.uid("mk"), d.ksort)
            self.silent += 1
            try:
                ck = self.compare(op, res, _strip_none(d.val(kk)), path, node)
            finally:
                self.silent -= 1
            path.assume(z3.ForAll([kk], sv.Implies(d.dom(kk), ck)))
        return res

    def any_all(self, name, arg, path, node):
        seq = self.as_sequence(arg, path, node)
        n = sv.simp(seq.n)
        if z3.is_int_value(n):
            vals = [self.truthy(seq.at(z3.IntVal(i)), path) for i in range(n.as_long())]
            return sv.SBool(sv.Or(*vals) if name == "any" else sv.And(*vals))
        j = z3.Int(sv.uid("j"))
        w = z3.Int(sv.uid("w"))
        b = z3.Bool(sv.uid(name))
        pj = self.truthy(seq.at(j), path)
        pw = self.truthy(seq.at(w), path)
        rng_j = sv.And(0 <= j, j < seq.n)
        if name == "any":
            path.assume(sv.Implies(b, sv.And(0 <= w, w < seq.n, pw)))
            path.assume(sv.Implies(sv.Not(b), z3.ForAll([j], sv.Implies(rng_j, sv.Not(pj)))))
        else:
            path.assume(sv.Implies(sv.Not(b), sv.And(0 <= w, w < seq.n, sv.Not(pw))))
            path.assume(sv.Implies(b, z3.ForAll([j], sv.Implies(rng_j, pj))))
        src = getattr(seq, "key_pred", None)
        if src is not None:
            d, pred = src
            kk = z3.Const(sv.uid("ak"), d.ksort)
            pk = pred(kk)
            if name == "any":
                path.assume(sv.Implies(sv.Not(b), z3.ForAll([kk], sv.Implies(d.dom(kk), sv.Not(pk)))))
            else:
                path.assume(sv.Implies(b, z3.ForAll([kk], sv.Implies(d.dom(kk), pk))))
        return sv.SBool(b)

    # ------------------------------------------------------------------ external (library) functions
    def call_ext(self, dotted, args, kwargs, path, node):
        m = self.ext_models.get(dotted)
        if m is None:
            # try by suffix (np.save is numpy.save)
            for k, v in self.ext_models.items():
                if dotted.endswith("." + k) or dotted == k:
                    m = v
                    break
        if m is None:
            raise Unsupported(f"call of external function {dotted} (no library model)", node)
        return m(self, path, args, kwargs, node)

    # ------------------------------------------------------------------ isinstance
    def isinstance_value(self, path, v, clsv, node):
        if isinstance(clsv, sv.STup):
            return sv.Or(*[self.isinstance_value(path, v, c, node) for c in clsv.items])
        if isinstance(clsv, sv.SPy) and clsv.what == "class":
            cname = clsv.payload.name
        elif isinstance(clsv, sv.SPy) and clsv.what in ("builtin", "ext"):
            cname = clsv.payload.split(".")[-1]
        else:
            raise Unsupported(f"isinstance against {clsv}", node)
        return self.isinstance_name(path, v, cname, node)

    def isinstance_name(self, path, v, cname, node=None):
        if isinstance(v, sv.SUnion):
            return sv.Or(*[sv.And(g, self.isinstance_name(path, x, cname, node)) for g, x in v.alts])
        if isinstance(v, sv.SRef):
            if not self.repo.has_cls(cname):
                return z3.BoolVal(False)
            return self.isinstance_expr(path, v, cname)
        table = {
            "str": sv.SStr, "int": (sv.SInt, sv.SBool), "float": sv.SReal, "bool": sv.SBool, "datetime": sv.STime,
            "timedelta": sv.SDelta, "list": sv.SList, "tuple": sv.STup, "dict": sv.SDict, "set": sv.SSet,
        }
        if cname in table:
            return z3.BoolVal(isinstance(v, table[cname]))
        if isinstance(v, sv.SNone):
            return z3.BoolVal(False)
        for h in self.hooks.get("isinstance", ()):
            r = h(self, path, v, cname, node)
            if r is not None:
                return r
        if isinstance(v, sv._Leaf) and self.repo.has_cls(cname):
            return z3.BoolVal(False)
        raise Unsupported(f"isinstance({v}, {cname})", node)


def _mentions(f, x):
    stack, seen = [f], set()
    while stack:
        t = stack.pop()
        if t.get_id() in seen:
            continue
        seen.add(t.get_id())
        if t.eq(x):
            return True
        if z3.is_app(t):
            stack.extend(t.children())
        elif z3.is_quantifier(t):
            stack.append(t.body())
    return False


def _strip_none(v):
    if isinstance(v, sv.SUnion):
        alts = [(g, x) for g, x in v.alts if not isinstance(x, sv.SNone)]
        if len(alts) == 1:
            return alts[0][1]
        r = alts[-1][1]
        for g, x in reversed(alts[:-1]):
            r = sv.ite(g, x, r)
        return r
    return v
