"""Front end: parse the real finam source tree (never imported), build class / function tables."""
import ast
import hashlib
import os

REPO = os.environ.get("VERIF_REPO", "/repo")
SRC = os.path.join(REPO, "src")


class FuncInfo:
    def __init__(self, qual, module, cls, node, path, decorators):
        self.qual = qual  # finam.sdk.output.Output._interpolate
        self.module = module
        self.cls = cls  # ClassInfo or None
        self.node = node
        self.path = path
        self.decorators = decorators
        self.is_property = "property" in decorators
        self.is_setter = any(d.endswith(".setter") for d in decorators)
        self.name = node.name

    @property
    def params(self):
        a = self.node.args
        return [x.arg for x in a.posonlyargs + a.args]


class ClassInfo:
    def __init__(self, qual, module, node, path):
        self.qual = qual
        self.name = node.name
        self.module = module
        self.node = node
        self.path = path
        self.base_exprs = node.bases
        self.bases = []  # resolved ClassInfo or external names (str)
        self.methods = {}  # name -> FuncInfo (getter for properties)
        self.setters = {}  # name -> FuncInfo
        self.consts = {}  # class-level constant assignments: name -> ast node
        self.mro = None


class Module:
    def __init__(self, name, path, tree, source):
        self.name = name
        self.path = path
        self.tree = tree
        self.source = source
        self.sha256 = hashlib.sha256(source.encode()).hexdigest()
        self.imports = {}  # local alias -> dotted target ("finam.data.tools" / "numpy" / "finam.errors.FinamTimeError")
        self.functions = {}
        self.classes = {}
        self.consts = {}
        self.is_pkg = path.endswith("__init__.py")


def _dec_name(d):
    if isinstance(d, ast.Name):
        return d.id
    if isinstance(d, ast.Attribute):
        return _dec_name(d.value) + "." + d.attr
    if isinstance(d, ast.Call):
        return _dec_name(d.func)
    return "?"


class Repo:
    def __init__(self, src=None):
        self.src = src or SRC
        self.modules = {}
        self.classes = {}  # qual -> ClassInfo
        self.class_by_name = {}  # short name -> [ClassInfo]
        self.functions = {}  # qual -> FuncInfo
        self._load()
        self._resolve()

    # ---------------------------------------------------------------- loading
    def _load(self):
        root = os.path.join(self.src, "finam")
        for dp, _dn, fns in os.walk(root):
            for fn in sorted(fns):
                if not fn.endswith(".py"):
                    continue
                path = os.path.join(dp, fn)
                rel = os.path.relpath(path, self.src)[:-3].replace(os.sep, ".")
                if rel.endswith(".__init__"):
                    rel = rel[: -len(".__init__")]
                with open(path, encoding="utf-8") as f:
                    source = f.read()
                tree = ast.parse(source, filename=path)
                m = Module(rel, path, tree, source)
                self.modules[rel] = m
                self._scan_module(m)

    def _scan_module(self, m):
        pkg = m.name if m.is_pkg else m.name.rsplit(".", 1)[0]
        for node in m.tree.body:
            self._scan_stmt(m, pkg, node)

    def _scan_stmt(self, m, pkg, node):
        if isinstance(node, ast.Import):
            for a in node.names:
                m.imports[a.asname or a.name.split(".")[0]] = a.name if a.asname else a.name.split(".")[0]
        elif isinstance(node, ast.ImportFrom):
            base = node.module or ""
            if node.level:
                parts = pkg.split(".")
                parts = parts[: len(parts) - (node.level - 1)]
                base = ".".join(parts + ([node.module] if node.module else []))
            for a in node.names:
                m.imports[a.asname or a.name] = f"{base}.{a.name}"
        elif isinstance(node, ast.FunctionDef):
            decs = [_dec_name(d) for d in node.decorator_list]
            fi = FuncInfo(f"{m.name}.{node.name}", m, None, node, m.path, decs)
            m.functions[node.name] = fi
            self.functions[fi.qual] = fi
        elif isinstance(node, ast.ClassDef):
            ci = ClassInfo(f"{m.name}.{node.name}", m, node, m.path)
            m.classes[node.name] = ci
            self.classes[ci.qual] = ci
            self.class_by_name.setdefault(node.name, []).append(ci)
            for sub in node.body:
                if isinstance(sub, ast.FunctionDef):
                    decs = [_dec_name(d) for d in sub.decorator_list]
                    fi = FuncInfo(f"{ci.qual}.{sub.name}", m, ci, sub, m.path, decs)
                    if fi.is_setter:
                        ci.setters[sub.name] = fi
                        self.functions[fi.qual + ".setter"] = fi
                    else:
                        ci.methods[sub.name] = fi
                        self.functions[fi.qual] = fi
                elif isinstance(sub, ast.Assign) and len(sub.targets) == 1 and isinstance(sub.targets[0], ast.Name):
                    ci.consts[sub.targets[0].id] = sub.value
        elif isinstance(node, ast.Assign) and len(node.targets) == 1 and isinstance(node.targets[0], ast.Name):
            m.consts[node.targets[0].id] = node.value
        elif isinstance(node, (ast.If, ast.Try)):
            for sub in getattr(node, "body", []):
                self._scan_stmt(m, pkg, sub)

    # ---------------------------------------------------------------- resolution
    def resolve_name(self, m, name, depth=0):
        """resolve a (possibly dotted) name used in module m to ('class'|'func'|'module'|'ext'|'const', obj)"""
        parts = name.split(".")
        head = parts[0]
        if head in m.classes and len(parts) == 1:
            return "class", m.classes[head]
        if head in m.functions and len(parts) == 1:
            return "func", m.functions[head]
        if head in m.imports:
            return self.resolve_dotted(".".join([m.imports[head]] + parts[1:]), depth)
        if head in m.consts and len(parts) == 1:
            return "const", (m, m.consts[head])
        return "ext", name

    def resolve_dotted(self, dotted, depth=0):
        if depth > 12:
            return "ext", dotted
        if dotted in self.modules:
            return "module", self.modules[dotted]
        if dotted in self.classes:
            return "class", self.classes[dotted]
        if dotted in self.functions:
            return "func", self.functions[dotted]
        if "." in dotted:
            mod, last = dotted.rsplit(".", 1)
            kind, obj = self.resolve_dotted(mod, depth + 1)
            if kind == "module":
                return self.resolve_name_in_module(obj, last, depth + 1)
            if kind == "class":
                if last in obj.methods:
                    return "func", obj.methods[last]
                if last in obj.consts:
                    return "const", (obj.module, obj.consts[last])
        return "ext", dotted

    def resolve_name_in_module(self, m, name, depth=0):
        if name in m.classes:
            return "class", m.classes[name]
        if name in m.functions:
            return "func", m.functions[name]
        if name in m.imports:
            return self.resolve_dotted(m.imports[name], depth + 1)
        if name in m.consts:
            return "const", (m, m.consts[name])
        sub = f"{m.name}.{name}"
        if sub in self.modules:
            return "module", self.modules[sub]
        return "ext", f"{m.name}.{name}"

    def _resolve(self):
        for ci in self.classes.values():
            for b in ci.base_exprs:
                try:
                    nm = ast.unparse(b)
                except Exception:  # pragma: no cover
                    nm = "?"
                kind, obj = self.resolve_name(ci.module, nm)
                ci.bases.append(obj if kind == "class" else nm)
        for ci in self.classes.values():
            self._mro(ci)

    def _mro(self, ci):
        if ci.mro is not None:
            return ci.mro
        seqs = []
        for b in ci.bases:
            if isinstance(b, ClassInfo):
                seqs.append(list(self._mro(b)))
        seqs.append([b for b in ci.bases if isinstance(b, ClassInfo)])
        res = [ci]
        seqs = [s for s in seqs if s]
        while seqs:
            for s in seqs:
                cand = s[0]
                if not any(cand in t[1:] for t in seqs):
                    break
            else:
                raise TypeError(f"inconsistent MRO for {ci.qual}")
            res.append(cand)
            seqs = [[x for x in s if x is not cand] for s in seqs]
            seqs = [s for s in seqs if s]
        ci.mro = res
        return res

    # ---------------------------------------------------------------- queries
    def cls(self, name):
        """ClassInfo by qualified or short name"""
        if name in self.classes:
            return self.classes[name]
        cands = self.class_by_name.get(name, [])
        if len(cands) == 1:
            return cands[0]
        if not cands:
            raise KeyError(f"class {name} not found in source tree")
        raise KeyError(f"class name {name} ambiguous: {[c.qual for c in cands]}")

    def has_cls(self, name):
        try:
            self.cls(name)
            return True
        except KeyError:
            return False

    def lookup_method(self, ci, name):
        for c in ci.mro:
            if name in c.methods:
                return c.methods[name]
        return None

    def lookup_setter(self, ci, name):
        for c in ci.mro:
            if name in c.setters:
                return c.setters[name]
        return None

    def lookup_const(self, ci, name):
        for c in ci.mro:
            if name in c.consts:
                return c, c.consts[name]
        return None

    def is_subclass(self, ci, base):
        return base in ci.mro

    def subclasses(self, base):
        return [c for c in self.classes.values() if base in c.mro]

    def func(self, qual):
        if qual in self.functions:
            return self.functions[qual]
        raise KeyError(f"function {qual} not found in source tree (contract out of date?)")

    def ext_bases(self, ci):
        out = set()
        for c in ci.mro:
            for b in c.bases:
                if isinstance(b, str):
                    out.add(b)
        return out
