"""Contract objects (sidecar specifications keyed by qualified function name)."""
import z3

from . import sv


class Contract:
    """Specification of one function of the real source (or of an interface method).

    target     qualified name ``finam.sdk.output.Output._interpolate`` or ``iface:IOutput.get_data``
    self_cls   class for which the body is verified (instantiation); None for module functions
    props      obligation prefixes, e.g. ["C08.1"]
    params     {param name: Ty}; ``self`` is implied
    result     Ty of the result as seen by callers (None: no result / NONE)
    requires   fn(ctx) -> z3 Bool           (pre-state)
    ensures    fn(ctx, result) -> z3 Bool   (ctx.old = pre-state, ctx = post-state)
    raises     {exception class name: fn(ctx) -> z3 Bool}: the exception may escape only if the
               condition holds (evaluated with ctx = state at the raise, ctx.old = pre-state)
    must_raise {exception class name: fn(ctx) -> z3 Bool}: evaluated in the pre-state; if it holds
               the function must not return normally ("iff" direction)
    modifies   fn(ctx) -> list of (ref SV | None, field name); None = every object
    raise_frame_empty  if True: on an exceptional exit nothing in `modifies` was changed
    loops      {ordinal: dict(invariant=fn(ctx,k), decreases=fn(ctx), unroll=int)}
    inline     callers execute the body instead of using the contract
    pure       no heap effect (callers keep the heap)
    """

    def __init__(self, target, self_cls=None, props=(), params=None, result=None, requires=None,
                 ensures=None, raises=None, must_raise=None, modifies=None, loops=None, inline=False,
                 pure=False, raise_frame_empty=False, decreases=None, note="", axioms=None,
                 verify=True, name=None, fields=None, result_fn=None, max_paths=400, primary=True, call_checks=None, defaults=None, inline_calls=(), tags=(), virtual=(), dropped_attrs=()):
        self.target = target
        self.self_cls = self_cls
        self.props = list(props)
        self.params = params or {}
        self.result = result
        self.requires = requires
        self.ensures = ensures
        self.raises = raises or {}
        self.must_raise = must_raise or {}
        self.modifies = modifies
        self.loops = loops or {}
        self.inline = inline
        self.pure = pure
        self.raise_frame_empty = raise_frame_empty
        self.decreases = decreases
        self.note = note
        self.axioms = axioms  # fn(ctx) -> list of z3 Bool (spec-function axioms used by this unit)
        self.verify = verify  # False: assumed contract (interface / library), listed as assumption
        self.name = name or target.split(".")[-1]
        self.fields = fields or {}  # field-type overrides for this unit
        self.result_fn = result_fn  # fn(ctx) -> SV : deterministic result (for pure spec'd functions)
        self.max_paths = max_paths
        self.defaults = defaults or {}  # default values (SV) of interface method parameters
        self.call_checks = call_checks or {}  # callee short name -> fn(ctx, argmap) -> z3 Bool, obligation at each call site
        self.dropped_attrs = set(dropped_attrs)  # attributes of container objects (maps / sequences) that the container model does not carry: assignments are dropped (counted in dropped_nodes)
        self.virtual = set(virtual)  # methods of self that are dispatched through their interface contract (template-method hooks overridden by subclasses)
        self.tags = set(tags)  # free-form switches read by model hooks (e.g. how payload values are interpreted in this unit)
        self.inline_calls = set(inline_calls)  # qualified names whose body is executed in this unit although a (more abstract) contract exists
        self.primary = primary  # caller-facing contract (non-primary: extra verification unit / case)

    @property
    def is_iface(self):
        return self.target.startswith("iface:")

    def key(self):
        return (self.target, self.self_cls)


class Registry:
    def __init__(self):
        self.by_key = {}
        self.by_target = {}
        self.iface = {}  # "IOutput.get_data" or "*.name" -> Contract
        self.fields = {}  # field name or (cls, field) -> Ty
        self.lemmas = []  # (name, props, fn() -> (hyps, goal))
        self.units = []  # contracts to verify, in registration order
        self.facts = []  # (name, props, holds: bool, text): facts about the class table of the real source, one obligation each
        self.attr_fields = {}  # attribute written through an interface setter -> heap fields it stands for (loop havoc)
        self.module_state = {}  # (module dotted name, global variable) -> heap field on the world object (mutable module-level state)
        self.static_dispatch = set()  # classes whose non-overridden concrete methods are dispatched statically on interface refs
        self.closed_classes = set()  # finam classes assumed to have no user subclasses (static dispatch)

    def add(self, c):
        if c.is_iface:
            self.iface[c.target[len("iface:"):]] = c
            return c
        if c.primary:
            self.by_key[c.key()] = c
            self.by_target.setdefault(c.target, []).append(c)
        if c.verify:
            self.units.append(c)
        return c

    def field(self, name, ty, cls=None):
        self.fields[(cls, name) if cls else name] = ty

    def lemma(self, name, props, fn):
        self.lemmas.append((name, list(props), fn))

    def find(self, target, self_cls_mro_names):
        """contract for function `target` verified for the nearest class in the mro"""
        cs = self.by_target.get(target, [])
        if not cs:
            return None
        for cn in self_cls_mro_names:
            for c in cs:
                if c.self_cls == cn:
                    return c
        for c in cs:
            if c.self_cls is None:
                return c
        return None

    def find_iface(self, static_cls_names, attr):
        for cn in static_cls_names:
            c = self.iface.get(f"{cn}.{attr}")
            if c is not None:
                return c
        return self.iface.get(f"*.{attr}")


class Ctx:
    """what a contract clause sees: arguments, current heap, pre-state heap, locals"""

    def __init__(self, ex, path, args, old_heap=None, locals_=None, k=None):
        self.ex = ex
        self.path = path
        self.args = args
        self._old = old_heap
        self.locals = locals_ or {}
        self.k = k
        self._view = None  # heap snapshot this context reads (None: the path's current heap)

    def __getattr__(self, name):
        # argument access: ctx.time, ctx.self
        args = object.__getattribute__(self, "args")
        if name in args:
            return args[name]
        raise AttributeError(name)

    def arg(self, name):
        return self.args[name]

    def local(self, name):
        if name not in self.locals:
            name = getattr(self.ex, "local_rename", {}).get(name, name)      # the local was renamed (same binding order): follow it
        v = self.locals[name]
        if isinstance(v, sv.SPy) and v.what == "alias":
            return self.ex.eval(v.payload, self.path)     # a local that names a container living in the heap
        return v

    def post_arg(self, name):
        """value of a by-reference (container) argument after the call"""
        post = self.args.get("$post")
        if post is not None and post.get(name) is not None:
            return post[name]
        return self.args[name]

    def pre_arg(self, name):
        pre = self.__dict__.get("pre_args")
        return pre[name] if pre is not None else self.args[name]

    def get(self, ref, field):
        return self.path.heap_get(self.ex, ref, field, self._view)

    @property
    def old(self):
        c = Ctx(self.ex, self.path, self.args, self._old, self.locals, self.k)
        c._view = self._old if self._old is not None else self.path.entry_heap
        if hasattr(self, "pre_args"):
            c.args = self.pre_args
        return c

    def isinstance(self, ref, cls):
        return self.ex.isinstance_expr(self.path, ref, cls)

    def fresh(self, ty, name):
        return sv.mk(ty, sv.uid(name))


def forall(vars_, body, patterns=None):
    if not isinstance(vars_, (list, tuple)):
        vars_ = [vars_]
    if patterns:
        return z3.ForAll(list(vars_), body, patterns=patterns)
    return z3.ForAll(list(vars_), body)
