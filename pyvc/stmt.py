"""Statement execution (path-wise symbolic execution of the real AST)."""
import ast

import z3

from . import sv
from .contract import Ctx
from .path import DeadPath, NeedFork, Unsupported

NEXT, RET, RAISE, BRK, CONT = "next", "return", "raise", "break", "continue"

MUTATORS = {"append", "pop", "clear", "add", "remove", "insert", "extend", "sort", "update", "discard",
            "setdefault", "popitem", "reverse"}


class Exc:
    """a raised exception: class name(s) it is an instance of"""

    def __init__(self, cls_name, mro_names, node=None, implicit=False):
        self.cls_name = cls_name
        self.mro_names = mro_names
        self.node = node
        self.implicit = implicit

    def __repr__(self):
        return f"Exc({self.cls_name})"


class StmtMixin:
    # ------------------------------------------------------------------ blocks
    def exec_block(self, stmts, path):
        outs = []
        work = [(0, path)]
        while work:
            i, p = work.pop()
            if i >= len(stmts):
                outs.append((NEXT, p, None))
                continue
            for kind, p2, val in self.exec_stmt(stmts[i], p):
                if kind == NEXT:
                    work.append((i + 1, p2))
                else:
                    outs.append((kind, p2, val))
            if len(outs) + len(work) > self.max_paths:
                raise Unsupported(f"path explosion (> {self.max_paths} paths)", stmts[i])
        return outs

    def exec_stmt(self, stmt, path):
        """handles forks requested from inside expression evaluation by re-execution with a memo"""
        results = []
        outer_memo, outer_pos = path.memo, path.memo_pos
        work = [[]]
        while work:
            memo = work.pop()
            p = path.clone()
            p.memo = memo
            p.memo_pos = 0
            try:
                outs = self._exec_stmt(stmt, p)
            except NeedFork as f:
                for k in range(f.options):
                    work.append(memo + [k])
                continue
            except DeadPath:
                continue
            results.extend(outs)
        pruned = []
        for kind, p, val in results:
            if p.dead:
                continue
            p.memo, p.memo_pos = outer_memo, outer_pos
            pruned.append((kind, p, val))
        return pruned

    def choose(self, path, conds):
        """fork point inside an expression: conds are z3 Bools (exhaustive); returns chosen index"""
        live = [i for i, c in enumerate(conds) if not sv.is_false(sv.simp(c) if not isinstance(c, bool) else z3.BoolVal(c))]
        if len(live) == 1:
            path.assume(conds[live[0]])
            return live[0]
        if path.memo_pos < len(path.memo):
            k = path.memo[path.memo_pos]
            path.memo_pos += 1
            path.assume(conds[k])
            if not self.feasible(path):
                raise DeadPath()
            return k
        raise NeedFork(len(conds))

    # ------------------------------------------------------------------ statements
    def _exec_stmt(self, s, path):
        self.cur_line = getattr(s, "lineno", None)
        m = getattr(self, "_s_" + s.__class__.__name__, None)
        if m is None:
            raise Unsupported(f"statement {s.__class__.__name__}", s)
        return m(s, path)

    def _s_FunctionDef(self, s, path):
        # a nested function is a closure over the current environment (captured by value at definition time;
        # finam's nested functions do not rebind captured names)
        path.env[s.name] = sv.SPy("closure", (s, dict(path.env), self.frames[-1]))
        return [(NEXT, path, None)]

    def _s_Pass(self, s, path):
        return [(NEXT, path, None)]

    def _s_Expr(self, s, path):
        if isinstance(s.value, ast.Constant):  # docstring
            self.dropped += 1
            return [(NEXT, path, None)]
        try:
            self.eval(s.value, path)
        except RaisedInExpr as r:
            return [(RAISE, r.path, r.exc)]
        return [(NEXT, path, None)]

    def _s_Assign(self, s, path):
        try:
            v = self.eval(s.value, path)
            if len(s.targets) == 1 and isinstance(s.targets[0], ast.Name) and isinstance(s.value, ast.Attribute) and isinstance(s.value.value, ast.Name) \
                    and isinstance(v, (sv.SList, sv.SDict, sv.SSet)) and not getattr(v, "fresh", False) and s.value.value.id in path.env \
                    and isinstance(path.env[s.value.value.id], sv.SRef):
                # `x = obj.attr` where the attribute holds a mutable container: x is another name for that object, in-place operations
                # through x change it (containers are values in this encoding, so the name is resolved where the object lives)
                self.assign(s.targets[0], sv.NONE, path)
                hidden = sv.uid("$alias_base")           # the object is fixed now; the variable it was reached through may be rebound later
                path.env[hidden] = path.env[s.value.value.id]
                path.env[s.targets[0].id] = sv.SPy("alias", ast.copy_location(ast.Attribute(value=ast.copy_location(ast.Name(id=hidden, ctx=ast.Load()), s.value),
                                                                                                attr=s.value.attr, ctx=ast.Load()), s.value))
                return [(NEXT, path, None)]
            for t in s.targets:
                self.assign(t, v, path)
        except RaisedInExpr as r:
            return [(RAISE, r.path, r.exc)]
        return [(NEXT, path, None)]

    def _s_AnnAssign(self, s, path):
        if s.value is None:
            return [(NEXT, path, None)]
        try:
            self.assign(s.target, self.eval(s.value, path), path)
        except RaisedInExpr as r:
            return [(RAISE, r.path, r.exc)]
        return [(NEXT, path, None)]

    def _s_AugAssign(self, s, path):
        try:
            cur = self.eval(_as_load(s.target), path)
            rhs = self.eval(s.value, path)
            v = self.binop(s.op, cur, rhs, path, s)
            self.assign(s.target, v, path)
        except RaisedInExpr as r:
            return [(RAISE, r.path, r.exc)]
        return [(NEXT, path, None)]

    def _s_Return(self, s, path):
        try:
            v = self.eval(s.value, path) if s.value is not None else sv.NONE
        except RaisedInExpr as r:
            return [(RAISE, r.path, r.exc)]
        return [(RET, path, v)]

    def _s_Break(self, s, path):
        return [(BRK, path, None)]

    def _s_Continue(self, s, path):
        return [(CONT, path, None)]

    def _s_Raise(self, s, path):
        try:
            exc = self.eval_exception(s.exc, path, s)
        except RaisedInExpr as r:
            return [(RAISE, r.path, r.exc)]
        return [(RAISE, path, exc)]

    def _s_Assert(self, s, path):
        try:
            c = self.truthy(self.eval(s.test, path), path)
        except RaisedInExpr as r:
            return [(RAISE, r.path, r.exc)]
        self.oblige(path, "safe:assert", c, s)
        return [(NEXT, path, None)]

    def _s_Delete(self, s, path):
        for t in s.targets:
            if isinstance(t, ast.Subscript):
                cont = self.eval(t.value, path)
                key = self.eval(t.slice, path)
                if isinstance(cont, sv.SDict):
                    self.oblige(path, "safe:key", cont.dom(key.e), s)
                    self.assign(t.value, self.dict_del(cont, key), path)
                    continue
            raise Unsupported("del of this target", s)
        return [(NEXT, path, None)]

    def _s_If(self, s, path):
        try:
            c = self.truthy(self.eval(s.test, path), path)
        except RaisedInExpr as r:
            return [(RAISE, r.path, r.exc)]
        outs = []
        c = sv.simp(c)
        if not sv.is_false(c):
            p1 = path.clone()
            p1.assume(c)
            p1.trace.append((s.lineno, 1))
            if sv.is_true(c) or self.feasible(p1):
                self.narrow_tested(s.test, p1)
                outs += self.exec_block(s.body, p1)
        if not sv.is_true(c):
            p2 = path.clone()
            p2.assume(sv.Not(c))
            p2.trace.append((s.lineno, 0))
            if sv.is_false(c) or self.feasible(p2):
                self.narrow_tested(s.test, p2)
                outs += self.exec_block(s.orelse, p2)
        return outs

    def narrow_tested(self, test, p):
        """`x is None` / `x is not None` tests on a local: alternatives of x excluded by the branch condition are dropped"""
        names = set()
        for n in ast.walk(test):
            if isinstance(n, ast.Compare) and isinstance(n.left, ast.Name) and len(n.ops) == 1 and isinstance(n.ops[0], (ast.Is, ast.IsNot)) \
                    and isinstance(n.comparators[0], ast.Constant) and n.comparators[0].value is None:
                names.add(n.left.id)
        for nm in names:
            v = p.env.get(nm)
            if isinstance(v, sv.SUnion):
                keep = [(g, x) for g, x in v.alts if not self.entails(p, sv.Not(g))]
                if keep and len(keep) < len(v.alts):
                    p.env[nm] = keep[0][1] if len(keep) == 1 else sv.mk_union(keep)

    def _s_With(self, s, path):
        for item in s.items:
            ce = item.context_expr
            ok = isinstance(ce, ast.Call) and isinstance(ce.func, ast.Name) and ce.func.id == "ErrorLogger"
            if not ok:
                raise Unsupported("with-statement other than ErrorLogger", s)
            self.dropped += 1
        return self.exec_block(s.body, path)

    def _s_Try(self, s, path):
        if s.finalbody:
            raise Unsupported("try/finally", s)
        outs = []
        for kind, p, val in self.exec_block(s.body, path):
            if kind == RAISE:
                handled = False
                for h in s.handlers:
                    names = self.handler_names(h)
                    if names is None or any(n in val.mro_names for n in names):
                        if h.name:
                            p.env[h.name] = sv.SPy("exc", val)
                        outs += self.exec_block(h.body, p)
                        handled = True
                        break
                if not handled:
                    outs.append((kind, p, val))
            elif kind == NEXT:
                outs += self.exec_block(s.orelse, p) if s.orelse else [(NEXT, p, None)]
            else:
                outs.append((kind, p, val))
        return outs

    def handler_names(self, h):
        if h.type is None:
            return None
        ts = h.type.elts if isinstance(h.type, ast.Tuple) else [h.type]
        names = []
        for t in ts:
            n = ast.unparse(t).split(".")[-1]
            if n in ("Exception", "BaseException"):
                return None
            names.append(n)
        return names

    # ------------------------------------------------------------------ loops
    def _inv_or_false(self, inv, ctx):
        """invariant formula; if the loop state no longer has the shape the invariant talks about (a local of another kind),
        the invariant cannot hold as stated"""
        try:
            return inv(ctx)
        except (AttributeError, TypeError, KeyError, IndexError) as e:
            self.assumptions.add(f"loop invariant of {self.cur_contract.name if self.cur_contract else '?'} not applicable: {type(e).__name__}: {e}")
            return z3.BoolVal(False)

    def _loop_spec(self, s):
        self.loop_ordinal_map = getattr(self, "loop_ordinal_map", {})
        ordn = self.loop_ordinals.get(id(s))
        spec = None
        if ordn is not None and self.cur_contract is not None and self.frame_depth == 0:
            spec = self.cur_contract.loops.get(ordn)
            if spec is not None:
                self.used_loops.add(ordn)
        return ordn, spec

    def _s_While(self, s, path):
        ordn, spec = self._loop_spec(s)
        if spec is None:
            spec = {}
        if spec.get("unroll"):
            return self._unroll_while(s, path, spec["unroll"])
        return self._cut_loop(s, path, spec, ordn, seq=None)

    def _s_For(self, s, path):
        ordn, spec = self._loop_spec(s)
        try:
            it = self.eval(s.iter, path)
        except RaisedInExpr as r:
            return [(RAISE, r.path, r.exc)]
        seq = self.as_sequence(it, path, s)
        n = sv.simp(seq.n)
        if spec is None and z3.is_int_value(n) and n.as_long() <= 6:
            return self._unroll_for(s, path, seq, n.as_long())
        return self._cut_loop(s, path, spec or {}, ordn, seq=seq)

    def _unroll_for(self, s, path, seq, n):
        outs = []
        live = [path]
        for i in range(n):
            nxt = []
            for p in live:
                self.assign(s.target, seq.at(z3.IntVal(i)), p)
                for kind, p2, val in self.exec_block(s.body, p):
                    if kind in (NEXT, CONT):
                        nxt.append(p2)
                    elif kind == BRK:
                        outs.append((NEXT, p2, None))
                    else:
                        outs.append((kind, p2, val))
            live = nxt
        for p in live:
            outs += self.exec_block(s.orelse, p) if s.orelse else [(NEXT, p, None)]
        return outs

    def _unroll_while(self, s, path, bound):
        outs = []
        live = [path]
        for _ in range(bound + 1):
            nxt = []
            for p in live:
                try:
                    c = sv.simp(self.truthy(self.eval(s.test, p), p))
                except RaisedInExpr as r:
                    outs.append((RAISE, r.path, r.exc))
                    continue
                if not sv.is_true(c):
                    p0 = p.clone()
                    p0.assume(sv.Not(c))
                    if self.feasible(p0):
                        outs += self.exec_block(s.orelse, p0) if s.orelse else [(NEXT, p0, None)]
                if not sv.is_false(c):
                    p1 = p.clone()
                    p1.assume(c)
                    if self.feasible(p1):
                        for kind, p2, val in self.exec_block(s.body, p1):
                            if kind in (NEXT, CONT):
                                nxt.append(p2)
                            elif kind == BRK:
                                outs.append((NEXT, p2, None))
                            else:
                                outs.append((kind, p2, val))
            live = nxt
        for p in live:  # unwinding assertion: complete only if no path is left
            self.oblige(p, "unwind", z3.BoolVal(False), s, note=f"loop needs more than {bound} iterations")
        return outs

    def _cut_loop(self, s, path, spec, ordn, seq):
        """cut the loop at its head with the sidecar invariant"""
        inv = spec.get("invariant")
        dec = spec.get("decreases")
        is_for = seq is not None
        tag = f"L{ordn}"

        outer_ks = list(getattr(self, "loop_ks", []))

        def ctx_of(p, k):
            c = Ctx(self, p, self.cur_args, None, p.env, k)
            c.ks = outer_ks + [k]  # counters of the enclosing loops (outermost first), then this loop's
            c.seq = seq  # the sequence a for-loop iterates (None for while)
            return c

        # 1. invariant on entry (k = 0)
        k0 = z3.IntVal(0)
        if inv is not None:
            self.oblige(path, f"inv-entry:{tag}", self._inv_or_false(inv, ctx_of(path, k0)), s)
        # 2. havoc
        p = path.clone()
        self.havoc_loop_targets(s, p, spec)
        k = z3.Int(sv.uid(f"k.{tag}"))
        p.assume(k >= 0)
        if is_for:
            # the iterated sequence is evaluated once, before the loop
            p.assume(k <= seq.n)
        if inv is not None:
            self.assume_invariant(p, inv, ctx_of, k)
        outs = []
        # 3a. loop continues
        pb = p.clone()
        try:
            if is_for:
                g = k < seq.n
            else:
                g = self.truthy(self.eval(s.test, pb), pb)
        except RaisedInExpr as r:
            outs.append((RAISE, r.path, r.exc))
            g = None
        if g is not None:
            pe = pb.clone() if not is_for else p.clone()
            pb.assume(g)
            if self.feasible(pb):
                for sname, sfn in (spec.get("snapshot") or {}).items():
                    pb.env["$" + sname] = sfn(ctx_of(pb, k))  # ghost local: value at the loop head of this iteration
                v0 = None
                inc = spec.get("increases")
                i0 = inc(ctx_of(pb, k)) if inc is not None else None
                if dec is not None:
                    v0 = dec(ctx_of(pb, k))
                    self.oblige(pb, f"variant-bounded:{tag}", v0 >= 0, s)
                if is_for:
                    self.assign(s.target, seq.at(k), pb)
                self.loop_ks = outer_ks + [k]
                try:
                    body_outs = self.exec_block(s.body, pb)
                finally:
                    self.loop_ks = outer_ks
                for kind, p2, val in body_outs:
                    if kind in (NEXT, CONT):
                        if inv is not None:
                            self.oblige(p2, f"inv-preserved:{tag}", self._inv_or_false(inv, ctx_of(p2, k + 1)), s)
                        if inc is not None:
                            # progress measure: every completed iteration strictly advances it
                            self.oblige(p2, f"progress-increases:{tag}", inc(ctx_of(p2, k + 1)) > i0, s)
                        if dec is not None:
                            self.oblige(p2, f"variant-decreases:{tag}", dec(ctx_of(p2, k + 1)) < v0, s)
                        elif not is_for:
                            self.assumptions.add(f"termination of while-loop #{ordn} of {self.cur_func.qual} not proved (no variant)")
                        self.ended_paths.append(p2)  # path ends at the back edge: keep its obligations
                    elif kind == BRK:
                        if spec.get("at_exit") is not None:
                            self.oblige(p2, f"loop-exit:{tag}", spec["at_exit"](ctx_of(p2, k)), s)
                        outs.append((NEXT, p2, None))
                    else:
                        outs.append((kind, p2, val))
            # 3b. loop exits
            pe.assume(sv.Not(g))
            if self.feasible(pe):
                if spec.get("at_exit") is not None:
                    self.oblige(pe, f"loop-exit:{tag}", spec["at_exit"](ctx_of(pe, k)), s)
                outs += self.exec_block(s.orelse, pe) if s.orelse else [(NEXT, pe, None)]
        return outs

    def assume_invariant(self, p, inv, ctx_of, k):
        """assume the invariant for the havoced state; conjuncts of the form  <havoced local> == term
        are used to *define* the local (substitution) so that later terms line up syntactically"""
        from .expr import _flat_and

        f = inv(ctx_of(p, k))
        for _round in range(3):
            subst = []
            for c in _flat_and(f):
                if z3.is_eq(c):
                    a, b = c.arg(0), c.arg(1)
                    for x, y in ((a, b), (b, a)):
                        if z3.is_const(x) and x.decl().kind() == z3.Z3_OP_UNINTERPRETED and str(x).startswith("hv.") \
                                and not _occurs(x, y):
                            subst.append((x, y))
                            break
            if not subst:
                break
            x, y = subst[0]
            for n, v in list(p.env.items()):
                if isinstance(v, sv._Leaf) and v.e.eq(x):
                    p.env[n] = sv.rebuild(v, y)
            f = inv(ctx_of(p, k))
        p.assume(f)

    def havoc_loop_targets(self, s, p, spec=None):
        names, fields, effect_calls = set(), set(), False
        for node in ast.walk(s):
            if node is s and isinstance(s, ast.For):
                pass
            if isinstance(node, (ast.Assign, ast.AugAssign, ast.AnnAssign, ast.For, ast.NamedExpr, ast.Delete)):
                tg = []
                if isinstance(node, ast.Assign):
                    tg = node.targets
                elif isinstance(node, ast.Delete):
                    tg = node.targets
                else:
                    tg = [node.target]
                for t in tg:
                    self._collect_targets(t, names, fields)
            elif isinstance(node, ast.Call):
                f = node.func
                if isinstance(f, ast.Attribute) and f.attr in MUTATORS:
                    self._collect_targets(f.value, names, fields)
                elif not self.call_is_pure_syntactic(node):
                    effect_calls = True
            elif isinstance(node, ast.ExceptHandler) and node.name:
                names.add(node.name)
        for n in sorted(names):
            a = p.env.get(n)
            if isinstance(a, sv.SPy) and a.what == "alias" and not any(isinstance(x, (ast.Assign, ast.AnnAssign)) and any(isinstance(t, ast.Name) and t.id == n for t in getattr(x, "targets", [getattr(x, "target", None)]))
                                                                       for x in ast.walk(s)):
                names.discard(n)                      # mutated in place through a local alias: the field is what changes
                fields.add(self.alias_field(a.payload.attr))
        ltypes = (spec or {}).get("locals", {})
        ren = getattr(self, "local_rename", {})
        ltypes = {ren.get(k, k): v for k, v in ltypes.items()}
        for n in sorted(names):
            if n in ltypes:
                p.env[n] = sv.mk(ltypes[n], sv.uid(f"hv.{n}"))
                for w in sv.wf(p.env[n]):
                    p.assume(w)
            elif n in p.env:
                p.env[n] = self.havoc_like(p.env[n], n)
        mods = self.cur_modifies(p) if self.cur_contract is not None and self.frame_depth == 0 else None
        # attributes written through interface setters: the fields their contracts modify
        amap = getattr(self.registry, "attr_fields", {})
        fields = set().union(*[set(amap.get(f, [f])) for f in fields]) if fields else fields
        for f in sorted(fields):
            p.heap_havoc(self, None if mods is None else self._mod_ref(mods, f), f, "loop")
        if effect_calls:
            if mods is None:
                raise Unsupported("loop with effectful calls inside an inlined function", s)
            for ref, f in mods:
                if f not in fields:
                    p.heap_havoc(self, ref, f, "loop")

    def _mod_ref(self, mods, f):
        refs = [r for r, ff in mods if ff == f]
        if len(refs) == 1:
            return refs[0]
        return None

    def _collect_targets(self, t, names, fields):
        if isinstance(t, ast.Name):
            names.add(t.id)
        elif isinstance(t, (ast.Tuple, ast.List)):
            for x in t.elts:
                self._collect_targets(x, names, fields)
        elif isinstance(t, ast.Starred):
            self._collect_targets(t.value, names, fields)
        elif isinstance(t, ast.Attribute):
            fields.add(self.alias_field(t.attr))
        elif isinstance(t, ast.Subscript):
            self._collect_targets(t.value, names, fields)

    def alias_field(self, attr):
        """field behind a read-only alias property `def p(self): return self._f` of the class under verification"""
        ci = self.frames[-1].cls if self.frames else None
        if self.cur_contract is not None and self.cur_contract.self_cls and self.frame_depth == 0:
            try:
                ci = self.repo.cls(self.cur_contract.self_cls)
            except KeyError:
                pass
        if ci is None:
            return attr
        fi = self.repo.lookup_method(ci, attr)
        if fi is not None and fi.is_property and self.repo.lookup_setter(ci, attr) is None:
            body = [b for b in fi.node.body if not (isinstance(b, ast.Expr) and isinstance(b.value, ast.Constant))]
            if len(body) == 1 and isinstance(body[0], ast.Return) and isinstance(body[0].value, ast.Attribute) \
                    and isinstance(body[0].value.value, ast.Name) and body[0].value.value.id == "self":
                return body[0].value.attr
        return attr

    def havoc_like(self, v, name):
        """fresh value of the same shape as v"""
        return self._fresh_like(v, sv.uid(f"hv.{name}"))

    def _fresh_like(self, v, nm):
        if isinstance(v, sv.SRef):
            return sv.SRef(z3.Const(nm, sv.IntS), v.cls, False)
        if isinstance(v, sv.SStr):
            return sv.SStr(z3.Const(nm, sv.StrS))
        if isinstance(v, sv._Leaf):
            return sv.rebuild(v, z3.Const(nm, v.e.sort()))
        if isinstance(v, sv.SNone):
            return v
        if isinstance(v, sv.STup):
            return sv.STup([self._fresh_like(x, f"{nm}.{i}") for i, x in enumerate(v.items)])
        if isinstance(v, sv.SUnion):
            n = len(v.alts)
            tag = z3.Const(nm + ".tag", sv.IntS)
            alts = []
            for i, (_g, x) in enumerate(v.alts):
                g = tag == i if i < n - 1 else sv.Not(sv.Or(*[tag == j for j in range(n - 1)]))
                alts.append((g, self._fresh_like(x, f"{nm}.u{i}")))
            return sv.mk_union(alts)
        if isinstance(v, sv.SList):
            proto = v.at(z3.Int(sv.uid("proto")))
            n = z3.Const(nm + ".len", sv.IntS)
            lst = sv.SList(n, lambda i, proto=proto, nm=nm: self._fresh_like_at(proto, nm + ".at", i), v.fresh)
            lst.needs_wf = True
            return lst
        if isinstance(v, sv.SDict):
            raise Unsupported(f"havoc of local dict '{nm}' (give it a declared type via contract.locals)")
        if isinstance(v, sv.SSet):
            ks = getattr(v, "ksort", sv.IntS)
            f = z3.Function(nm + ".in", ks, sv.BoolS)
            s2 = sv.SSet(lambda k, f=f: f(k), None, v.kwrap)
            s2.ksort = ks
            return s2
        if isinstance(v, sv.SPy):
            return v
        raise Unsupported(f"cannot havoc value {v}")

    def _fresh_like_at(self, proto, nm, i):
        if isinstance(proto, sv.SRef):
            return sv.SRef(z3.Function(nm, sv.IntS, sv.IntS)(i), proto.cls, False)
        if isinstance(proto, sv.SStr):
            return sv.SStr(z3.Function(nm, sv.IntS, sv.StrS)(i))
        if isinstance(proto, sv._Leaf):
            return sv.rebuild(proto, z3.Function(nm, sv.IntS, proto.e.sort())(i))
        if isinstance(proto, sv.SNone):
            return proto
        if isinstance(proto, sv.STup):
            return sv.STup([self._fresh_like_at(x, f"{nm}.{j}", i) for j, x in enumerate(proto.items)])
        if isinstance(proto, sv.SUnion):
            n = len(proto.alts)
            tag = z3.Function(nm + ".tag", sv.IntS, sv.IntS)(i)
            alts = []
            for j, (_g, x) in enumerate(proto.alts):
                g = tag == j if j < n - 1 else sv.Not(sv.Or(*[tag == q for q in range(n - 1)]))
                alts.append((g, self._fresh_like_at(x, f"{nm}.u{j}", i)))
            return sv.mk_union(alts)
        raise Unsupported(f"cannot havoc list element {proto}")


def _occurs(x, e):
    stack = [e]
    seen = set()
    while stack:
        t = stack.pop()
        if t.get_id() in seen:
            continue
        seen.add(t.get_id())
        if t.eq(x):
            return True
        if z3.is_app(t):
            stack.extend(t.children())
    return False


class RaisedInExpr(Exception):
    """an explicit exception escaped from a call evaluated inside an expression"""

    def __init__(self, path, exc):
        self.path = path
        self.exc = exc


def _as_load(t):
    import copy

    t2 = copy.copy(t)
    t2.ctx = ast.Load()
    return t2
