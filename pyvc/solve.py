"""Discharging obligations: z3 (python API) first, then cvc5 / z3 4.8 on the SMT-LIB dump."""
import os
import subprocess
import tempfile
import time

import z3

from . import sv
from .path import is_quantified

UNSAT, SAT, UNKNOWN = "unsat", "sat", "unknown"


# Budgets are CPU time of the solving process, not wall-clock time: a verdict must not depend on how busy the machine is (with all
# 20 checks running at once every wall-clock budget shrinks by a factor of 20, and obligations that are discharged in 0.4 s on an idle
# core were reported as not proved).  z3 has no CPU-time limit of its own and its resource counter does not advance in some of its
# loops, so a watchdog thread interrupts the context when the process has used its budget; the wall-clock limit (WALL_FACTOR x the
# budget) is only a safety net.
WALL_FACTOR = 100
STAGES = []      # diagnostics of the obligation being discharged: (stage, answer, reason, CPU seconds, wall seconds)
OVERLOAD = [False]   # an attempt was ended by the wall-clock safety net instead of its CPU budget: the machine is overloaded
SCALE = float(os.environ.get("VERIF_BUDGET_SCALE", "1") or 1)    # < 1 emulates a slower machine (margin test: tools/margin.sh)


def cpu_check(s, budget_ms):
    """s.check() with a CPU-time budget"""
    import threading

    s.set("timeout", int(budget_ms * WALL_FACTOR))
    budget_ms = budget_ms * SCALE
    c0 = time.process_time()
    done = threading.Event()

    def watch():
        while not done.wait(0.02):
            if (time.process_time() - c0) * 1000 > budget_ms:
                s.ctx.interrupt()
                return

    th = threading.Thread(target=watch, daemon=True)
    th.start()
    w0 = time.time()
    r = None
    try:
        r = s.check()
        return r
    finally:
        done.set()
        th.join()
        cpu = time.process_time() - c0
        reason = ""
        if r is not None and r == z3.unknown:
            try:
                reason = s.reason_unknown()
            except Exception:  # pragma: no cover
                reason = "?"
            if cpu * 1000 < 0.5 * budget_ms and "timeout" in reason:
                OVERLOAD[0] = True
        STAGES.append((f"z3-5.1 budget {budget_ms / 1000:.1f}s", str(r), reason, round(cpu, 2), round(time.time() - w0, 2)))


def _check(formulas, timeout_ms, logic=None, rlimit=None, seed=None, mbqi=True):
    s = z3.Solver() if logic is None else z3.SolverFor(logic)
    if rlimit:
        s.set("rlimit", int(rlimit))
    if seed is not None:
        s.set("smt.random_seed", seed)
    if not mbqi:
        s.set("smt.mbqi", False)
    for f in formulas:
        s.add(f)
    r = cpu_check(s, timeout_ms)
    if r == z3.unsat:
        return UNSAT, None, s
    if r == z3.sat:
        return SAT, s.model(), s
    return UNKNOWN, None, s


def ground_int_terms(formulas, limit=60):
    """integer-sorted ground arguments of uninterpreted function applications + integer constants"""
    seen, terms = set(), {}
    stack = list(formulas)
    while stack:
        x = stack.pop()
        if x.get_id() in seen:
            continue
        seen.add(x.get_id())
        if z3.is_quantifier(x):
            continue
        if z3.is_app(x):
            if x.decl().kind() == z3.Z3_OP_UNINTERPRETED and x.num_args() > 0:
                for a in x.children():
                    if a.sort() == sv.IntS and not _has_var(a):
                        terms[str(a)] = a
            stack.extend(x.children())
    out = list(terms.values())
    out.sort(key=lambda t: len(str(t)))
    return out[:limit]


def _has_var(e):
    stack = [e]
    while stack:
        x = stack.pop()
        if z3.is_var(x):
            return True
        if z3.is_app(x):
            stack.extend(x.children())
    return False


def instantiate(formulas, rounds=1, limit=40):
    """finite instantiation of universally quantified hypotheses at ground integer terms
    (sound for refutation: it only weakens the hypotheses)"""
    qf = [f for f in formulas if not is_quantified(f)]
    qs = [f for f in formulas if is_quantified(f)]
    out = list(qf)
    for _ in range(rounds):
        terms = ground_int_terms(out, limit)
        new = []
        for q in qs:
            new += _inst(q, terms)
        out = qf + new
    return [f for f in out if not is_quantified(f)]


def _inst(f, terms):
    if z3.is_quantifier(f) and f.is_forall():
        n = f.num_vars()
        sorts = [f.var_sort(i) for i in range(n)]
        if any(s != sv.IntS for s in sorts) or n > 2:
            return []
        res = []
        import itertools

        for combo in itertools.product(terms[: (40 if n == 1 else 12)], repeat=n):
            body = z3.substitute_vars(f.body(), *reversed(combo))
            res.append(body)
        return res
    if z3.is_app(f):
        k = f.decl().kind()
        if k == z3.Z3_OP_AND:
            res = []
            for c in f.children():
                res += _inst(c, terms) if is_quantified(c) else [c]
            return res
        if k == z3.Z3_OP_IMPLIES and not is_quantified(f.arg(0)):
            return [z3.Implies(f.arg(0), x) for x in _inst(f.arg(1), terms)]
    return []


def _cpu_limit(seconds):
    def f():
        import resource
        resource.setrlimit(resource.RLIMIT_CPU, (int(seconds), int(seconds) + 1))
    return f


def external(smt2, tool, timeout_s):
    """run an external solver on the SMT-LIB dump; the budget is CPU time of the solver process (RLIMIT_CPU), the wall-clock
    limit is only a safety net"""
    with tempfile.NamedTemporaryFile("w", suffix=".smt2", delete=False) as tf:
        tf.write(smt2)
        fn = tf.name
    try:
        cmd = ["/usr/bin/cvc5", fn] if tool == "cvc5" else ["/usr/bin/z3", fn]
        try:
            out = subprocess.run(cmd, capture_output=True, text=True, timeout=timeout_s * WALL_FACTOR + 5,
                                 preexec_fn=_cpu_limit(max(1, timeout_s * SCALE))).stdout.strip()
        except subprocess.TimeoutExpired:
            OVERLOAD[0] = True
            STAGES.append((f"{tool} budget {timeout_s}s cpu", "wall-clock safety net", "", None, None))
            return UNKNOWN
        first = out.splitlines()[0].strip() if out else ""
        STAGES.append((f"{tool} budget {timeout_s}s cpu", first or "no answer", "", None, None))
        if first in (UNSAT, SAT):
            return first
        return UNKNOWN
    finally:
        os.unlink(fn)


def discharge(ob, timeout_s=10, second_solver=False, patient=True):
    """patient=False: the obligation is a recorded known finding (it is expected to fail and is reported as such whatever the portfolio
    says): the expensive last-resort stages, which only exist to keep a provable obligation provable on a loaded machine, are skipped"""
    """sets ob.status / backend / time / model"""
    t0 = time.time()
    del STAGES[:]
    OVERLOAD[0] = False
    if ob.expect_sat:
        # vacuity guard: only a *refuted* precondition (unsat) is a problem; unknown is accepted
        qf = [h for h in ob.hyps if not is_quantified(h)]
        st, model, _ = _check(qf, 1500)
        ob.backend = "z3-5.1(py) on the quantifier-free part"
        if st == SAT and len(qf) < len(ob.hyps):
            st_full, _m, _ = _check(ob.hyps, 1500)
            if st_full == UNSAT:
                st = UNSAT
                ob.backend = "z3-5.1(py)"
        ob.status = st
        ob.model = model
        ob.time = time.time() - t0
        return ob
    if z3.is_true(ob.goal):
        ob.status, ob.backend, ob.time = UNSAT, "simplifier", 0.0
        return ob
    query = ob.hyps + [z3.Not(ob.goal)]
    has_q = any(is_quantified(f) for f in query)
    ob.backend = "z3-5.1(py)"
    st, model, solver = UNKNOWN, None, None
    if has_q:
        # quantifier instantiation is order sensitive (the same query is refuted in 10 ms or not in 10 s):
        # several short attempts with different seeds before a long one
        for seed, mbqi in ((0, True), (1, True), (2, False), (3, True), (4, False)):
            st, model, solver = _check(query, 1200, seed=seed, mbqi=mbqi)
            if st == SAT:
                ob.backend = "z3-5.1(py) (model of the quantified query)"
            if st != UNKNOWN:
                break
    if st == UNKNOWN and has_q:
        # a solver with different heuristics before more time is spent on the same ones (z3 4.8 decides in 0.2 s what z3 5.1
        # does not decide in minutes, and vice versa); only `unsat` is taken from it here
        if external(solver.to_smt2(), "z3-4.8", 5) == UNSAT:
            st, model = UNSAT, None
            ob.backend = "z3-4.8"
    if st == UNKNOWN:
        first = timeout_s * 1000 if not has_q else min(6000, timeout_s * 1000)
        st, model, solver = _check(query, first)
        if st == SAT and has_q:
            ob.backend = "z3-5.1(py) (model of the quantified query)"
    if st == UNKNOWN:
        # quantified hypotheses: finite instantiation (sound for unsat: it only weakens the hypotheses)
        inst = instantiate(query, rounds=2)
        st2, model2, _ = _check(inst, timeout_s * 1000)
        if st2 == UNSAT:
            st, model = UNSAT, None
            ob.backend = "z3-5.1(py)+ground-instantiation"
        else:
            smt2 = solver.to_smt2()
            # generous budgets: these stages are only reached by the few obligations the in-process attempts leave open, and an
            # obligation of the unchanged tree that is decided here must stay decided on a slower machine
            for tool, ext_t in (("cvc5", max(5, timeout_s // 2)), ("z3-4.8", max(20, timeout_s) if patient else 5)):
                r = external(smt2, tool, ext_t)
                if r == UNSAT:
                    st, model = UNSAT, None
                    ob.backend = tool
                    break
                if r == SAT:
                    st, model = SAT, model2
                    ob.backend = tool + " (sat); witness from z3 ground instantiation"
                    break
            else:
                if has_q and patient:
                    # last resort before giving up: the seeded attempts once more with a generous budget
                    # (all configurations of the short attempts again - which of them is the lucky one differs between obligations -
                    # with four times their budget, so that a machine that delivers half the work per CPU second under load, or less,
                    # still reaches the same verdict; then two more seeds)
                    for seed, mbqi in ((0, True), (1, True), (2, False), (3, True), (4, False), (5, True), (7, False)):
                        st, model, _s = _check(query, 5000, seed=seed, mbqi=mbqi)
                        if st == UNSAT:
                            ob.backend = "z3-5.1(py) (long attempt)"
                            break
                        if st == SAT:
                            ob.backend = "z3-5.1(py) (model of the quantified query)"
                            break
                if st == UNKNOWN and has_q and patient and external(smt2, "z3-4.8", 40) == UNSAT:
                    st, model = UNSAT, None
                    ob.backend = "z3-4.8 (long attempt)"
                if st != UNKNOWN:
                    pass
                elif st2 == SAT:
                    st, model = "candidate", model2
                    ob.backend = "not proved by z3-5.1/cvc5/z3-4.8; counter-model of the ground-instantiated query"
                else:
                    st2b, _m, _s = _check(query, timeout_s * 1000)
                    if st2b == UNSAT:
                        st, model = UNSAT, None
                    elif st2b == SAT:
                        st, model = SAT, _m
    if st == UNSAT and second_solver:
        r = external(solver.to_smt2(), "cvc5", timeout_s)
        ob.second = r
    if st == "candidate" and OVERLOAD[0]:
        # an attempt was cut by the wall-clock safety net, i.e. the machine gave this process (almost) no CPU: no verdict
        st = UNKNOWN
        ob.backend = "undecided: attempts were ended by the wall-clock safety net (overloaded machine), not by their CPU budgets"
    ob.status = st
    ob.model = model
    ob.time = time.time() - t0
    ob.stages = list(STAGES) if st != UNSAT else []
    return ob


def witness(ob, ex=None):
    """project the model on the inputs of the function under contract"""
    m = ob.model
    if m is None:
        return None
    out = {}
    for name, v in (ob.inputs or {}).items():
        if name.startswith("$"):
            continue
        try:
            out[name] = sv.show(v, m)
        except Exception as e:  # pragma: no cover
            out[name] = f"<{e}>"
    selfv = (ob.inputs or {}).get("self")
    if selfv is not None and getattr(ob, "entry_heap", None):
        for f, fm in ob.entry_heap.items():
            try:
                out[f"self.{f}"] = sv.show(fm.get(selfv.e), m)
            except Exception as e:  # pragma: no cover
                out[f"self.{f}"] = f"<{e}>"
    return out
