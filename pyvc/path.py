"""Symbolic state of one execution path and proof obligations."""
import z3

from . import sv


class Unsupported(Exception):
    """construct outside the supported subset -> checker problem (exit 3), never a violation"""

    def __init__(self, msg, node=None):
        loc = f" (line {getattr(node, 'lineno', '?')})" if node is not None else ""
        super().__init__(msg + loc)
        self.node = node


class BindingError(Exception):
    """contract does not match the current source -> exit 3"""


class DeadPath(Exception):
    """the current path became infeasible inside an expression"""


class NeedFork(Exception):
    def __init__(self, options):
        self.options = options  # number of options


class Obligation:
    def __init__(self, name, kind, hyps, goal, line=None, func=None, note=""):
        self.name = name
        self.kind = kind
        self.hyps = hyps
        self.goal = goal
        self.line = line
        self.func = func
        self.note = note
        self.inputs = None  # dict name -> SV, for witness extraction
        self.status = None
        self.backend = None
        self.time = 0.0
        self.model = None
        self.expect_sat = False  # cover / canary obligations


FIELD_AXIOMS = {}  # id(FieldMap) -> well-formedness axiom (shared by all paths of a unit)


class FieldMap:
    """heap field as closure ref-expr -> SV"""

    def __init__(self, fn, writes=()):
        self.fn = fn
        self.writes = writes  # tuple of ref exprs written since entry (None = all)

    def get(self, r):
        return self.fn(r)

    def set(self, r, v):
        old = self.fn

        def fn(x, r=r, v=v, old=old):
            if x.eq(r):
                return v
            c = sv.simp(x == r)
            if sv.is_true(c):
                return v
            if sv.is_false(c):
                return old(x)
            return sv.ite(c, v, old(x))

        return FieldMap(fn, self.writes + (r,))


class Path:
    def __init__(self):
        self.pc_ids = set()
        self.pc = []  # z3 Bools (quantifier-free conjuncts and quantified facts, flagged by is_quantifier)
        self.env = {}
        self.heap = {}  # field -> FieldMap
        self.entry_heap = {}
        self.obls = []
        self.memo = []
        self.memo_pos = 0
        self.guards = []
        self.cls_terms = {}  # str(expr) -> expr: refs whose class is tested
        self.notes = []
        self.depth = 0
        self.trace = []  # taken branch line numbers (for path naming / debugging)
        self.heap_epoch = 0
        self.dead = False

    def clone(self):
        p = Path.__new__(Path)
        p.pc = list(self.pc)
        p.pc_ids = set(self.pc_ids)
        p.env = dict(self.env)
        p.heap = dict(self.heap)
        p.entry_heap = self.entry_heap
        p.obls = list(self.obls)
        p.memo = list(self.memo)
        p.memo_pos = self.memo_pos
        p.guards = list(self.guards)
        p.cls_terms = dict(self.cls_terms)
        p.notes = list(self.notes)
        p.depth = self.depth
        p.trace = list(self.trace)
        p.heap_epoch = self.heap_epoch
        p.dead = self.dead
        return p

    def with_heap(self, heap):
        p = self.clone()
        p.heap = dict(heap)
        return p

    # ------------------------------------------------------------------ assumptions
    def assume(self, c):
        if isinstance(c, bool):
            c = z3.BoolVal(c)
        if sv.is_true(c):
            return
        if z3.is_app(c) and c.decl().kind() == z3.Z3_OP_AND:
            # conjuncts are kept separately: the quantifier-free ones take part in path pruning
            for ch in c.children():
                self.assume(ch)
            return
        if self.guards:
            c = sv.Implies(sv.And(*self.guards), c)
        h = c.get_id()
        if h in self.pc_ids:
            return
        self.pc_ids.add(h)
        self.pc.append(c)

    def hyps(self):
        return list(self.pc)

    # ------------------------------------------------------------------ heap
    def heap_get(self, ex, ref, field, heap=None):
        """read a field in the current heap (or in the snapshot `heap`); typing facts of the value
        read are assumed on this path in both cases"""
        h = self.heap if heap is None else heap
        fm = h.get(field)
        if fm is None:
            # not touched (before the snapshot): the initial map
            fm = self.entry_heap.get(field)
            if fm is None:
                fm = ex.initial_field(field)
                self.entry_heap[field] = fm
                self.assume_field_wf(fm, field)
            if field not in self.heap:
                self.heap[field] = fm
        ax = FIELD_AXIOMS.get(id(fm))
        if ax is not None:
            self.assume(ax)
        e = ref.e if isinstance(ref, sv.SV) else ref
        v = fm.get(e)
        try:
            facts = sv.wf(v)
        except z3.Z3Exception:
            facts = []  # read at a bound variable inside a contract quantifier: no typing facts to assume
        for c in facts:
            self.assume(c)
        return v

    def assume_field_wf(self, fm, field):
        """lengths of list-valued fields are non-negative on every object"""
        r = z3.Int("wf!r")
        v = fm.get(r)
        facts = []
        if isinstance(v, sv.SList):
            facts.append(v.n >= 0)
        elif isinstance(v, sv.SDict):
            facts.append(v.keys.n >= 0)
        if facts:
            ax = z3.ForAll([r], sv.And(*facts))
            FIELD_AXIOMS[id(fm)] = ax
            self.assume(ax)

    def heap_set(self, ex, ref, field, v):
        fm = self.heap.get(field)
        if fm is None:
            fm = self.entry_heap.get(field)
            if fm is None:
                fm = ex.initial_field(field)
                self.entry_heap[field] = fm
                self.assume_field_wf(fm, field)
            self.heap[field] = fm
        e = ref.e if isinstance(ref, sv.SV) else ref
        self.heap[field] = fm.set(e, v)
        self.heap_epoch += 1

    def heap_havoc(self, ex, ref, field, tag="hv"):
        """forget field at ref (None = at every object)"""
        ty = ex.field_type(field)
        name = sv.uid(f"{tag}.{field}")
        if ref is None:
            old = self.heap.get(field) or ex.initial_field(field)
            if field not in self.entry_heap:
                self.entry_heap[field] = old
            self.heap[field] = FieldMap(lambda r, ty=ty, name=name: sv.mk(ty, name, (r,)), old.writes + (None,))
            self.assume_field_wf(self.heap[field], field)
        else:
            e = ref.e if isinstance(ref, sv.SV) else ref
            self.heap_set(ex, e, field, sv.mk(ty, name, ()))
        self.heap_epoch += 1


def is_quantified(e):
    """does the formula contain a quantifier"""
    seen = set()
    stack = [e]
    while stack:
        x = stack.pop()
        if x.get_id() in seen:
            continue
        seen.add(x.get_id())
        if z3.is_quantifier(x):
            return True
        if z3.is_app(x):
            stack.extend(x.children())
    return False
