"""Assignment, attribute access, calls (contracts, inlining, interface contracts, library models)."""
import ast

import z3

from . import sv
from .contract import Ctx
from .path import BindingError, DeadPath, NeedFork, Unsupported
from .stmt import BRK, CONT, NEXT, RAISE, RET, Exc, RaisedInExpr, MUTATORS

LOGGER_ATTRS = {"logger"}


class CallMixin:
    # ------------------------------------------------------------------ assignment
    def assign(self, t, v, path, writeback=False):
        """writeback: the new value of a container after an in-place operation (x.append(..), x[k] = ..) is stored where x lives"""
        if isinstance(t, ast.Name):
            cur = path.env.get(t.id)
            if isinstance(cur, sv.SPy) and cur.what == "alias":
                if writeback:
                    # the local names a container that lives in the heap (`cache = self.data`): the operation changes that object
                    self.assign(cur.payload, v, path, writeback=True)
                    return
                # rebinding the local ends the alias
            if t.id not in path.env and getattr(self.registry, "module_state", None):
                # in-place update of a module-level container declared as state
                mod = self.frames[-1].module
                kind, obj = self.repo.resolve_name(mod, t.id)
                f = self.module_state_field(kind, obj)
                if f is not None:
                    path.heap_set(self, sv.WORLD, f, v)
                    self.note_write(path, sv.WORLD, f, t)
                    return
            path.env[t.id] = v
            return
        if isinstance(t, (ast.Tuple, ast.List)):
            items = self.unpack(v, len(t.elts), path, t)
            for x, y in zip(t.elts, items):
                self.assign(x, y, path)
            return
        if isinstance(t, ast.Attribute):
            if not writeback:
                for n, a in path.env.items():
                    if isinstance(a, sv.SPy) and a.what == "alias" and a.payload.attr == t.attr:
                        raise Unsupported(f"attribute '{t.attr}' is rebound while the local '{n}' aliases its container", t)
            base = self.eval(t.value, path)
            self.setattr(base, t.attr, v, path, t)
            return
        if isinstance(t, ast.Subscript):
            cont = self.eval(t.value, path)
            if isinstance(t.slice, ast.Slice):
                r = self.lib_setslice(cont, t.slice, v, path, t)
                if r is None:
                    raise Unsupported("slice assignment", t)
                self.assign(t.value, r, path, writeback=True)
                return
            key = self.eval(t.slice, path)
            if isinstance(cont, sv.SUnion) and any(isinstance(x, sv.SDict) for _g, x in cont.alts):
                cont = self.expect(cont, sv.SDict, path, t)
            if isinstance(cont, sv.SDict):
                self.assign(t.value, self.dict_set(cont, key, v), path, writeback=True)
                return
            if isinstance(cont, sv.SList):
                act = self.norm_index(cont, key, path, t)
                nl = sv.SList(cont.n, lambda i, cont=cont, act=act, v=v: sv.ite(i == act, v, cont.at(i)), cont.fresh)
                self.assign(t.value, nl, path, writeback=True)
                return
            r = self.lib_setitem(cont, key, v, path, t)
            if r is not None:
                self.assign(t.value, r, path, writeback=True)
                return
            raise Unsupported(f"item assignment on {cont}", t)
        raise Unsupported(f"assignment target {t.__class__.__name__}", t)

    def unpack(self, v, n, path, node):
        if isinstance(v, sv.STup):
            if len(v.items) != n:
                self.safe(path, "unpack", z3.BoolVal(False), node)
                raise Unsupported("tuple unpacking arity mismatch", node)
            return list(v.items)
        if isinstance(v, sv.SUnion):
            alts = []
            for g, x in v.alts:
                if isinstance(x, sv.STup) and len(x.items) == n:
                    alts.append((g, x))
                else:
                    # unpacking None / wrong arity raises TypeError/ValueError
                    self.safe(path, "unpack", sv.Not(g), node)
            if not alts:
                raise Unsupported("unpacking: no tuple alternative", node)
            res = []
            for i in range(n):
                r = alts[-1][1].items[i]
                for g, x in reversed(alts[:-1]):
                    r = sv.ite(g, x.items[i], r)
                res.append(r)
            return res
        if isinstance(v, sv.SList):
            self.safe(path, "unpack", v.n == n, node)
            return [v.at(z3.IntVal(i)) for i in range(n)]
        if isinstance(v, sv.SNone):
            self.definite_error(path, "unpack", node, "unpacking None")
        r = self.lib_unpack(v, n, path, node)
        if r is not None:
            return r
        raise Unsupported(f"unpacking of {v}", node)

    # ------------------------------------------------------------------ attributes
    def class_of_ref(self, ref):
        if ref.cls is None:
            return None
        try:
            return self.repo.cls(ref.cls)
        except KeyError:
            return None

    def getattr(self, base, attr, path, node):
        if isinstance(base, sv.SUnion):
            parts = []
            for g, b in base.alts:
                if isinstance(b, sv.SNone):
                    self.safe(path, "none", sv.Not(g), node)
                    continue
                path.guards.append(g)
                try:
                    try:
                        parts.append((g, self.getattr(b, attr, path, node)))
                    except Unsupported:
                        if isinstance(b, (sv.SStr, sv.SInt, sv.SReal, sv.SBool, sv.STime, sv.STup)):
                            path.guards.pop()
                            try:
                                self.safe(path, "attr", sv.Not(g), node)  # AttributeError on this alternative
                            finally:
                                path.guards.append(g)
                        else:
                            raise
                finally:
                    path.guards.pop()
            if not parts:
                raise Unsupported(f"attribute {attr} of None", node)
            if len(parts) > 1 and any(isinstance(p[1], sv.SPy) for p in parts):
                raise Unsupported(f"attribute {attr} on union with callable alternatives", node)
            return sv.mk_union(parts)
        if isinstance(base, sv.SNone):
            self.definite_error(path, "none", node, f"attribute '{attr}' of None")
        if isinstance(base, sv.SPy):
            return self.getattr_py(base, attr, path, node)
        if isinstance(base, sv.SRef):
            return self.getattr_ref(base, attr, path, node)
        r = self.lib_getattr(base, attr, path, node)
        if r is not None:
            return r
        raise Unsupported(f"attribute {attr} of {base}", node)

    def getattr_py(self, base, attr, path, node):
        if base.what == "module":
            kind, obj = self.repo.resolve_name_in_module(base.payload, attr)
            return self.py_value(kind, obj, path)
        if base.what == "ext":
            return sv.SPy("ext", f"{base.payload}.{attr}")
        if base.what == "class":
            ci = base.payload
            hit = self.repo.lookup_const(ci, attr)
            if hit is not None:
                if self.is_enum(ci):
                    return self.enum_member(ci, attr)
                c, cnode = hit
                return self.eval_const_node(c.module, cnode, path)
            fi = self.repo.lookup_method(ci, attr)
            if fi is not None:
                return sv.SPy("func", fi)
            if attr in ("__name__", "__qualname__", "__module__"):
                return sv.const_str(ci.name)
        if base.what == "super":
            ci, ref = base.payload
            for c in ci.mro[1:]:
                if attr in c.methods:
                    fi = c.methods[attr]
                    if fi.is_property:
                        return self.call_function(fi, [ref], {}, path, node, self_ref=ref)
                    return sv.SPy("bound", (fi, ref))
            raise Unsupported(f"super().{attr} not found", node)
        if base.what == "logger":
            return sv.SPy("logger")
        if base.what == "exc":
            return sv.SStr(z3.Const(sv.uid("excattr"), sv.StrS))
        r = self.lib_getattr(base, attr, path, node)
        if r is not None:
            return r
        raise Unsupported(f"attribute {attr} of {base}", node)

    def is_enum(self, ci):
        return any(b in ("Enum", "IntEnum", "enum.Enum") for b in self.repo.ext_bases(ci))

    def enum_member(self, ci, attr):
        names = [n for n in ci.consts]
        return sv.SInt(z3.IntVal(names.index(attr)))

    def getattr_ref(self, ref, attr, path, node):
        if attr in LOGGER_ATTRS:
            return sv.SPy("logger")
        if attr == "__class__":
            return sv.SPy("dynclass", ref)
        ci = self.class_of_ref(ref)
        for h in self.hooks.get("getattr_ref", ()):
            r = h(self, ref, attr, path, node)
            if r is not None:
                return r
        if ci is not None and not ref.exact and ci.name in getattr(self.registry, "closed_classes", ()):
            # classes declared closed (no user subclasses, stated assumption): dispatch is static
            ref = sv.SRef(ref.e, ci.name, True)
        if ref.exact and ci is not None and self.cur_contract is not None and attr in self.cur_contract.virtual and self.frame_depth == 0:
            # template-method hook: the dynamic class of self is some subclass, its override is known by the interface contract only
            ic = self.registry.find_iface([c.name for c in ci.mro], attr)
            if ic is None:
                raise Unsupported(f"virtual method {attr} without interface contract", node)
            if ic.params or ic.note == "method":
                return sv.SPy("ibound", (ic, ref))
            return self.apply_contract(ic, {"self": ref}, path, node)
        if ref.exact and ci is not None:
            fi = self.repo.lookup_method(ci, attr)
            if fi is not None:
                if fi.is_property:
                    return self.call_function(fi, [ref], {}, path, node, self_ref=ref)
                return sv.SPy("bound", (fi, ref))
            hit = self.repo.lookup_const(ci, attr)
            if hit is not None and not self.has_field(attr, ci):
                c, cnode = hit
                return self.eval_const_node(c.module, cnode, path)
            return self.read_field(ref, attr, path, node)
        # interface reference: dynamic class unknown
        names = self.static_names(ref)
        ic = self.registry.find_iface(names, attr)
        if ic is None and ci is not None:
            # a method of a finam class that no finam subclass overrides and that is under contract for this class:
            # the contract is used (user subclasses are assumed not to override it -- listed assumption)
            fi = self.repo.lookup_method(ci, attr)
            if fi is not None and "abstractmethod" not in fi.decorators \
                    and not any(attr in c.methods for c in self.repo.subclasses(ci) if c is not ci):
                c = self.registry.find(fi.qual, [x.name for x in ci.mro])
                if (c is not None and c.self_cls == ci.name) or ci.name in getattr(self.registry, "static_dispatch", ()):
                    self.assumptions.add(f"{ci.name}.{attr} is not overridden by user subclasses (the finam method is used at call sites)")
                    ref2 = sv.SRef(ref.e, ci.name, True)
                    if fi.is_property:
                        return self.call_function(fi, [ref2], {}, path, node, self_ref=ref2)
                    return sv.SPy("bound", (fi, ref2))
        if ic is not None:
            if ic.params or ic.note == "method":
                return sv.SPy("ibound", (ic, ref))
            return self.apply_contract(ic, {"self": ref}, path, node)
        if self.has_field(attr, ci):
            return self.read_field(ref, attr, path, node)
        # attribute of a more specific interface: the object must be an instance of it (else AttributeError)
        cands = [k for k in self.registry.iface if k.endswith("." + attr) and not k.startswith("*.")]
        if len(cands) == 1:
            cname = cands[0].rsplit(".", 1)[0]
            if self.repo.has_cls(cname):
                self.safe(path, "attr", self.isinstance_expr(path, ref, cname), node)
                ic = self.registry.iface[cands[0]]
                if ic.params or ic.note == "method":
                    return sv.SPy("ibound", (ic, ref))
                return self.apply_contract(ic, {"self": ref}, path, node)
        cands = [k for k in cands if self.repo.has_cls(k.rsplit(".", 1)[0])]
        if len(cands) > 1 and all(not (self.registry.iface[k].params or self.registry.iface[k].note == "method") for k in cands):
            # several interfaces declare the attribute: case split on the dynamic class
            guards = [self.isinstance_expr(path, ref, k.rsplit(".", 1)[0]) for k in cands]
            self.safe(path, "attr", sv.Or(*guards), node)
            res = None
            for g, k in reversed(list(zip(guards, cands))):
                path.guards.append(g)
                try:
                    v = self.apply_contract(self.registry.iface[k], {"self": ref}, path, node)
                finally:
                    path.guards.pop()
                res = v if res is None else sv.ite(g, v, res)
            return res
        raise Unsupported(f"attribute '{attr}' of interface reference {ref.cls}: no interface contract, no declared field", node)

    def static_names(self, ref):
        ci = self.class_of_ref(ref)
        if ci is None:
            return [ref.cls] if ref.cls else []
        return [c.name for c in ci.mro]

    def has_field(self, attr, ci=None):
        if ci is not None:
            for c in ci.mro:
                if (c.name, attr) in self.registry.fields:
                    return True
        return attr in self.registry.fields

    def field_key(self, attr, ci=None):
        if ci is not None:
            for c in ci.mro:
                if (c.name, attr) in self.registry.fields:
                    return f"{c.name}.{attr}"
        return attr

    def field_type(self, fkey):
        if fkey in self.cur_field_override:
            return self.cur_field_override[fkey]
        if "." in fkey:
            c, a = fkey.split(".", 1)
            if (c, a) in self.registry.fields:
                return self.registry.fields[(c, a)]
        if fkey in self.registry.fields:
            return self.registry.fields[fkey]
        raise BindingError(f"field '{fkey}' has no declared type in the heap schema")

    def initial_field(self, fkey):
        from .path import FieldMap

        ty = self.field_type(fkey)
        return FieldMap(lambda r, ty=ty, fkey=fkey: sv.mk(ty, f"H.{fkey}", (r,)))

    def read_field(self, ref, attr, path, node):
        fkey = self.field_key(attr, self.class_of_ref(ref))
        try:
            return path.heap_get(self, ref, fkey)
        except BindingError as ex:
            raise Unsupported(str(ex), node)

    def setattr(self, base, attr, v, path, node):
        if isinstance(base, sv.SUnion):
            base = self.expect(base, sv.SRef, path, node, what="none")
        if isinstance(base, (sv.SDict, sv.SList)) and attr in getattr(self.cur_contract, "dropped_attrs", ()):
            # an attribute of a container object that the container model (a plain map / sequence) does not carry, declared by
            # the contract as outside the model (e.g. IOList.frozen): the assignment is dropped and listed in the evidence
            self.dropped += 1
            return
        if not isinstance(base, sv.SRef):
            raise Unsupported(f"attribute assignment on {base}", node)
        ci = self.class_of_ref(base)
        if ci is not None and not base.exact and ci.name in getattr(self.registry, "closed_classes", ()):
            base = sv.SRef(base.e, ci.name, True)
        if base.exact and ci is not None:
            st = self.repo.lookup_setter(ci, attr)
            if st is not None:
                self.call_function(st, [base, v], {}, path, node, self_ref=base)
                return
            fi = self.repo.lookup_method(ci, attr)
            if fi is not None and fi.is_property:
                # in-place mutation of a container reached through a read-only alias property
                # (`def p(self): return self._f`): the write goes to the aliased field
                body = [b for b in fi.node.body if not (isinstance(b, ast.Expr) and isinstance(b.value, ast.Constant))]
                if len(body) == 1 and isinstance(body[0], ast.Return) and isinstance(body[0].value, ast.Attribute) \
                        and isinstance(body[0].value.value, ast.Name) and body[0].value.value.id == "self" \
                        and isinstance(v, (sv.SDict, sv.SList, sv.SSet)):
                    self.setattr(base, body[0].value.attr, v, path, node)
                    return
                raise Unsupported(f"assignment to read-only property {attr}", node)
        else:
            ic = self.registry.find_iface(self.static_names(base), attr + ".setter")
            if ic is not None:
                self.apply_contract(ic, {"self": base, "value": v}, path, node)
                return
        fkey = self.field_key(attr, ci)
        try:
            self.field_type(fkey)
        except BindingError as ex:
            raise Unsupported(str(ex), node)
        path.heap_set(self, base, fkey, v)
        self.note_write(path, base, fkey, node)

    def note_write(self, path, ref, fkey, node):
        """frame check: every write must be covered by the unit's modifies clause"""
        if self.cur_contract is None or self.cur_contract.modifies is None:
            return
        mods = self.cur_modifies(path)
        e = ref.e if isinstance(ref, sv.SV) else ref
        allowed = []
        for r, f in mods:
            if f == fkey:
                if r is None:
                    return
                allowed.append(e == (r.e if isinstance(r, sv.SV) else r))
        self.oblige(path, f"frame:{fkey}", sv.Or(*allowed), node, assume=False)

    def cur_modifies(self, path):
        c = self.cur_contract
        if c is None or c.modifies is None:
            return []
        ctx = Ctx(self, path, self.cur_args).old
        return [m for m in c.modifies(ctx) if not (isinstance(m[0], str) and m[0] == "arg")]

    # ------------------------------------------------------------------ calls
    def _e_Call(self, e, path):
        f = e.func
        # container mutators need the lvalue for write-back
        if isinstance(f, ast.Attribute):
            if isinstance(f.value, ast.Attribute) and f.value.attr in LOGGER_ATTRS or (
                isinstance(f.value, ast.Name) and f.value.id in ("logger", "logging")
            ):
                self.dropped += 1
                for a in e.args:
                    if not self.is_pure_expr(a):
                        raise Unsupported("logger argument with side effects", e)
                return sv.NONE
            base = self.eval(f.value, path)
            if isinstance(base, sv.SUnion) and any(isinstance(x, (sv.SList, sv.SDict, sv.SSet)) for _g, x in base.alts) \
                    and all(isinstance(x, (sv.SList, sv.SDict, sv.SSet, sv.SNone)) for _g, x in base.alts):
                base = self.expect(base, (sv.SList, sv.SDict, sv.SSet), path, e, what="none")
            if isinstance(base, (sv.SList, sv.SDict, sv.SSet)):
                args = [self.eval(a, path) for a in e.args]
                kwargs = {k.arg: self.eval(k.value, path) for k in e.keywords}
                return self.container_method(base, f.attr, args, kwargs, f.value, path, e)
            if isinstance(base, sv.SPy) and base.what == "logger":
                self.dropped += 1
                return sv.NONE
            fn = self.getattr(base, f.attr, path, f)
        else:
            fn = self.eval(f, path)
        args = []
        for a in e.args:
            if isinstance(a, ast.Starred):
                v = self.eval(a.value, path)
                if isinstance(v, sv.STup):
                    args.extend(v.items)
                elif isinstance(v, sv.SList) and getattr(v, "items", None) is not None:
                    args.extend(v.items)
                else:
                    raise Unsupported("star-argument of unknown length", e)
            else:
                args.append(self.eval(a, path))
        kwargs = {}
        for k in e.keywords:
            if k.arg is None:
                v = self.eval(k.value, path)
                r = self.lib_kwargs(v, path, e)
                if r is None:
                    raise Unsupported("**kwargs call", e)
                kwargs.update(r)
            else:
                kwargs[k.arg] = self.eval(k.value, path)
        return self.call_value(fn, args, kwargs, path, e)

    def call_value(self, fn, args, kwargs, path, node):
        if isinstance(fn, sv.SUnion):
            # calling None raises TypeError: the None alternative becomes a safety obligation
            keep = [(g, x) for g, x in fn.alts if not isinstance(x, sv.SNone)]
            for g, x in fn.alts:
                if isinstance(x, sv.SNone):
                    self.safe(path, "none", sv.Not(g), node)
            if len(keep) == 1:
                fn = keep[0][1]
        if isinstance(fn, sv.SPy):
            w = fn.what
            if w == "builtin":
                return self.call_builtin(fn.payload, args, kwargs, path, node)
            if w == "seq":
                raise Unsupported("call of a sequence", node)
            if w == "ext":
                return self.call_ext(fn.payload, args, kwargs, path, node)
            if w == "func":
                return self.call_function(fn.payload, args, kwargs, path, node)
            if w == "bound":
                fi, ref = fn.payload
                return self.call_function(fi, [ref] + args, kwargs, path, node, self_ref=ref)
            if w == "ibound":
                ic, ref = fn.payload
                argmap = self.bind_names(["self"] + list(ic.params), [ref] + args, kwargs, node, ic.target, defaults=ic.defaults)
                return self.apply_contract(ic, argmap, path, node)
            if w == "class":
                return self.construct(fn.payload, args, kwargs, path, node)
            if w == "lambda":
                lam, env, frame = fn.payload
                saved = path.env
                path.env = dict(env)
                self.frames.append(frame)
                try:
                    names = [a.arg for a in lam.args.args]
                    for n, v in zip(names, args):
                        path.env[n] = v
                    return self.eval(lam.body, path)
                finally:
                    self.frames.pop()
                    path.env = saved
            if w == "closure":
                fnode, env, frame = fn.payload
                names = [a.arg for a in fnode.args.args]
                p = path.clone()
                p.env = dict(env)
                p.env.update(dict(zip(names, args)))
                self.frames.append(frame)
                self.frame_depth += 1
                try:
                    outs = [o for o in self.exec_block(fnode.body, p) if not o[1].dead]
                finally:
                    self.frames.pop()
                    self.frame_depth -= 1
                if not outs:
                    raise DeadPath()
                k = self.choose_n(path, len(outs)) if len(outs) > 1 else 0
                kind, p2, val = outs[k]
                env0, guards, memo, pos = path.env, path.guards, path.memo, path.memo_pos
                path.__dict__.update(p2.__dict__)
                path.env, path.guards, path.memo, path.memo_pos = env0, guards, memo, pos
                if kind == RAISE:
                    raise RaisedInExpr(path, val)
                return val if kind == RET else sv.NONE
            if w == "logger":
                self.dropped += 1
                return sv.NONE
            if w == "libfn":
                return fn.payload(self, path, args, kwargs, node)
        r = self.lib_call_value(fn, args, kwargs, path, node)
        if r is not None:
            return r
        raise Unsupported(f"call of {fn}", node)

    def bind_names(self, names, args, kwargs, node, what, defaults=None):
        if len(args) > len(names):
            raise Unsupported(f"too many arguments for {what}", node)
        m = dict(zip(names, args))
        for k, v in kwargs.items():
            if k not in names:
                raise Unsupported(f"unexpected keyword {k} for {what}", node)
            m[k] = v
        for n in names:
            if n not in m:
                if defaults and n in defaults:
                    m[n] = defaults[n]
                else:
                    raise Unsupported(f"missing argument {n} for {what}", node)
        return m

    def bind_params(self, fi, args, kwargs, path, node):
        a = fi.node.args
        if a.vararg or a.kwonlyargs:
            raise Unsupported(f"*args / keyword-only parameters of {fi.qual}", node)
        names = [x.arg for x in a.posonlyargs + a.args]
        defaults = {}
        for n, d in zip(reversed(names), reversed(a.defaults)):
            defaults[n] = d
        m = dict(zip(names, args))
        if len(args) > len(names):
            raise Unsupported(f"too many arguments for {fi.qual}", node)
        extra = {}
        for k, v in kwargs.items():
            if k in names:
                m[k] = v
            elif a.kwarg or k == "$kwargs":
                extra[k] = v
            else:
                raise Unsupported(f"unexpected keyword {k} for {fi.qual}", node)
        for n in names:
            if n not in m:
                if n in defaults:
                    m[n] = self.eval_const_node(fi.module, defaults[n], path)
                else:
                    raise Unsupported(f"missing argument {n} for {fi.qual}", node)
        if a.kwarg:
            m[a.kwarg.arg] = sv.SPy("kwargs", extra)
        return m

    def call_function(self, fi, args, kwargs, path, node, self_ref=None):
        """call of a function of the real source: contract if there is one, else inline"""
        mro_names = []
        if self_ref is not None:
            ci = self.class_of_ref(self_ref)
            if ci is not None:
                mro_names = [c.name for c in ci.mro]
        c = self.registry.find(fi.qual + (".setter" if fi.is_setter else ""), mro_names)
        argmap = self.bind_params(fi, args, kwargs, path, node)
        if c is not None and self.cur_contract is not None and fi.qual in self.cur_contract.inline_calls:
            c = None
        if c is not None and not c.inline and not (self.cur_contract is c and not self.recursion_ok(c)):
            self.called_contracts.add(c.target)
            return self.apply_contract(c, argmap, path, node)
        return self.inline_call(fi, argmap, path, node)

    def recursion_ok(self, c):
        return True

    def inline_call(self, fi, argmap, path, node):
        from .core import Frame

        if self.frame_depth > 12:
            raise Unsupported(f"inlining too deep at {fi.qual} (recursive function without contract?)", node)
        if any(fr.func is fi for fr in self.frames):
            raise Unsupported(f"recursive call of {fi.qual} needs a contract", node)
        self.inlined.add(fi.qual)
        p = path.clone()
        p.env = dict(argmap)
        # expression-level guards stay active inside the inlined body: every assumption and
        # obligation made there is conditional on the guard
        self.frames.append(Frame(fi.module, fi, fi.cls))
        self.frame_depth += 1
        saved_line = self.cur_line
        try:
            outs = self.exec_block(fi.node.body, p)
        finally:
            self.frames.pop()
            self.frame_depth -= 1
            self.cur_line = saved_line
        outs = [o for o in outs if not o[1].dead]
        if not outs:
            raise DeadPath()
        k = self.choose_n(path, len(outs)) if len(outs) > 1 else 0
        kind, p2, val = outs[k]
        env, guards, memo, pos = path.env, path.guards, path.memo, path.memo_pos
        path.__dict__.update(p2.__dict__)
        path.env, path.guards, path.memo, path.memo_pos = env, guards, memo, pos
        if kind == RAISE:
            raise RaisedInExpr(path, val)
        if kind == RET:
            return val
        if kind == NEXT:
            return sv.NONE
        raise Unsupported(f"break/continue escaping {fi.qual}", node)

    def closure_outcomes(self, fn, args, path):
        """all outcomes of calling a closure value (for contracts that specify a returned function):
        list of (kind, path condition added by the call, value); obligations raised inside are kept on `path`"""
        if not (isinstance(fn, sv.SPy) and fn.what == "closure"):
            raise Unsupported(f"closure_outcomes on {fn}")
        fnode, env, frame = fn.payload
        names = [a.arg for a in fnode.args.args]
        p = path.clone()
        p.env = dict(env)
        p.env.update(dict(zip(names, args)))
        p.memo, p.memo_pos = [], 0
        self.frames.append(frame)
        self.frame_depth += 1
        try:
            outs = [o for o in self.exec_block(fnode.body, p) if not o[1].dead]
        finally:
            self.frames.pop()
            self.frame_depth -= 1
        res = []
        n0, o0 = len(path.pc), len(path.obls)
        for kind, p2, val in outs:
            for ob in p2.obls[o0:]:
                if ob not in path.obls:
                    path.obls.append(ob)
            res.append((kind, sv.And(*p2.pc[n0:]), val))
        return res

    def choose_n(self, path, n):
        if path.memo_pos < len(path.memo):
            k = path.memo[path.memo_pos]
            path.memo_pos += 1
            return k
        raise NeedFork(n)

    # ------------------------------------------------------------------ contracts at call sites
    def apply_contract(self, c, argmap, path, node):
        for name, ty in c.params.items():
            if name not in argmap:
                raise BindingError(f"contract {c.target}: parameter {name} not bound")
        # arguments must have the kind the contract declares: a union argument (e.g. "time or None") is
        # narrowed, the excluded alternatives become safety obligations (TypeError in the callee otherwise)
        kinds = {sv.TTime: sv.STime, sv.TInt: sv.SInt, sv.TReal: sv.SReal, sv.TPay: sv.SPay, sv.TRef: sv.SRef,
                 sv.TBool: sv.SBool, sv.TStr: sv.SStr, sv.TDelta: sv.SDelta, sv.TDict: sv.SDict, sv.TList: sv.SList,
                 sv.TSet: sv.SSet, sv.TObj: sv.SObj}
        argmap = dict(argmap)
        for name, ty in c.params.items():
            k = kinds.get(type(ty))
            if k is not None and isinstance(argmap.get(name), sv.SUnion):
                argmap[name] = self.expect(argmap[name], k, path, node, what="argtype")
        ctx_pre = Ctx(self, path, argmap)
        if self.cur_contract is not None and self.frame_depth == 0 and c.name in self.cur_contract.call_checks:
            cc = Ctx(self, path, self.cur_args, None, path.env)
            self.oblige(path, f"call-site:{c.name}", self.cur_contract.call_checks[c.name](cc, argmap), node)
        if c.requires is not None:
            self.oblige(path, f"pre:{c.name}", c.requires(ctx_pre), node)
        old_heap = dict(path.heap)
        options = ["normal"] + sorted(c.raises.keys())
        k = self.choose_n(path, len(options)) if len(options) > 1 else 0
        mods = c.modifies(ctx_pre) if (c.modifies is not None and not c.pure) else []
        post_args = dict(argmap)

        def havoc():
            for r, f in mods:
                if isinstance(r, str) and r == "arg":
                    ty = c.params.get(f)
                    if isinstance(ty, sv.TOpt):
                        ty = ty.t
                    if isinstance(ty, sv.Ty):
                        post_args[f] = sv.mk(ty, sv.uid(f"call.{f}"))
                        for w in sv.wf(post_args[f]):
                            path.assume(w)
                    else:
                        post_args[f] = self.havoc_like(argmap[f], f)
                else:
                    path.heap_havoc(self, r, f, "call")
                    if r is not None:
                        self.note_write(path, r, f, node)
                    elif self.cur_contract is not None and self.cur_contract.modifies is not None:
                        self.note_write_all(path, f, node)

        if k == 0:
            for _exc, cond in sorted(c.must_raise.items()):
                path.assume(sv.Not(cond(ctx_pre)))
            havoc()
            ctx_post = Ctx(self, path, post_args, old_heap)
            ctx_post.pre_args = argmap
            if c.result_fn is not None:
                result = c.result_fn(ctx_post)
            elif c.result is not None:
                result = sv.mk(c.result, sv.uid(f"res.{c.name}"))
                for w in sv.wf(result):
                    path.assume(w)
            else:
                result = sv.NONE
            if c.ensures is not None:
                ens = c.ensures(ctx_post, result)
                if isinstance(ens, dict):
                    ens = sv.And(*ens.values())
                path.assume(ens)
            for name in post_args:
                if post_args[name] is not argmap[name]:
                    self.writeback_arg(c, name, post_args[name], path, node)
            if not self.feasible(path):
                raise DeadPath()
            return result
        exc = options[k]
        if not c.raise_frame_empty:
            havoc()
        ctx_r = Ctx(self, path, argmap, old_heap)
        path.assume(c.raises[exc](ctx_r))
        if not self.feasible(path):
            raise DeadPath()
        raise RaisedInExpr(path, self.make_exc(exc, node))

    def note_write_all(self, path, f, node):
        mods = self.cur_modifies(path)
        ok = any(r is None and ff == f for r, ff in mods)
        self.oblige(path, f"frame:{f}", z3.BoolVal(ok), node, assume=False)

    def writeback_arg(self, c, name, val, path, node):
        """by-reference container argument modified by the callee"""
        call = node
        names = ["self"] + list(c.params) if c.is_iface else None
        fi = None if c.is_iface else self.repo.func(c.target)
        pnames = names or fi.params
        bound_self = isinstance(call.func, ast.Attribute) and pnames and pnames[0] == "self"
        idx = pnames.index(name) - (1 if bound_self else 0)
        target = None
        if 0 <= idx < len(call.args):
            target = call.args[idx]
        else:
            for kw in call.keywords:
                if kw.arg == name:
                    target = kw.value
        if target is None:
            return
        if isinstance(target, (ast.Name, ast.Attribute, ast.Subscript)):
            self.assign(target, val, path)

    def make_exc(self, name, node=None, implicit=False):
        names = [name]
        if self.repo.has_cls(name):
            ci = self.repo.cls(name)
            names = [c.name for c in ci.mro] + sorted(self.repo.ext_bases(ci))
        names.append("Exception")
        return Exc(name, names, node, implicit)

    def eval_exception(self, e, path, node):
        if e is None:
            raise Unsupported("bare raise", node)
        if isinstance(e, ast.Call):
            for a in e.args:
                self.eval(a, path)  # message construction may itself raise (implicit exceptions)
            nm = ast.unparse(e.func).split(".")[-1]
            fnv = None
            if isinstance(e.func, ast.Name) and e.func.id in path.env:
                fnv = path.env[e.func.id]
            if fnv is None:
                mod = self.frames[-1].module
                kind, obj = self.repo.resolve_name(mod, ast.unparse(e.func))
                if kind == "func":
                    # helper returning an exception object (e.g. _dead_link_error)
                    v = self.eval(e, path)
                    if isinstance(v, sv.SPy) and v.what == "exc":
                        return v.payload
                    raise Unsupported("raise of a computed value", node)
            return self.make_exc(nm, node)
        v = self.eval(e, path)
        if isinstance(v, sv.SPy) and v.what == "exc":
            return v.payload
        if isinstance(v, sv.SPy) and v.what == "class":
            return self.make_exc(v.payload.name, node)
        raise Unsupported("raise of a computed value", node)

    def construct(self, ci, args, kwargs, path, node):
        names = [c.name for c in ci.mro] + sorted(self.repo.ext_bases(ci))
        if any(n in ("Exception", "ValueError", "FinamError") or n.endswith("Error") for n in names):
            return sv.SPy("exc", self.make_exc(ci.name, node))
        r = self.lib_construct(ci, args, kwargs, path, node)
        if r is not None:
            return r
        raise Unsupported(f"construction of {ci.qual}", node)

    # ------------------------------------------------------------------ container methods
    def container_method(self, base, attr, args, kwargs, lvalue, path, node):
        if isinstance(base, sv.SList):
            if attr == "append":
                x = args[0]
                n = base.n
                nl = sv.SList(sv.simp(n + 1), lambda i, base=base, n=n, x=x: sv.ite(i == n, x, base.at(i)), base.fresh)
                self.assign(lvalue, nl, path, writeback=True)
                return sv.NONE
            if attr == "pop":
                if args:
                    i0 = sv.simp(args[0].e)
                    if not (z3.is_int_value(i0) and i0.as_long() in (0, -1)):
                        raise Unsupported("list.pop(i) for i other than 0 / -1", node)
                    first = i0.as_long() == 0
                else:
                    first = False
                self.safe(path, "index", base.n > 0, node)
                if first:
                    nl = sv.SList(sv.simp(base.n - 1), lambda i, base=base: base.at(i + 1), base.fresh)
                    r = base.at(z3.IntVal(0))
                else:
                    nl = sv.SList(sv.simp(base.n - 1), base.at, base.fresh)
                    r = base.at(sv.simp(base.n - 1))
                self.assign(lvalue, nl, path, writeback=True)
                return r
            if attr == "clear":
                self.assign(lvalue, sv.SList(z3.IntVal(0), lambda i: sv.NONE, base.fresh), path, writeback=True)
                return sv.NONE
            if attr == "copy":
                return sv.SList(base.n, base.at, True)
            if attr == "sort":
                return self.lib_list_sort(base, kwargs, lvalue, path, node)
            if attr == "index":
                x = args[0]
                j = z3.Int(sv.uid("idx"))
                q = z3.Int(sv.uid("q"))
                self.safe(path, "value", self.contains(base, x, path, node), node)
                path.assume(sv.And(0 <= j, j < base.n, sv.value_eq(base.at(j), x)))
                path.assume(z3.ForAll([q], sv.Implies(sv.And(0 <= q, q < j), sv.Not(sv.value_eq(base.at(q), x)))))
                return sv.SInt(j)
            if attr == "extend":
                o = args[0]
                if isinstance(o, sv.SList):
                    n = base.n
                    nl = sv.SList(sv.simp(n + o.n), lambda i, base=base, n=n, o=o: sv.ite(i < n, base.at(i), o.at(i - n)), base.fresh)
                    self.assign(lvalue, nl, path, writeback=True)
                    return sv.NONE
        if isinstance(base, sv.SDict):
            if attr == "items":
                return sv.SPy("seq", _seq(base.keys.n, lambda i, base=base: sv.STup([base.keys.at(i), base.val(self.key_expr(base.keys.at(i)))])))
            if attr == "values":
                sq = _seq(base.keys.n, lambda i, base=base: base.val(self.key_expr(base.keys.at(i))))
                sq.dict_src = base  # lets min/any/all state their facts per key as well as per position
                return sv.SPy("seq", sq)
            if attr == "keys":
                return sv.SPy("seq", _seq(base.keys.n, base.keys.at))
            if attr == "get":
                key = args[0]
                dflt = args[1] if len(args) > 1 else sv.NONE
                return sv.ite(self.key_guarded(key, base.dom), self.dict_get(base, key), dflt)
            if attr == "clear":
                self.assign(lvalue, self.empty_dict(), path, writeback=True)
                return sv.NONE
            if attr == "copy":
                return base
            if attr == "update":
                other = args[0] if args else None
                if other is None and not kwargs:
                    return sv.NONE
                if isinstance(other, sv.SPy) and other.what == "kwargs":
                    d = base
                    for k, v in other.payload.items():
                        d = self.dict_set(d, self.const(k), v)
                    self.assign(lvalue, d, path, writeback=True)
                    return sv.NONE
                if isinstance(other, sv.SDict):
                    self.assign(lvalue, self.dict_merge(base, other, path), path, writeback=True)
                    return sv.NONE
            if attr == "pop":
                key = args[0]
                has = self.key_guarded(key, base.dom)
                if len(args) == 1:
                    self.safe(path, "key", has, node)
                    r = self.dict_get(base, key)
                    self.assign(lvalue, self.dict_del(base, key), path, writeback=True)
                    return r
                k = self.choose(path, [has, sv.Not(has)])
                if k == 1:
                    return args[1]
                r = self.dict_get(base, key)
                self.assign(lvalue, self.dict_del(base, key), path, writeback=True)
                return r
        if isinstance(base, sv.SSet):
            if attr == "add":
                self.assign(lvalue, self.set_add(base, args[0]), path, writeback=True)
                return sv.NONE
            if attr == "clear":
                self.assign(lvalue, self.empty_set(), path, writeback=True)
                return sv.NONE
            if attr == "pop":
                ks = getattr(base, "ksort", sv.IntS)
                w = z3.Const(sv.uid("popped"), ks)
                self.safe(path, "key", self.truthy(base, path), node)
                path.assume(base.dom(w))
                card = None if base.card is None else base.card - 1
                ns = sv.SSet(lambda k, base=base, w=w: sv.And(k != w, base.dom(k)), card, base.kwrap)
                ns.ksort = ks
                self.assign(lvalue, ns, path, writeback=True)
                return base.kwrap(w)
        r = self.lib_container_method(base, attr, args, kwargs, lvalue, path, node)
        if r is not None:
            return r
        raise Unsupported(f"method {attr} of {base.kind}", node)

    # ------------------------------------------------------------------ syntactic purity of calls
    def call_is_pure_syntactic(self, node):
        f = node.func
        if isinstance(f, ast.Name):
            if f.id in PURE_BUILTINS:
                return True
            if f.id.endswith("Error") or f.id.endswith("Exception"):
                return True  # constructing an exception object has no effect on the program state
            return False
        if isinstance(f, ast.Attribute):
            if f.attr in PURE_METHODS:
                return True
            if isinstance(f.value, ast.Attribute) and f.value.attr in LOGGER_ATTRS:
                return True
            if isinstance(f.value, ast.Name) and f.value.id in ("logger", "logging"):
                return True
            d = ast.unparse(f)
            if d in self.pure_ext:
                return True
        return False


PURE_BUILTINS = {"len", "isinstance", "min", "max", "any", "all", "enumerate", "range", "reversed", "zip", "bool",
                 "abs", "id", "str", "int", "float", "tuple", "list", "set", "dict", "sorted", "map", "type", "repr",
                 "issubclass", "hasattr", "sum", "round"}
PURE_METHODS = {"items", "values", "keys", "get", "total_seconds", "copy", "index", "join", "format", "startswith",
                "endswith", "is_sub_mask"}


class _seq:
    def __init__(self, n, at):
        self.n = n
        self.at = at
