"""The executor: verifies one function of the real source against its sidecar contract."""
import ast
import os
import time

import z3

from . import sv
from .calls import CallMixin
from .contract import Ctx
from .expr import ExprMixin
from .lib import LibMixin
from .path import BindingError, Obligation, Path, Unsupported, is_quantified
from .stmt import NEXT, RAISE, RET, StmtMixin


def _flatten_and(e):
    if z3.is_app(e) and e.decl().kind() == z3.Z3_OP_AND:
        out = []
        for c in e.children():
            out += _flatten_and(c)
        return out
    return [e]


class Frame:
    def __init__(self, module, func, cls):
        self.module = module
        self.func = func
        self.cls = cls


def local_binding_order(fnode):
    """names of the locals of a function in the order in which they are first bound (parameters excluded)"""
    params = {a.arg for a in fnode.args.args + fnode.args.kwonlyargs + fnode.args.posonlyargs}
    if fnode.args.vararg:
        params.add(fnode.args.vararg.arg)
    if fnode.args.kwarg:
        params.add(fnode.args.kwarg.arg)
    found = []
    sig = [None]

    def shape(node):
        """the bound expression with the names of variables blanked out"""
        if node is None:
            return "?"
        n2 = ast.parse(ast.unparse(node), mode="eval").body
        for x in ast.walk(n2):
            if isinstance(x, ast.Name):
                x.id = "_"
        return ast.dump(n2)

    def targets(t):
        if isinstance(t, ast.Name):
            found.append((t.lineno, t.col_offset, t.id, sig[0]))
        elif isinstance(t, (ast.Tuple, ast.List)):
            for x in t.elts:
                targets(x)
        elif isinstance(t, ast.Starred):
            targets(t.value)

    def walk(node, top):
        for ch in ast.iter_child_nodes(node):
            if isinstance(ch, (ast.FunctionDef, ast.AsyncFunctionDef, ast.Lambda, ast.ClassDef, ast.ListComp, ast.DictComp, ast.SetComp, ast.GeneratorExp)):
                continue      # own scopes
            if isinstance(ch, ast.Assign):
                sig[0] = "=" + shape(ch.value)
                for t in ch.targets:
                    targets(t)
            elif isinstance(ch, (ast.AugAssign, ast.AnnAssign, ast.NamedExpr)):
                sig[0] = "=" + shape(ch.value)
                targets(ch.target)
            elif isinstance(ch, ast.For):
                sig[0] = "for " + shape(ch.iter)
                targets(ch.target)
            elif isinstance(ch, ast.withitem) and ch.optional_vars is not None:
                sig[0] = "with " + shape(ch.context_expr)
                targets(ch.optional_vars)
            elif isinstance(ch, ast.ExceptHandler) and ch.name:
                found.append((ch.lineno, ch.col_offset, ch.name, "except"))
            walk(ch, False)

    walk(fnode, True)
    order, sigs = [], {}
    for _l, _c, n, sg in sorted(found):
        if n not in params and n not in order:
            order.append(n)
            sigs[n] = sg
    return [[n, sigs[n]] for n in order]


class Executor(StmtMixin, ExprMixin, CallMixin, LibMixin):
    def __init__(self, repo, registry):
        self.repo = repo
        self.registry = registry
        self.ext_models = {}
        self.hooks = {}
        self.pure_ext = set()
        self.reset_unit()
        self._class_ids = {}
        self.max_paths = 400

    def reset_unit(self):
        self.frames = []
        self.frame_depth = 0
        self.cur_contract = None
        self.cur_func = None
        self.cur_args = {}
        self.cur_field_override = {}
        self.cur_line = None
        self.obligations = []
        self.dropped = 0
        self.silent = 0
        self.str_consts = set()
        self.assumptions = set()
        self.inlined = set()
        self.called_contracts = set()
        self.used_loops = set()
        self.loop_ordinals = {}
        self.comp_ordinals = {}
        self.cls_preds = set()
        self.paths_explored = 0
        self.ended_paths = []
        self.feas_calls = 0

    # ------------------------------------------------------------------ classes
    def class_id(self, name):
        ci = self.repo.cls(name)
        if ci.qual not in self._class_ids:
            self._class_ids[ci.qual] = 1000 + sorted(self.repo.classes).index(ci.qual)
        return self._class_ids[ci.qual]

    def clsof(self, e):
        return z3.Function("clsof", sv.IntS, sv.IntS)(e)

    def isa(self, cname, k):
        return z3.Function(f"isa_{cname}", sv.IntS, sv.BoolS)(k)

    def isinstance_expr(self, path, ref, cname):
        e = ref.e if isinstance(ref, sv.SV) else ref
        ci = self.repo.cls(cname)
        if isinstance(ref, sv.SRef) and ref.exact and ref.cls:
            return z3.BoolVal(ci in self.repo.cls(ref.cls).mro)
        if isinstance(ref, sv.SRef) and ref.cls and self.repo.has_cls(ref.cls) and ci in self.repo.cls(ref.cls).mro:
            return z3.BoolVal(True)
        self.cls_preds.add(ci.name)
        path.cls_terms[str(e)] = e
        return self.isa(ci.name, self.clsof(e))

    def class_axioms(self, path):
        """ground instances of the class hierarchy for every tested reference"""
        out = []
        preds = sorted(self.cls_preds)
        infos = {p: self.repo.cls(p) for p in preds}
        groups = [("IInput", "IOutput"), ("IComponent",), ("Info",), ("GridBase",), ("Composition",)]
        roots = {}
        for p in preds:
            for gi, g in enumerate(groups):
                if any(self.repo.has_cls(b) and self.repo.cls(b) in infos[p].mro for b in g):
                    roots.setdefault(p, set()).add(gi)
        for e in path.cls_terms.values():
            k = self.clsof(e)
            for d in preds:
                for c in preds:
                    if d != c and infos[c] in infos[d].mro:
                        out.append(sv.Implies(self.isa(d, k), self.isa(c, k)))
                    # assumption (listed): slots, components, Info objects and grids are disjoint families
                    if d < c and roots.get(d) and roots.get(c) and not (roots[d] & roots[c]):
                        out.append(sv.Not(sv.And(self.isa(d, k), self.isa(c, k))))
        return out

    # ------------------------------------------------------------------ obligations
    def emit(self, path, kind, goal, node, note=""):
        if self.silent:
            return
        line = getattr(node, "lineno", None) or self.cur_line
        fq = self.frames[-1].func.qual if self.frames and self.frames[-1].func else "?"
        ob = Obligation(None, kind, list(path.pc), goal, line, fq, note)
        ob.cls_terms = dict(path.cls_terms)
        ob.trace = list(path.trace)
        ob.inputs = self.cur_inputs
        ob.entry_heap = path.entry_heap
        path.obls.append(ob)

    def feasible(self, path):
        self.feas_calls += 1
        s = z3.Solver()
        for c in path.pc:
            if not is_quantified(c):
                s.add(c)
        for c in self.class_axioms(path):
            s.add(c)
        from .solve import cpu_check
        return cpu_check(s, 2000) != z3.unsat   # CPU time, not wall-clock: the set of explored paths must not depend on the load

    # ------------------------------------------------------------------ unit verification
    def number_loops(self, fnode):
        self.loop_ordinals = {}
        n = 0
        for node in ast.walk(fnode):
            pass
        # source order numbering
        loops = [x for x in ast.walk(fnode) if isinstance(x, (ast.For, ast.While))]
        loops.sort(key=lambda x: (x.lineno, x.col_offset))
        for i, l in enumerate(loops, 1):
            self.loop_ordinals[id(l)] = i
        comps = [x for x in ast.walk(fnode) if isinstance(x, (ast.DictComp, ast.ListComp))]
        comps.sort(key=lambda x: (x.lineno, x.col_offset))
        self.comp_ordinals = {id(c): f"c{i}" for i, c in enumerate(comps, 1)}
        return len(loops)

    def verify(self, c):
        """returns (obligations, info dict); raises Unsupported / BindingError"""
        self.reset_unit()
        t0 = time.time()
        fi = self.repo.func(c.target)
        self.cur_contract = c
        self.cur_func = fi
        self.cur_field_override = dict(c.fields)
        self.max_paths = c.max_paths
        nloops = self.number_loops(fi.node)
        for ordn in c.loops:
            if isinstance(ordn, str):
                if ordn not in self.comp_ordinals.values():
                    raise BindingError(f"{c.target}: contract names comprehension {ordn} but the function has {len(self.comp_ordinals)} comprehensions")
                continue
            if ordn > nloops:
                raise BindingError(f"{c.target}: contract names loop #{ordn} but the function has {nloops} loops")
        path = Path()
        args = {}
        params = fi.params
        for pn in c.params:
            if pn not in params:
                raise BindingError(f"{c.target}: contract parameter '{pn}' is not a parameter of the function {params}")
        cls = None
        if fi.cls is not None and params and params[0] == "self":
            scn = c.self_cls or fi.cls.name
            cls = self.repo.cls(scn)
            if fi.cls not in cls.mro:
                raise BindingError(f"{c.target}: self_cls {scn} does not inherit the function")
            m = self.repo.lookup_method(cls, fi.name)
            if not fi.is_setter and m is not fi:
                raise BindingError(f"{c.target}: for class {scn} the method resolves to {m.qual if m else None}")
            selfv = sv.SRef(z3.Int("self"), cls.name, exact=True)
            args["self"] = selfv
            path.assume(selfv.e > 0)
        a = fi.node.args
        defaults = {}
        pnames = [x.arg for x in a.posonlyargs + a.args]
        for n, d in zip(reversed(pnames), reversed(a.defaults)):
            defaults[n] = d
        for pn in params:
            if pn == "self" and "self" in args:
                continue
            if pn not in c.params:
                raise BindingError(f"{c.target}: no type for parameter '{pn}' in the contract")
            ty = c.params[pn]
            v = ty if isinstance(ty, sv.SV) else sv.mk(ty, f"arg.{pn}")
            args[pn] = v
            for w in sv.wf(v):
                path.assume(w)
            if isinstance(v, sv.SRef):
                path.assume(v.e > 0)
        if a.kwarg:
            args[a.kwarg.arg] = sv.SPy("kwargs", {})
        self.cur_args = args
        self.cur_inputs = args
        path.env = dict(args)
        self.frames = [Frame(fi.module, fi, fi.cls)]
        # contracts name a few locals (loop invariants over an accumulator): a pure renaming of locals - same number of locals, bound
        # in the same order - is followed, so that it is not mistaken for a different function
        self.local_order = local_binding_order(fi.node)
        base = getattr(self.registry, "baseline_locals", {}).get(c.target)
        if base and not isinstance(base[0], (list, tuple)):
            base = [[n, None] for n in base]
        self.local_rename = {}
        cur_names = [n for n, _s in self.local_order]
        if base and [n for n, _s in base] != cur_names:
            import difflib
            base_names = [n for n, _s in base]
            for tag, i1, i2, j1, j2 in difflib.SequenceMatcher(a=base_names, b=cur_names, autojunk=False).get_opcodes():
                if tag == "replace" and i2 - i1 == j2 - j1:      # a run of locals bound at the same places under other names
                    for b, o in zip(base_names[i1:i2], cur_names[j1:j2]):
                        if b not in cur_names and o not in base_names:
                            self.local_rename[b] = o
            # otherwise: a local that disappeared and exactly one new local that is first bound to an expression of the same shape
            gone = [(n, sg) for n, sg in base if n not in cur_names and n not in self.local_rename]
            new = [(n, sg) for n, sg in self.local_order if n not in base_names and n not in self.local_rename.values()]
            for n, sg in gone:
                cands = [m for m, sg2 in new if sg2 == sg]
                if len(cands) == 1 and sum(1 for _n, sg2 in gone if sg2 == sg) == 1:
                    self.local_rename[n] = cands[0]
        ctx0 = Ctx(self, path, args)
        if c.axioms is not None:
            for ax in c.axioms(ctx0):
                path.assume(ax)
        if c.requires is not None:
            path.assume(c.requires(ctx0))
        path.entry_heap = dict(path.heap)
        # vacuity: the precondition must be satisfiable
        cover = Obligation(f"{c.name}:cover-pre", "cover", list(path.pc), z3.BoolVal(False), fi.node.lineno, fi.qual)
        cover.expect_sat = True
        cover.cls_terms = dict(path.cls_terms)
        cover.inputs = args
        cover.entry_heap = path.entry_heap
        cover.trace = []
        obls = [cover]
        entry_pc_len = len(path.pc)
        outs = self.exec_block(fi.node.body, path)
        n_ret = 0
        seen = set()
        for kind, p, val in outs:
            self.paths_explored += 1
            if kind == NEXT:
                kind, val = RET, sv.NONE
            ctx = Ctx(self, p, self._post_args(p, args), p.entry_heap)
            ctx.pre_args = args
            self.frames = [Frame(fi.module, fi, fi.cls)]
            if kind == RET:
                n_ret += 1
                for exc, cond in sorted(c.must_raise.items()):
                    pre = Ctx(self, p, args).old
                    self.oblige(p, f"must-raise:{exc}", sv.Not(cond(pre)), fi.node, assume=False)
                if c.ensures is not None:
                    try:
                        post = c.ensures(ctx, val)
                    except (AttributeError, TypeError, KeyError, IndexError) as e:
                        # the result (or the final state) no longer has the shape the postcondition talks about
                        # (e.g. an optional value where a value is promised): the postcondition cannot hold as stated
                        post = {"the result has the shape the contract describes": z3.BoolVal(False)}
                        if os.environ.get("VERIF_DEBUG"):
                            import traceback
                            traceback.print_exc()
                        self.assumptions.add(f"postcondition of {c.name} not applicable to the returned value: {type(e).__name__}: {e}")
                    if isinstance(post, dict):
                        for cname, cform in post.items():
                            self.oblige(p, f"post[{cname}]", cform, fi.node, assume=False)
                    else:
                        self.oblige(p, "post", post, fi.node, assume=False)
            elif kind == RAISE:
                allowed = None
                for exc in sorted(c.raises):
                    if exc in val.mro_names:
                        allowed = exc
                        break
                node = val.node or fi.node
                if allowed is None:
                    self.oblige(p, f"raises-unexpected:{val.cls_name}", z3.BoolVal(False), node, assume=False,
                                note=f"exception {val.cls_name} is not allowed by the contract")
                else:
                    self.oblige(p, f"raises:{allowed}", c.raises[allowed](ctx), node, assume=False)
                    if c.raise_frame_empty:
                        self.frame_unchanged(p, c, node)
            else:
                raise Unsupported(f"{kind} outside loop in {c.target}")
            for ob in p.obls:
                if id(ob) not in seen:
                    seen.add(id(ob))
                    obls.append(ob)
        for p in self.ended_paths:
            for ob in p.obls:
                if id(ob) not in seen:
                    seen.add(id(ob))
                    obls.append(ob)
        for ordn in c.loops:
            if ordn not in self.used_loops:
                raise BindingError(f"{c.target}: loop contract #{ordn} was never reached (contract out of date)")
        # names
        counts = {}
        for ob in obls:
            if ob.name is None:
                base = f"{c.name}:{ob.kind}@L{ob.line}"
                counts[base] = counts.get(base, 0) + 1
                ob.name = f"{base}#{counts[base]}"
            ob.hyps = ob.hyps + self._cls_axioms_for(ob) + self._str_axioms()
            ob.unit = c
        info = {
            "function": c.target,
            "self_cls": c.self_cls,
            "file": fi.path,
            "sha256": fi.module.sha256,
            "paths": self.paths_explored,
            "return_paths": n_ret,
            "dropped_nodes": self.dropped,
            "inlined": sorted(self.inlined),
            "callee_contracts": sorted(self.called_contracts),
            "exec_s": round(time.time() - t0, 3),
            "assumptions": sorted(self.assumptions),
            "local_order": self.local_order,
            "locals_renamed": dict(self.local_rename),
        }
        return obls, info

    def _post_args(self, p, args):
        """by-reference parameters: the final value of the local is the caller-visible value"""
        out = dict(args)
        out["$post"] = {n: p.env.get(n) for n in args}
        return out

    def _str_axioms(self):
        """different string literals are different strings"""
        lits = sorted(self.str_consts)
        if len(lits) < 2:
            return []
        return [z3.Distinct(*[sv.const_str(x).e for x in lits])]

    def _cls_axioms_for(self, ob):
        class _P:
            pass

        pp = _P()
        pp.cls_terms = ob.cls_terms
        return self.class_axioms(pp) + self.class_axioms_quantified()

    def class_axioms_quantified(self):
        """the class hierarchy / family disjointness over class ids (covers references that only occur
        under quantifiers or were met on cloned paths)"""
        preds = sorted(self.cls_preds)
        infos = {p: self.repo.cls(p) for p in preds}
        groups = [("IInput", "IOutput"), ("IComponent",), ("Info",), ("GridBase",), ("Composition",)]
        roots = {}
        for p in preds:
            for gi, g in enumerate(groups):
                if any(self.repo.has_cls(b) and self.repo.cls(b) in infos[p].mro for b in g):
                    roots.setdefault(p, set()).add(gi)
        k = z3.Int("cls!k")
        out = []
        for d in preds:
            for c in preds:
                if d != c and infos[c] in infos[d].mro:
                    out.append(z3.ForAll([k], sv.Implies(self.isa(d, k), self.isa(c, k)), patterns=[self.isa(d, k)]))
                if d < c and roots.get(d) and roots.get(c) and not (roots[d] & roots[c]):
                    out.append(z3.ForAll([k], sv.Not(sv.And(self.isa(d, k), self.isa(c, k))),
                                         patterns=[z3.MultiPattern(self.isa(d, k), self.isa(c, k))]))
        return out

    def frame_unchanged(self, p, c, node):
        """on this exit no field in the modifies clause was changed"""
        ctx0 = Ctx(self, p, self.cur_args).old
        mods = c.modifies(ctx0) if c.modifies else []
        for f, fm in p.heap.items():
            old = p.entry_heap.get(f)
            if old is None or old is fm:
                continue
            for r in fm.writes[len(old.writes):]:
                if r is None:
                    self.oblige(p, f"raise-frame:{f}", z3.BoolVal(False), node, assume=False)
                    continue
                try:
                    same = self.same_value(fm.get(r), old.get(r))
                except Unsupported:
                    same = z3.BoolVal(False)
                self.oblige(p, f"raise-frame:{f}", same, node, assume=False)

    def same_value(self, a, b):
        if isinstance(a, sv.SList) and isinstance(b, sv.SList):
            j = z3.Int(sv.uid("fj"))
            return sv.And(a.n == b.n, z3.ForAll([j], sv.Implies(sv.And(0 <= j, j < a.n), self.same_value(a.at(j), b.at(j)))))
        if isinstance(a, sv.SDict) and isinstance(b, sv.SDict):
            ks = getattr(a, "ksort", None) or getattr(b, "ksort", None) or sv.IntS
            k = z3.Const(sv.uid("fk"), ks)
            return z3.ForAll([k], sv.And(a.dom(k) == b.dom(k), sv.Implies(a.dom(k), self.same_value(a.val(k), b.val(k)))))
        if isinstance(a, sv.SSet) and isinstance(b, sv.SSet):
            ks = getattr(a, "ksort", None) or sv.IntS
            k = z3.Const(sv.uid("fk"), ks)
            return z3.ForAll([k], a.dom(k) == b.dom(k))
        return sv.value_eq(a, b)
