"""Symbolic values and types of the pyvc verifier.

Every Python value met during symbolic execution of the real finam source is one of the SV
classes below.  Leaves are z3 terms over uninterpreted functions (no array theory is used):
lists, dicts and sets are (length / domain, python closure index -> value) records, field maps of
the heap are closures ``ref -> value``.  Values are immutable; a "mutation" builds a new record.
"""
import itertools
import z3

# ------------------------------------------------------------------------------------------
# sorts
# ------------------------------------------------------------------------------------------
IntS = z3.IntSort()
RealS = z3.RealSort()
BoolS = z3.BoolSort()
StrS = z3.DeclareSort("Str")  # uninterpreted strings (file names, names)
OpaqueS = z3.DeclareSort("Obj")  # opaque library objects (Info, units, grids in opaque mode)

_counter = itertools.count()


def uid(prefix="v"):
    return f"{prefix}!{next(_counter)}"


# ------------------------------------------------------------------------------------------
# types (descriptors used by the heap schema and by contracts)
# ------------------------------------------------------------------------------------------
class Ty:
    def __repr__(self):
        return self.__class__.__name__


class TInt(Ty):
    pass


class TReal(Ty):
    pass


class TBool(Ty):
    pass


class TStr(Ty):
    pass


class TTime(Ty):
    """datetime, integer microseconds"""


class TDelta(Ty):
    """timedelta, integer microseconds"""


class TPay(Ty):
    """data payload: a real number (numpy applies the same expression element-wise)"""


class TObj(Ty):
    """opaque object of a library (pint unit, Info, ...)"""

    def __init__(self, kind="obj"):
        self.kind = kind


class TNone(Ty):
    pass


class TRef(Ty):
    def __init__(self, cls):
        self.cls = cls

    def __repr__(self):
        return f"Ref({self.cls})"


class TOpt(Ty):
    def __init__(self, t):
        self.t = t

    def __repr__(self):
        return f"Opt({self.t})"


class TUnion(Ty):
    """tagged union of types (e.g. str | payload)"""

    def __init__(self, *ts):
        self.ts = ts


class TTup(Ty):
    def __init__(self, *ts):
        self.ts = ts

    def __repr__(self):
        return f"Tup{self.ts}"


class TList(Ty):
    def __init__(self, t):
        self.t = t

    def __repr__(self):
        return f"List({self.t})"


class TDict(Ty):
    def __init__(self, k, v):
        self.k, self.v = k, v


class TSet(Ty):
    def __init__(self, k):
        self.k = k


Int, Real, Bool, Str, Time, Delta, Pay, NoneT = (
    TInt(),
    TReal(),
    TBool(),
    TStr(),
    TTime(),
    TDelta(),
    TPay(),
    TNone(),
)
Entry = TUnion(Str, Pay)  # a history entry: file name (spilled) or payload (in RAM)


# ------------------------------------------------------------------------------------------
# symbolic values
# ------------------------------------------------------------------------------------------
class SV:
    kind = "?"


class _Leaf(SV):
    def __init__(self, e):
        self.e = e

    def __repr__(self):
        return f"{self.__class__.__name__}({self.e})"


class SInt(_Leaf):
    kind = "int"


class SReal(_Leaf):
    kind = "real"


class SBool(_Leaf):
    kind = "bool"


class SStr(_Leaf):
    kind = "str"

    def __init__(self, e, py=None):
        self.e = e
        self.py = py  # concrete python string if known


class STime(_Leaf):
    kind = "time"


class SDelta(_Leaf):
    kind = "delta"


class SPay(_Leaf):
    kind = "pay"

    def __init__(self, e, units=None):
        self.e = e
        self.units = units


class SObj(_Leaf):
    kind = "obj"

    def __init__(self, e, okind="obj"):
        self.e = e
        self.okind = okind


class SRef(_Leaf):
    kind = "ref"

    def __init__(self, e, cls=None, exact=False):
        self.e = e
        self.cls = cls  # static class name (upper bound); None = unknown
        self.exact = exact  # dynamic class is exactly cls' verified instantiation


class SNone(SV):
    kind = "none"

    def __repr__(self):
        return "SNone"


NONE = SNone()


class STup(SV):
    kind = "tup"

    def __init__(self, items):
        self.items = tuple(items)

    def __repr__(self):
        return f"STup{self.items}"


class SList(SV):
    kind = "list"

    def __init__(self, n, at, fresh=False):
        self.n = n  # z3 Int
        self.at = at  # closure: z3 Int -> SV
        self.fresh = fresh  # created in the function under analysis (not aliased)

    def __repr__(self):
        return f"SList(n={self.n})"


class SDict(SV):
    """dict with insertion order.  dom/val are closures over key *leaf expressions*;
    keys are kept as an SList of key SVs (insertion order); idx(key) is the position."""

    kind = "dict"

    def __init__(self, keys, dom, val, idx, kwrap):
        self.keys = keys  # SList of key SV
        self.dom = dom  # closure key_expr -> z3 Bool
        self.val = val  # closure key_expr -> SV
        self.idx = idx  # closure key_expr -> z3 Int (position in keys if in dom)
        self.kwrap = kwrap  # closure key_expr -> key SV


class SSet(SV):
    kind = "set"

    def __init__(self, dom, card=None, kwrap=None):
        self.dom = dom  # closure key_expr -> z3 Bool
        self.card = card  # z3 Int or None (unknown)
        self.kwrap = kwrap


class SUnion(SV):
    """value of one of several kinds; guards are mutually exclusive and exhaustive"""

    kind = "union"

    def __init__(self, alts):
        self.alts = alts  # list of (z3 Bool guard, SV)

    def __repr__(self):
        return f"SUnion({self.alts})"


class SPy(SV):
    """a concrete python-level thing: function object, class, module, constant tuple..."""

    kind = "py"

    def __init__(self, what, payload=None):
        self.what = what
        self.payload = payload

    def __repr__(self):
        return f"SPy({self.what},{self.payload})"


# ------------------------------------------------------------------------------------------
# helpers
# ------------------------------------------------------------------------------------------
def is_true(e):
    return z3.is_true(e)


def is_false(e):
    return z3.is_false(e)


def simp(e):
    return z3.simplify(e)


def And(*xs):
    xs = [x for x in xs if not (isinstance(x, bool) and x) and not is_true(x)]
    for x in xs:
        if (isinstance(x, bool) and not x) or is_false(x):
            return z3.BoolVal(False)
    if not xs:
        return z3.BoolVal(True)
    if len(xs) == 1:
        return xs[0]
    return z3.And(*xs)


def Or(*xs):
    xs = [x for x in xs if not (isinstance(x, bool) and not x) and not is_false(x)]
    for x in xs:
        if (isinstance(x, bool) and x) or is_true(x):
            return z3.BoolVal(True)
    if not xs:
        return z3.BoolVal(False)
    if len(xs) == 1:
        return xs[0]
    return z3.Or(*xs)


def Not(x):
    if is_true(x):
        return z3.BoolVal(False)
    if is_false(x):
        return z3.BoolVal(True)
    return z3.Not(x)


def Implies(a, b):
    if is_true(a):
        return b
    if is_false(a) or is_true(b):
        return z3.BoolVal(True)
    return z3.Implies(a, b)


def If(c, a, b):
    if is_true(c):
        return a
    if is_false(c):
        return b
    if a.eq(b):
        return a
    return z3.If(c, a, b)


RDIV = z3.Function("rdiv", RealS, RealS, RealS)


def rdiv(a, b, facts=None):
    """real division a/b.  A numeral divisor stays interpreted; a symbolic divisor goes through the
    function symbol `rdiv`, tied to the reals by the ground fact  b != 0 => rdiv(a,b)*b == a  (appended
    to `facts`).  Two syntactically different but provably equal quotients are then equal by congruence,
    which the nonlinear solver does not find reliably."""
    a, b = to_real(a), to_real(b)
    if z3.is_rational_value(simp(b)):
        return a / b
    q = RDIV(a, b)
    if facts is not None:
        facts.append(Implies(b != 0, q * b == a))
    return q


def to_real(e):
    if e.sort() == RealS:
        return e
    return z3.ToReal(e)


_LEAF_SORT = {
    "int": IntS,
    "real": RealS,
    "bool": BoolS,
    "str": StrS,
    "time": IntS,
    "delta": IntS,
    "pay": RealS,
    "obj": OpaqueS,
    "ref": IntS,
}


def same_leaf(a, b):
    return isinstance(a, _Leaf) and isinstance(b, _Leaf) and a.kind == b.kind


def rebuild(proto, e):
    """a leaf like proto with expression e"""
    if isinstance(proto, SRef):
        return SRef(e, proto.cls, proto.exact)
    if isinstance(proto, SStr):
        return SStr(e)
    if isinstance(proto, SPay):
        return SPay(e, proto.units)
    if isinstance(proto, SObj):
        return SObj(e, proto.okind)
    return proto.__class__(e)


ITE_HOOKS = []   # fn(c, a, b) -> SV | None for value kinds defined outside this module (arrays)


def ite(c, a, b):
    """structural if-then-else on symbolic values"""
    if z3.is_app(c) and c.num_args() == 2 and all(z3.is_int_value(a) for a in c.children()):
        c = z3.simplify(c)        # comparison of two numerals (element k of a list of concrete length)
    if is_true(c):
        return a
    if is_false(c):
        return b
    if a is b:
        return a
    if same_leaf(a, b):
        if isinstance(a, SRef):
            cls = a.cls if a.cls == b.cls else None
            return SRef(If(c, a.e, b.e), cls, a.exact and b.exact and cls is not None)
        if isinstance(a, SStr):
            py = a.py if (a.py is not None and a.py == b.py) else None
            return SStr(If(c, a.e, b.e), py)
        return rebuild(a, If(c, a.e, b.e))
    if isinstance(a, SInt) and isinstance(b, SReal) or isinstance(a, SReal) and isinstance(b, SInt):
        return SReal(If(c, to_real(a.e), to_real(b.e)))
    if isinstance(a, SNone) and isinstance(b, SNone):
        return a
    if isinstance(a, STup) and isinstance(b, STup) and len(a.items) == len(b.items):
        return STup([ite(c, x, y) for x, y in zip(a.items, b.items)])
    ia = getattr(a, "items", None) if isinstance(a, (SList, STup)) else None
    ib = getattr(b, "items", None) if isinstance(b, (SList, STup)) else None
    if ia is not None and ib is not None and len(ia) == len(ib) and (isinstance(a, SList) or isinstance(b, SList)):
        # sequences of the same concrete length (a list display / comprehension result and a tuple): element-wise
        items = [ite(c, x, y) for x, y in zip(ia, ib)]

        def at(i, items=items):
            if not items:
                return NONE
            r = items[-1]
            for j in range(len(items) - 2, -1, -1):
                r = ite(simp(i == j), items[j], r)
            return r

        lst = SList(z3.IntVal(len(items)), at, True)
        lst.items = items
        return lst
    if isinstance(a, SList) and isinstance(b, SList):
        return SList(If(c, a.n, b.n), lambda i, a=a, b=b, c=c: ite(c, a.at(i), b.at(i)), a.fresh and b.fresh)
    if isinstance(a, SDict) and isinstance(b, SDict):
        d = SDict(
            ite(c, a.keys, b.keys),
            lambda k: If(c, a.dom(k), b.dom(k)),
            lambda k: ite(c, a.val(k), b.val(k)),
            lambda k: If(c, a.idx(k), b.idx(k)),
            a.kwrap or b.kwrap,
        )
        d.ksort = getattr(a, "ksort", None)
        if d.ksort is None:
            d.ksort = getattr(b, "ksort", None)
        return d
    if isinstance(a, SSet) and isinstance(b, SSet):
        card = If(c, a.card, b.card) if (a.card is not None and b.card is not None) else None
        return SSet(lambda k: If(c, a.dom(k), b.dom(k)), card, a.kwrap)
    if isinstance(a, SPy) and isinstance(b, SPy) and a.what == b.what and a.payload == b.payload:
        return a
    for h in ITE_HOOKS:
        r = h(c, a, b)
        if r is not None:
            return r
    # different kinds: union
    alts = []
    for g, v in alts_of(a):
        alts.append((And(c, g), v))
    for g, v in alts_of(b):
        alts.append((And(Not(c), g), v))
    return mk_union(alts)


def alts_of(v):
    if isinstance(v, SUnion):
        return v.alts
    return [(z3.BoolVal(True), v)]


def _mergeable(a, b):
    if same_leaf(a, b):
        return True
    if isinstance(a, SNone) and isinstance(b, SNone):
        return True
    if isinstance(a, STup) and isinstance(b, STup) and len(a.items) == len(b.items):
        return all(_mergeable(x, y) or True for x, y in zip(a.items, b.items))
    if isinstance(a, SList) and isinstance(b, SList):
        return True
    if isinstance(a, SDict) and isinstance(b, SDict):
        return True
    if isinstance(a, SSet) and isinstance(b, SSet):
        return True
    return False


def mk_union(alts):
    """normalise: drop false guards, merge alternatives of the same kind"""
    out = []
    for g, v in alts:
        if is_false(g):
            continue
        if isinstance(v, SUnion):
            for g2, v2 in v.alts:
                out.append((And(g, g2), v2))
        else:
            out.append((g, v))
    merged = []
    for g, v in out:
        for i, (g0, v0) in enumerate(merged):
            if _mergeable(v0, v):
                merged[i] = (Or(g0, g), ite(g0, v0, v))
                break
        else:
            merged.append((g, v))
    if len(merged) == 1:
        return merged[0][1]
    if not merged:
        raise ValueError("empty union")
    return SUnion(merged)


def opt(none_guard, v):
    return mk_union([(none_guard, NONE), (Not(none_guard), v)])


# ------------------------------------------------------------------------------------------
# building symbolic values of a type from uninterpreted functions
# ------------------------------------------------------------------------------------------
def _app(name, args, sort):
    if not args:
        return z3.Const(name, sort)
    f = z3.Function(name, *[a.sort() for a in args], sort)
    return f(*args)


def mk(ty, name, args=()):
    """symbolic value of type `ty` whose leaves are applications ``name.leaf(args)``"""
    args = tuple(args)
    if isinstance(ty, TInt):
        return SInt(_app(name, args, IntS))
    if isinstance(ty, TReal):
        return SReal(_app(name, args, RealS))
    if isinstance(ty, TBool):
        return SBool(_app(name, args, BoolS))
    if isinstance(ty, TStr):
        return SStr(_app(name, args, StrS))
    if isinstance(ty, TTime):
        return STime(_app(name, args, IntS))
    if isinstance(ty, TDelta):
        return SDelta(_app(name, args, IntS))
    if isinstance(ty, TPay):
        return SPay(_app(name, args, RealS))
    if isinstance(ty, TObj):
        return SObj(_app(name, args, OpaqueS), ty.kind)
    if isinstance(ty, TNone):
        return NONE
    if isinstance(ty, TRef):
        return SRef(_app(name, args, IntS), ty.cls)
    if isinstance(ty, TOpt):
        g = _app(name + ".none", args, BoolS)
        return opt(g, mk(ty.t, name + ".v", args))
    if isinstance(ty, TUnion):
        n = len(ty.ts)
        if n == 2:
            g = _app(name + ".is0", args, BoolS)
            return mk_union([(g, mk(ty.ts[0], name + ".u0", args)), (Not(g), mk(ty.ts[1], name + ".u1", args))])
        tag = _app(name + ".tag", args, IntS)
        alts = []
        for i, t in enumerate(ty.ts):
            g = tag == i if i < n - 1 else Not(Or(*[tag == j for j in range(n - 1)]))
            alts.append((g, mk(t, f"{name}.u{i}", args)))
        return mk_union(alts)
    if isinstance(ty, TTup):
        return STup([mk(t, f"{name}.{i}", args) for i, t in enumerate(ty.ts)])
    if isinstance(ty, TList):
        n = _app(name + ".len", args, IntS)
        return SList(n, lambda i, ty=ty, name=name, args=args: mk(ty.t, name + ".at", args + (i,)))
    if isinstance(ty, TDict):
        keys = mk(TList(ty.k), name + ".keys", args)
        ksort = _LEAF_SORT[_leaf_kind(ty.k)]

        def dom(k):
            return _app(name + ".dom", args + (k,), BoolS)

        def val(k):
            return mk(ty.v, name + ".val", args + (k,))

        def idx(k):
            return _app(name + ".idx", args + (k,), IntS)

        def kwrap(k):
            return leaf_of_type(ty.k, k)

        d = SDict(keys, dom, val, idx, kwrap)
        d.ksort = ksort
        d.base = True
        d.base_id = name + "(" + ",".join(str(a) for a in args) + ")"
        return d
    if isinstance(ty, TSet):

        def sdom(k):
            return _app(name + ".in", args + (k,), BoolS)

        s = SSet(sdom, _app(name + ".card", args, IntS), lambda k: leaf_of_type(ty.k, k))
        s.ksort = _LEAF_SORT[_leaf_kind(ty.k)]
        return s
    raise TypeError(f"mk: unsupported type {ty}")


def _leaf_kind(ty):
    return {
        TInt: "int",
        TReal: "real",
        TBool: "bool",
        TStr: "str",
        TTime: "time",
        TDelta: "delta",
        TPay: "pay",
        TObj: "obj",
        TRef: "ref",
    }[type(ty)]


def leaf_of_type(ty, e):
    if isinstance(ty, TRef):
        return SRef(e, ty.cls)
    if isinstance(ty, TObj):
        return SObj(e, ty.kind)
    return {
        TInt: SInt,
        TReal: SReal,
        TBool: SBool,
        TStr: SStr,
        TTime: STime,
        TDelta: SDelta,
        TPay: SPay,
    }[type(ty)](e)


def wf(v, depth=0):
    """quantifier-free well-formedness facts known for a freshly read value"""
    out = []
    if isinstance(v, SList):
        out.append(v.n >= 0)
    elif isinstance(v, SDict):
        out.append(v.keys.n >= 0)
        if getattr(v, "base", False):
            out += dict_wf_facts(v, v.base_id)
    elif isinstance(v, SSet):
        if v.card is not None:
            out.append(v.card >= 0)
    elif isinstance(v, STup) and depth < 2:
        for x in v.items:
            out += wf(x, depth + 1)
    elif isinstance(v, SUnion) and depth < 2:
        for g, x in v.alts:
            out += [Implies(g, c) for c in wf(x, depth + 1)]
    return out


def dict_wf_facts(d, tag):
    """quantified facts tying keys/dom/idx of a *base* (uninterpreted) dict together"""
    ks = d.ksort
    i = z3.Const(f"i!{tag}", IntS)
    j = z3.Const(f"j!{tag}", IntS)
    k = z3.Const(f"k!{tag}", ks)
    key_i = d.keys.at(i).e
    key_j = d.keys.at(j).e
    return [
        z3.ForAll([i], Implies(And(0 <= i, i < d.keys.n), And(d.dom(key_i), d.idx(key_i) == i)), patterns=[key_i]),
        z3.ForAll(
            [k],
            Implies(d.dom(k), And(0 <= d.idx(k), d.idx(k) < d.keys.n, d.keys.at(d.idx(k)).e == k)),
            patterns=[d.dom(k)],
        ),
    ]


def value_eq(a, b):
    """z3 Bool: python `==` / identity of two symbolic values (structural for tuples)"""
    if isinstance(a, SUnion) or isinstance(b, SUnion):
        parts = []
        for ga, va in alts_of(a):
            for gb, vb in alts_of(b):
                parts.append(And(ga, gb, value_eq(va, vb)))
        return Or(*parts)
    if isinstance(a, SNone) or isinstance(b, SNone):
        return z3.BoolVal(isinstance(a, SNone) and isinstance(b, SNone))
    if same_leaf(a, b):
        return a.e == b.e
    if isinstance(a, (SInt, SReal)) and isinstance(b, (SInt, SReal)):
        return to_real(a.e) == to_real(b.e)
    if isinstance(a, SBool) and isinstance(b, SInt):
        return If(a.e, z3.IntVal(1), z3.IntVal(0)) == b.e
    if isinstance(a, SInt) and isinstance(b, SBool):
        return value_eq(b, a)
    if isinstance(a, STup) and isinstance(b, STup):
        if len(a.items) != len(b.items):
            return z3.BoolVal(False)
        return And(*[value_eq(x, y) for x, y in zip(a.items, b.items)])
    if isinstance(a, SPy) and isinstance(b, SPy):
        return z3.BoolVal(a.what == b.what and a.payload == b.payload)
    if isinstance(a, _Leaf) and isinstance(b, _Leaf):
        return z3.BoolVal(False)  # different kinds are never equal
    raise TypeError(f"value_eq: cannot compare {a} and {b}")


def const_str(s):
    return SStr(z3.Const("str:" + s, StrS), s)


def show(v, model=None):
    """JSON-able form of a value under a model (used for witnesses)"""
    if isinstance(v, _Leaf):
        if model is None:
            return str(v.e)
        e = model.eval(v.e, model_completion=True)
        if z3.is_int_value(e):
            return e.as_long()
        if z3.is_rational_value(e):
            return float(e.numerator_as_long()) / float(e.denominator_as_long())
        if z3.is_true(e):
            return True
        if z3.is_false(e):
            return False
        return str(e)
    if isinstance(v, SNone):
        return None
    if isinstance(v, STup):
        return [show(x, model) for x in v.items]
    if isinstance(v, SUnion):
        if model is not None:
            for g, x in v.alts:
                if is_true(model.eval(g, model_completion=True)):
                    return show(x, model)
        return "union"
    if isinstance(v, SList):
        if model is not None:
            n = model.eval(v.n, model_completion=True).as_long()
            return [show(v.at(z3.IntVal(i)), model) for i in range(max(0, min(n, 12)))]
        return "list"
    if isinstance(v, SDict):
        if model is not None:
            n = model.eval(v.keys.n, model_completion=True).as_long()
            out = []
            for i in range(max(0, min(n, 12))):
                k = v.keys.at(z3.IntVal(i))
                ke = k.e if isinstance(k, _Leaf) else None
                out.append([show(k, model), show(v.val(ke), model) if ke is not None else None])
            return {"dict": out}
        return "dict"
    return repr(v)


def tuple_key(es):
    """hashable tuple of leaves as a container key: injective constructor"""
    f = z3.Function("tuplekey" + "_".join(str(e.sort()) for e in es), *[e.sort() for e in es], OpaqueS)
    return f(*es)


def tuple_key_axioms(sorts):
    """injectivity of tuple_key for the given component sorts (projection functions)"""
    f = z3.Function("tuplekey" + "_".join(str(s) for s in sorts), *sorts, OpaqueS)
    xs = [z3.Const(f"tk{i}", s) for i, s in enumerate(sorts)]
    t = f(*xs)
    projs = [z3.Function(f"tuplekey{i}of{len(sorts)}" + "_".join(str(s) for s in sorts), OpaqueS, s) for i, s in enumerate(sorts)]
    return [z3.ForAll(xs, And(*[p(t) == x for p, x in zip(projs, xs)]), patterns=[t])], projs


WORLD = SRef(z3.IntVal(-1), None)  # the "world" object: ghost global state and mutable module-level variables
