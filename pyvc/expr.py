"""Expression evaluation."""
import ast

import z3

from . import sv
from .path import Unsupported
from .stmt import Exc, RaisedInExpr

US = 1_000_000  # microseconds per second


class Seq:
    """read-only view used for iteration"""

    def __init__(self, n, at):
        self.n = n
        self.at = at


class ExprMixin:
    # ------------------------------------------------------------------ obligations
    def oblige(self, path, kind, goal, node=None, note="", assume=True):
        if isinstance(goal, bool):
            goal = z3.BoolVal(goal)
        if not kind.startswith("safe:") and "." not in kind.split(":")[0] and "[" not in kind and len(_flat_and(goal)) > 1:
            # one obligation per conjunct: a failure then names the clause
            base, _, rest = kind.partition(":")
            for i, part in enumerate(_flat_and(goal), 1):
                self.oblige(path, f"{base}.{i}" + (":" + rest if rest else ""), part, node, note, assume)
            return
        if path.guards:
            goal = sv.Implies(sv.And(*path.guards), goal)
        g = sv.simp(goal)
        if sv.is_true(g):
            if not kind.startswith("safe:"):
                self.emit(path, kind, z3.BoolVal(True), node, note)  # discharged by simplification, still counted
            return
        self.emit(path, kind, goal, node, note)
        if assume:
            path.pc.append(goal)

    def entails(self, path, fact):
        """cheap check that the quantifier-free part of the path condition implies `fact`"""
        from .path import is_quantified

        s = z3.Solver()
        for c in path.pc:
            if not is_quantified(c):
                s.add(c)
        if path.guards:
            s.add(*path.guards)
        s.add(z3.Not(fact))
        from .solve import cpu_check
        return cpu_check(s, 500) == z3.unsat

    IMPLICIT = {"key": "KeyError", "index": "IndexError", "none": "AttributeError", "attr": "AttributeError",
                "type": "TypeError", "div0": "ZeroDivisionError", "unpack": "TypeError"}

    def safe(self, path, what, goal, node):
        exc = self.IMPLICIT.get(what)
        c = self.cur_contract
        if exc is not None and c is not None and self.frame_depth == 0 and exc in c.raises and not c.raise_frame_empty:
            # the contract allows this implicit exception: the raising executions end here (nothing to show),
            # the analysis continues with the executions where the operation succeeds
            path.assume(goal if not path.guards else sv.Implies(sv.And(*path.guards), goal))
            return
        self.oblige(path, "safe:" + what, goal, node)

    def definite_error(self, path, what, node, msg=""):
        """the operation raises an implicit exception on every execution of this path: the obligation
        `unreachable` is emitted and the path ends here"""
        from .path import DeadPath

        self.oblige(path, "safe:" + what, z3.BoolVal(False), node, note=msg, assume=False)
        self.ended_paths.append(path)
        raise DeadPath()

    # ------------------------------------------------------------------ entry
    def eval(self, e, path):
        m = getattr(self, "_e_" + e.__class__.__name__, None)
        if m is None:
            raise Unsupported(f"expression {e.__class__.__name__}", e)
        return m(e, path)

    def _e_Constant(self, e, path):
        return self.const(e.value, e)

    def const(self, v, node=None):
        if v is None:
            return sv.NONE
        if isinstance(v, bool):
            return sv.SBool(z3.BoolVal(v))
        if isinstance(v, int):
            return sv.SInt(z3.IntVal(v))
        if isinstance(v, float):
            return sv.SReal(z3.RealVal(repr(v)))
        if isinstance(v, str):
            self.str_consts.add(v)
            return sv.const_str(v)
        if v is Ellipsis:
            return sv.SPy("ellipsis")
        raise Unsupported(f"constant {v!r}", node)

    def _e_Name(self, e, path):
        if e.id in path.env:
            v = path.env[e.id]
            if isinstance(v, sv.SPy) and v.what == "alias":
                return self.eval(v.payload, path)      # a local that names a container living in the heap: read it where it lives
            return v
        if e.id in ("True", "False", "None"):
            return self.const({"True": True, "False": False, "None": None}[e.id])
        mod = self.frames[-1].module
        kind, obj = self.repo.resolve_name(mod, e.id)
        if kind == "ext" and obj == e.id and e.id not in mod.imports:
            return sv.SPy("builtin", e.id)
        f = self.module_state_field(kind, obj)
        if f is not None:
            return path.heap_get(self, sv.WORLD, f)
        return self.py_value(kind, obj, path)

    def module_state_field(self, kind, obj):
        """mutable module-level variable declared as state (Registry.module_state): lives in the heap of the world object"""
        if kind != "const":
            return None
        m, node = obj
        for (mn, var), f in getattr(self.registry, "module_state", {}).items():
            if mn == m.name and m.consts.get(var) is node:
                return f
        return None

    def py_value(self, kind, obj, path):
        if kind == "const":
            m, node = obj
            return self.eval_const_node(m, node, path)
        return sv.SPy(kind, obj)

    def eval_const_node(self, module, node, path):
        from .core import Frame

        self.frames.append(Frame(module, None, None))
        try:
            saved = path.env
            path.env = {}
            try:
                return self.eval(node, path)
            finally:
                path.env = saved
        finally:
            self.frames.pop()

    def _e_JoinedStr(self, e, path):
        # message text is dropped, sub-expressions are still evaluated (implicit exceptions!)
        vals, tmpl = [], []
        for v in e.values:
            if isinstance(v, ast.FormattedValue):
                vals.append(self.eval(v.value, path))
                tmpl.append("{}")
            elif isinstance(v, ast.Constant):
                tmpl.append(str(v.value))
        self.dropped += 1
        if vals and all(isinstance(x, (sv.SInt, sv.SStr)) for x in vals):
            # structured name: an injective function of its integer / string parts
            # (assumption: str(int) formatting with literal separators is injective)
            name = "fstr:" + "".join(tmpl)
            f = z3.Function(name, *[x.e.sort() for x in vals], sv.StrS)
            app = f(*[x.e for x in vals])
            for i, x in enumerate(vals):
                inv = z3.Function(f"{name}#inv{i}", sv.StrS, x.e.sort())
                path.assume(inv(app) == x.e)
            return sv.SStr(app)
        return sv.SStr(z3.Const(sv.uid("fstr"), sv.StrS))

    def _e_FormattedValue(self, e, path):
        self.eval(e.value, path)
        return sv.SStr(z3.Const(sv.uid("fstr"), sv.StrS))

    def _e_Tuple(self, e, path):
        return sv.STup([self.eval(x, path) for x in e.elts])

    def _e_List(self, e, path):
        items = [self.eval(x, path) for x in e.elts]
        return self.list_of(items)

    def list_of(self, items):
        def at(i, items=items):
            if not items:
                return sv.NONE
            r = items[-1]
            for j in range(len(items) - 2, -1, -1):
                r = sv.ite(sv.simp(i == j), items[j], r)
            return r

        lst = sv.SList(z3.IntVal(len(items)), at, fresh=True)
        lst.items = items
        return lst

    def _e_Dict(self, e, path):
        d = self.empty_dict()
        for k, v in zip(e.keys, e.values):
            if k is None:
                raise Unsupported("dict unpacking in display", e)
            d = self.dict_set(d, self.eval(k, path), self.eval(v, path))
        return d

    def _e_Set(self, e, path):
        s = self.empty_set()
        for x in e.elts:
            s = self.set_add(s, self.eval(x, path))
        return s

    def _e_Lambda(self, e, path):
        return sv.SPy("lambda", (e, dict(path.env), self.frames[-1]))

    def _e_NamedExpr(self, e, path):
        v = self.eval(e.value, path)
        path.env[e.target.id] = v
        return v

    def _e_IfExp(self, e, path):
        c = sv.simp(self.truthy(self.eval(e.test, path), path))
        if sv.is_true(c):
            return self.eval(e.body, path)
        if sv.is_false(c):
            return self.eval(e.orelse, path)
        if self.is_pure_expr(e.body) and self.is_pure_expr(e.orelse):
            path.guards.append(c)
            try:
                a = self.eval(e.body, path)
            finally:
                path.guards.pop()
            path.guards.append(sv.Not(c))
            try:
                b = self.eval(e.orelse, path)
            finally:
                path.guards.pop()
            if (isinstance(a, sv.SPy) or isinstance(b, sv.SPy)) and not (isinstance(a, sv.SPy) and isinstance(b, sv.SPy)
                                                                      and a.what == b.what and a.payload == b.payload):
                # python-level values (functions, classes) cannot be merged symbolically: case split
                k = self.choose(path, [c, sv.Not(c)])
                return a if k == 0 else b
            return sv.ite(c, a, b)
        k = self.choose(path, [c, sv.Not(c)])
        return self.eval(e.body if k == 0 else e.orelse, path)

    def _e_BoolOp(self, e, path):
        is_and = isinstance(e.op, ast.And)
        cur = self.eval(e.values[0], path)
        for nxt in e.values[1:]:
            t = sv.simp(self.truthy(cur, path))
            go = t if is_and else sv.Not(t)  # condition under which the next operand is evaluated
            if sv.is_false(go):
                return cur
            if sv.is_true(go):
                cur = self.eval(nxt, path)
                continue
            if self.is_pure_expr(nxt):
                path.guards.append(go)
                try:
                    b = self.eval(nxt, path)
                finally:
                    path.guards.pop()
                cur = sv.ite(go, b, cur)
            else:
                k = self.choose(path, [go, sv.Not(go)])
                if k == 1:
                    return cur
                cur = self.eval(nxt, path)
        return cur

    def _e_UnaryOp(self, e, path):
        v = self.eval(e.operand, path)
        if isinstance(e.op, ast.Not):
            return sv.SBool(sv.Not(self.truthy(v, path)))
        if isinstance(e.op, ast.USub):
            if isinstance(v, (sv.SInt, sv.SReal, sv.SDelta, sv.SPay)):
                return sv.rebuild(v, -v.e)
        if isinstance(e.op, ast.Invert):
            return self.lib_invert(v, path, e)
        raise Unsupported(f"unary {e.op.__class__.__name__} on {v}", e)

    def _e_BinOp(self, e, path):
        a = self.eval(e.left, path)
        b = self.eval(e.right, path)
        return self.binop(e.op, a, b, path, e)

    def _e_Compare(self, e, path):
        left = self.eval(e.left, path)
        if len(e.ops) == 1 and self.hooks.get("compare_value"):
            # operands whose comparison is not a bool (numpy arrays: element-wise)
            right = self.eval(e.comparators[0], path)
            for h in self.hooks["compare_value"]:
                r = h(self, e.ops[0], left, right, path, e)
                if r is not None:
                    return r
            return sv.SBool(self.compare(e.ops[0], left, right, path, e))
        res = []
        for op, rnode in zip(e.ops, e.comparators):
            guarded = bool(res)
            if guarded:
                if not self.is_pure_expr(rnode):
                    raise Unsupported("chained comparison with impure operand", e)
                path.guards.append(sv.And(*res))
            try:
                right = self.eval(rnode, path)
                res.append(self.compare(op, left, right, path, e))
            finally:
                if guarded:
                    path.guards.pop()
            left = right
        return sv.SBool(sv.And(*res))

    # ------------------------------------------------------------------ truthiness
    def truthy(self, v, path):
        if isinstance(v, sv.SBool):
            return v.e
        if isinstance(v, sv.SInt):
            return v.e != 0
        if isinstance(v, sv.SReal):
            return v.e != 0
        if isinstance(v, sv.SNone):
            return z3.BoolVal(False)
        if isinstance(v, sv.SList):
            return v.n > 0
        if isinstance(v, sv.SDict):
            return v.keys.n > 0
        if isinstance(v, sv.SSet):
            if v.card is None:
                raise Unsupported("truthiness of set with unknown cardinality")
            return v.card > 0
        if isinstance(v, sv.STup):
            return z3.BoolVal(len(v.items) > 0)
        if isinstance(v, sv.SPy) and v.what == "kwargs" and isinstance(v.payload, dict) and "$kwargs" not in v.payload:
            return z3.BoolVal(len(v.payload) > 0)     # **kwargs with a statically known set of keys
        if isinstance(v, sv.SStr):
            if v.py is not None:
                return z3.BoolVal(len(v.py) > 0)
            return z3.Function("str_nonempty", sv.StrS, sv.BoolS)(v.e)
        if isinstance(v, sv.SDelta):
            return v.e != 0
        if isinstance(v, (sv.STime, sv.SRef, sv.SObj)):
            if isinstance(v, sv.SRef):
                return self.ref_truthy(v, path)
            return z3.BoolVal(True)
        if isinstance(v, sv.SUnion):
            return sv.Or(*[sv.And(g, self.truthy(x, path)) for g, x in v.alts])
        if isinstance(v, sv.SPy):
            return z3.BoolVal(True)
        if isinstance(v, sv.SPay):
            raise Unsupported("truth value of a data payload")
        raise Unsupported(f"truthiness of {v}")

    def ref_truthy(self, v, path):
        return z3.BoolVal(True)

    # ------------------------------------------------------------------ arithmetic
    def over_union(self, a, b, path, node, fn, what):
        """apply fn to every pair of alternatives; alternatives where fn is undefined (TypeError)
        become safety obligations"""
        parts = []
        for ga, va in sv.alts_of(a):
            for gb, vb in sv.alts_of(b):
                g = sv.And(ga, gb)
                if sv.is_false(sv.simp(g)):
                    continue
                try:
                    path.guards.append(g)
                    try:
                        r = fn(va, vb)
                    finally:
                        path.guards.pop()
                except _TypeErr:
                    self.safe(path, "type", sv.Not(g), node)
                    continue
                parts.append((g, r))
        if not parts:
            raise Unsupported(f"{what}: no applicable alternative", node)
        return sv.mk_union(parts)

    def binop(self, op, a, b, path, node):
        if isinstance(a, sv.SUnion) or isinstance(b, sv.SUnion):
            return self.over_union(a, b, path, node, lambda x, y: self._binop(op, x, y, path, node), "binop")
        try:
            return self._binop(op, a, b, path, node)
        except _TypeErr:
            self.definite_error(path, "type", node, f"type error in {ast.unparse(node)}")

    def _binop(self, op, a, b, path, node):
        A, B = a.__class__, b.__class__
        o = op.__class__
        num = (sv.SInt, sv.SReal, sv.SBool)
        if isinstance(a, sv.SBool) and isinstance(b, num + (sv.SPay, sv.SDelta)) and o is not ast.BitAnd and o is not ast.BitOr:
            a = sv.SInt(sv.If(a.e, z3.IntVal(1), z3.IntVal(0)))
            A = sv.SInt
        if isinstance(b, sv.SBool) and isinstance(a, num + (sv.SPay, sv.SDelta)) and o is not ast.BitAnd and o is not ast.BitOr:
            b = sv.SInt(sv.If(b.e, z3.IntVal(1), z3.IntVal(0)))
            B = sv.SInt
        if A is sv.SBool and B is sv.SBool:
            if o is ast.BitAnd:
                return sv.SBool(sv.And(a.e, b.e))
            if o is ast.BitOr:
                return sv.SBool(sv.Or(a.e, b.e))
            a = sv.SInt(sv.If(a.e, z3.IntVal(1), z3.IntVal(0)))
            b = sv.SInt(sv.If(b.e, z3.IntVal(1), z3.IntVal(0)))
            A = B = sv.SInt
        # ---- plain numbers
        if A in (sv.SInt, sv.SReal) and B in (sv.SInt, sv.SReal):
            both_int = A is sv.SInt and B is sv.SInt
            x, y = (a.e, b.e) if both_int else (sv.to_real(a.e), sv.to_real(b.e))
            R = sv.SInt if both_int else sv.SReal
            if o is ast.Add:
                return R(x + y)
            if o is ast.Sub:
                return R(x - y)
            if o is ast.Mult:
                return R(x * y)
            if o is ast.Div:
                self.safe(path, "div0", y != 0, node)
                return sv.SReal(self.rdiv(path, a.e, b.e))
            if o is ast.FloorDiv and both_int:
                self.safe(path, "div0", y != 0, node)
                return sv.SInt(self.floordiv(x, y))
            if o is ast.Mod and both_int:
                self.safe(path, "div0", y != 0, node)
                return sv.SInt(x - y * self.floordiv(x, y))
            if o is ast.Pow and z3.is_int_value(sv.simp(y)) if both_int else False:
                n = sv.simp(y).as_long()
                r = z3.IntVal(1)
                for _ in range(n):
                    r = r * x
                return sv.SInt(r)
            raise Unsupported(f"numeric operator {o.__name__}", node)
        # ---- times
        if A is sv.STime and B is sv.STime and o is ast.Sub:
            return sv.SDelta(a.e - b.e)
        if A is sv.STime and B is sv.SDelta and o in (ast.Add, ast.Sub):
            return sv.STime(a.e + b.e if o is ast.Add else a.e - b.e)
        if A is sv.SDelta and B is sv.STime and o is ast.Add:
            return sv.STime(a.e + b.e)
        if A is sv.SDelta and B is sv.SDelta:
            if o is ast.Add:
                return sv.SDelta(a.e + b.e)
            if o is ast.Sub:
                return sv.SDelta(a.e - b.e)
            if o is ast.Div:
                self.safe(path, "div0", b.e != 0, node)
                return sv.SReal(self.rdiv(path, a.e, b.e))
            if o is ast.FloorDiv:
                self.safe(path, "div0", b.e != 0, node)
                return sv.SInt(self.floordiv(a.e, b.e))
        if A is sv.SDelta and B is sv.SInt:
            if o is ast.Mult:
                return sv.SDelta(a.e * b.e)
            if o is ast.Div:
                self.safe(path, "div0", b.e != 0, node)
                return sv.SDelta(self.div_half_even(a.e, b.e))
            if o is ast.FloorDiv:
                self.safe(path, "div0", b.e != 0, node)
                return sv.SDelta(self.floordiv(a.e, b.e))
        if A is sv.SInt and B is sv.SDelta and o is ast.Mult:
            return sv.SDelta(a.e * b.e)
        if A is sv.SDelta and B is sv.SReal and o in (ast.Mult, ast.Div):
            # timedelta * float rounds to microseconds (half-even) -- modelled exactly via to-nearest
            raise Unsupported("timedelta scaled by float", node)
        # ---- payload arithmetic over the reals (numpy applies it element-wise)
        if (A is sv.SPay or B is sv.SPay) and A in (sv.SPay, sv.SInt, sv.SReal) and B in (sv.SPay, sv.SInt, sv.SReal):
            x, y = sv.to_real(a.e), sv.to_real(b.e)
            ua = getattr(a, "units", None)
            ub = getattr(b, "units", None)
            if o is ast.Add:
                return sv.SPay(x + y, ua or ub)
            if o is ast.Sub:
                return sv.SPay(x - y, ua or ub)
            if o is ast.Mult:
                return sv.SPay(x * y, self.units_mul(ua, ub))
            if o is ast.Div:
                if B is not sv.SPay:
                    self.safe(path, "div0", y != 0, node)
                return sv.SPay(self.rdiv(path, x, y), self.units_div(ua, ub))
        if A is sv.SStr and B is sv.SStr and o is ast.Add:
            if a.py is not None and b.py is not None:
                return self.const(a.py + b.py, node)
            return sv.SStr(z3.Function("str.concat", sv.StrS, sv.StrS, sv.StrS)(a.e, b.e))
        if A is sv.SStr and B is sv.SInt and o is ast.Mult:
            return sv.SStr(z3.Const(sv.uid("strrep"), sv.StrS))
        r = self.lib_binop(op, a, b, path, node)
        if r is not None:
            return r
        if isinstance(a, sv.SNone) or isinstance(b, sv.SNone):
            raise _TypeErr()
        if isinstance(a, sv._Leaf) and isinstance(b, sv._Leaf):
            raise _TypeErr()
        raise Unsupported(f"operator {o.__name__} on {a} and {b}", node)

    def rdiv(self, path, a, b):
        facts = []
        q = sv.rdiv(a, b, facts)
        for f in facts:
            path.assume(f)
        return q

    def units_mul(self, ua, ub):
        if ua is None:
            return ub
        if ub is None:
            return ua
        return ("mul", ua, ub)

    def units_div(self, ua, ub):
        if ub is None:
            return ua
        return ("div", ua, ub)

    def floordiv(self, x, y):
        # python floor division for ints (z3 div is euclidean: rounds so that remainder >= 0)
        q = x / y  # z3 int division
        return sv.If(y > 0, q, sv.If(x - y * q == 0, q, q - 1))  # z3 div is euclidean; python floors

    def div_half_even(self, a, b):
        """CPython timedelta / int: _divide_and_round (round half to even), b may be negative"""
        # normalise to positive divisor
        a2 = sv.If(b > 0, a, -a)
        b2 = sv.If(b > 0, b, -b)
        q = a2 / b2  # floor for positive divisor (z3: remainder in [0, b2))
        r = a2 - q * b2
        twice = 2 * r
        up = sv.Or(twice > b2, sv.And(twice == b2, q % 2 == 1))
        return sv.If(up, q + 1, q)

    # ------------------------------------------------------------------ comparison
    def compare(self, op, a, b, path, node):
        o = op.__class__
        if o in (ast.Is, ast.IsNot):
            r = self.identical(a, b)
            return r if o is ast.Is else sv.Not(r)
        if o in (ast.Eq, ast.NotEq):
            r = self.py_eq(a, b, path, node)
            return r if o is ast.Eq else sv.Not(r)
        if o in (ast.In, ast.NotIn):
            r = self.contains(b, a, path, node)
            return r if o is ast.In else sv.Not(r)
        if isinstance(a, sv.SUnion) or isinstance(b, sv.SUnion):
            u = self.over_union(a, b, path, node, lambda x, y: sv.SBool(self._order(o, x, y, node)), "compare")
            return self.truthy(u, path)
        try:
            return self._order(o, a, b, node)
        except _TypeErr:
            self.definite_error(path, "type", node, f"type error in comparison {ast.unparse(node)}")

    def _order(self, o, a, b, node):
        A, B = a.__class__, b.__class__
        ok = False
        if A in (sv.SInt, sv.SReal, sv.SBool) and B in (sv.SInt, sv.SReal, sv.SBool):
            x = sv.If(a.e, z3.IntVal(1), z3.IntVal(0)) if A is sv.SBool else a.e
            y = sv.If(b.e, z3.IntVal(1), z3.IntVal(0)) if B is sv.SBool else b.e
            if x.sort() != y.sort():
                x, y = sv.to_real(x), sv.to_real(y)
            ok = True
        elif A is B and A in (sv.STime, sv.SDelta):
            x, y = a.e, b.e
            ok = True
        elif A is sv.SPay and B in (sv.SPay, sv.SInt, sv.SReal) or B is sv.SPay and A in (sv.SInt, sv.SReal):
            x, y = sv.to_real(a.e), sv.to_real(b.e)
            ok = True
        if not ok:
            if isinstance(a, (sv._Leaf, sv.SNone)) and isinstance(b, (sv._Leaf, sv.SNone)):
                raise _TypeErr()
            raise Unsupported(f"ordering of {a} and {b}", node)
        if o is ast.Lt:
            return x < y
        if o is ast.LtE:
            return x <= y
        if o is ast.Gt:
            return x > y
        if o is ast.GtE:
            return x >= y
        raise Unsupported(f"comparison {o.__name__}", node)

    def identical(self, a, b):
        if isinstance(a, sv.SUnion) or isinstance(b, sv.SUnion):
            return sv.Or(*[sv.And(ga, gb, self.identical(x, y)) for ga, x in sv.alts_of(a) for gb, y in sv.alts_of(b)])
        if isinstance(a, sv.SNone) or isinstance(b, sv.SNone):
            return z3.BoolVal(isinstance(a, sv.SNone) and isinstance(b, sv.SNone))
        if isinstance(a, sv.SPy) and isinstance(b, sv.SPy):
            return z3.BoolVal(a.what == b.what and a.payload is b.payload or a.payload == b.payload)
        if sv.same_leaf(a, b):
            return a.e == b.e
        if isinstance(a, sv._Leaf) and isinstance(b, sv._Leaf):
            return z3.BoolVal(False)
        if a is b:
            return z3.BoolVal(True)
        if a.__class__ is not b.__class__ and (isinstance(a, (sv._Leaf, sv.SPy)) or isinstance(b, (sv._Leaf, sv.SPy))) \
                and not isinstance(a, sv.SUnion) and not isinstance(b, sv.SUnion):
            # objects of different kinds (a scalar / a module constant and a container or array) are never the same object
            return z3.BoolVal(False)
        raise Unsupported(f"identity test of {a} and {b}")

    def py_eq(self, a, b, path, node):
        r = self.lib_eq(a, b, path, node)
        if r is not None:
            return r
        try:
            return sv.value_eq(a, b)
        except TypeError as ex:
            raise Unsupported(str(ex), node)

    def contains(self, cont, x, path, node):
        if isinstance(cont, sv.SUnion):
            return sv.Or(*[sv.And(g, self.contains(c, x, path, node)) for g, c in cont.alts if not isinstance(c, sv.SNone)])
        if isinstance(cont, sv.SDict):
            return self.key_guarded(x, cont.dom)
        if isinstance(cont, sv.SSet):
            return self.key_guarded(x, cont.dom)
        if isinstance(cont, sv.STup):
            return sv.Or(*[sv.value_eq(x, y) for y in cont.items])
        if isinstance(cont, sv.SList):
            items = getattr(cont, "items", None)
            if items is not None:
                return sv.Or(*[sv.value_eq(x, y) for y in items])
            j = z3.Int(sv.uid("j"))
            return z3.Exists([j], sv.And(0 <= j, j < cont.n, sv.value_eq(cont.at(j), x)))
        r = self.lib_contains(cont, x, path, node)
        if r is not None:
            return r
        raise Unsupported(f"membership test in {cont}", node)

    def key_guarded(self, key, fn):
        """apply closure over key leaf expression; keys that are None / other kinds handled via union"""
        if isinstance(key, sv.SUnion):
            parts = []
            for g, k in key.alts:
                if isinstance(k, sv.SNone):
                    parts.append(sv.And(g, fn(self.none_key())))
                else:
                    parts.append(sv.And(g, fn(k.e)))
            return sv.Or(*parts)
        if isinstance(key, sv.SNone):
            return fn(self.none_key())
        if isinstance(key, sv.STup):
            return fn(self.key_expr(key))
        return fn(key.e)

    def none_key(self):
        return z3.IntVal(0)  # None as a ref key: object id 0 is reserved

    # ------------------------------------------------------------------ attribute / subscript
    def _e_Attribute(self, e, path):
        base = self.eval(e.value, path)
        return self.getattr(base, e.attr, path, e)

    def _e_Subscript(self, e, path):
        base = self.eval(e.value, path)
        if isinstance(e.slice, ast.Slice):
            return self.slice_of(base, e.slice, path, e)
        idx = self.eval(e.slice, path)
        return self.subscript(base, idx, path, e)

    def norm_index(self, lst, i, path, node):
        """python index semantics: negative indices count from the end; IndexError is a safety obligation"""
        ie = sv.simp(i.e)
        if z3.is_int_value(ie):
            act = ie if ie.as_long() >= 0 else lst.n + ie
        elif self.entails(path, ie >= 0):
            act = ie  # provably non-negative: no wrap-around
        else:
            act = sv.If(ie < 0, ie + lst.n, ie)
        self.safe(path, "index", sv.And(0 <= act, act < lst.n), node)
        return act

    def subscript(self, base, idx, path, node):
        if isinstance(base, sv.SUnion):
            parts = []
            for g, b in base.alts:
                if isinstance(b, (sv.SNone,)):
                    self.safe(path, "none", sv.Not(g), node)
                    continue
                path.guards.append(g)
                try:
                    parts.append((g, self.subscript(b, idx, path, node)))
                finally:
                    path.guards.pop()
            return sv.mk_union(parts)
        if isinstance(base, sv.SList):
            if isinstance(idx, sv.SBool):
                idx = sv.SInt(sv.If(idx.e, z3.IntVal(1), z3.IntVal(0)))
            if not isinstance(idx, sv.SInt):
                raise Unsupported(f"list index {idx}", node)
            return base.at(self.norm_index(base, idx, path, node))
        if isinstance(base, sv.STup):
            if isinstance(idx, sv.SInt):
                ie = sv.simp(idx.e)
                if z3.is_int_value(ie):
                    k = ie.as_long()
                    if not -len(base.items) <= k < len(base.items):
                        self.safe(path, "index", z3.BoolVal(False), node)
                        raise Unsupported("tuple index out of range", node)
                    return base.items[k]
                n = len(base.items)
                self.safe(path, "index", sv.And(0 <= ie, ie < n), node)
                r = base.items[-1]
                for j in range(n - 2, -1, -1):
                    r = sv.ite(ie == j, base.items[j], r)
                return r
            raise Unsupported("tuple index", node)
        if isinstance(base, sv.SDict):
            dom = self.key_guarded(idx, base.dom)
            self.safe(path, "key", dom, node)
            return self.dict_get(base, idx)
        r = self.lib_subscript(base, idx, path, node)
        if r is not None:
            return r
        raise Unsupported(f"subscript of {base}", node)

    def dict_get(self, d, key):
        if isinstance(key, sv.SUnion):
            parts = [(g, d.val(self.none_key() if isinstance(k, sv.SNone) else k.e)) for g, k in key.alts]
            r = parts[-1][1]
            for g, v in reversed(parts[:-1]):
                r = sv.ite(g, v, r)
            return r
        return d.val(self.key_expr(key))

    def slice_of(self, base, sl, path, node):
        if sl.step is not None:
            if isinstance(base, sv.STup) and sl.lower is None and sl.upper is None:
                st = sv.simp(self.eval(sl.step, path).e)
                if z3.is_int_value(st):
                    k = st.as_long()
                    return sv.STup(base.items[::k])
                # x[::rev] with rev = -1 if c else 1: case split on the two values
                k = self.choose(path, [st == -1, st == 1])
                return sv.STup(base.items[::-1] if k == 0 else base.items)
            r = self.lib_slice(base, sl, path, node)
            if r is not None:
                return r
            raise Unsupported(f"slice with step of {base}", node)
        if isinstance(base, sv.SList):
            lo = self.eval(sl.lower, path).e if sl.lower is not None else z3.IntVal(0)
            hi = self.eval(sl.upper, path).e if sl.upper is not None else base.n
            lo = sv.If(lo < 0, lo + base.n, lo)
            hi = sv.If(hi < 0, hi + base.n, hi)
            lo = sv.If(lo < 0, z3.IntVal(0), sv.If(lo > base.n, base.n, lo))
            hi = sv.If(hi < 0, z3.IntVal(0), sv.If(hi > base.n, base.n, hi))
            n = sv.If(hi > lo, hi - lo, z3.IntVal(0))
            return sv.SList(sv.simp(n), lambda i, base=base, lo=lo: base.at(i + lo), fresh=True)
        if isinstance(base, sv.STup):
            lo = self._const_int(sl.lower, path, 0)
            hi = self._const_int(sl.upper, path, len(base.items))
            return sv.STup(base.items[lo:hi])
        r = self.lib_slice(base, sl, path, node)
        if r is not None:
            return r
        raise Unsupported(f"slice of {base}", node)

    def _const_int(self, node, path, default):
        if node is None:
            return default
        v = sv.simp(self.eval(node, path).e)
        if not z3.is_int_value(v):
            raise Unsupported("symbolic slice bound on tuple", node)
        return v.as_long()

    # ------------------------------------------------------------------ containers
    def empty_dict(self, ksort=None):
        d = sv.SDict(
            sv.SList(z3.IntVal(0), lambda i: sv.NONE, fresh=True),
            lambda k: z3.BoolVal(False),
            lambda k: sv.NONE,
            lambda k: z3.IntVal(-1),
            None,
        )
        d.fresh = True
        d.ksort = ksort
        return d

    def key_expr(self, key):
        if isinstance(key, sv.SNone):
            return self.none_key()
        if isinstance(key, sv.SUnion):
            r = None
            for g, k in reversed(key.alts):
                e = self.none_key() if isinstance(k, sv.SNone) else k.e
                r = e if r is None else sv.If(g, e, r)
            return r
        if isinstance(key, sv._Leaf):
            return key.e
        if isinstance(key, sv.STup) and key.items and all(isinstance(x, sv._Leaf) for x in key.items):
            # tuple keys: an injective constructor into the opaque sort (axioms: sv.tuple_key_axioms)
            return sv.tuple_key([x.e for x in key.items])
        raise Unsupported(f"container key {key}")

    def dict_set(self, d, key, val):
        ke = self.key_expr(key)
        had = d.dom(ke)
        n = d.keys.n
        keys = sv.SList(
            sv.simp(sv.If(had, n, n + 1)),
            lambda i, d=d, had=had, n=n, key=key: sv.ite(sv.And(sv.Not(had), i == n), key, d.keys.at(i)),
            fresh=True,
        )
        nd = sv.SDict(
            keys,
            lambda k, d=d, ke=ke: sv.Or(k == ke, d.dom(k)),
            lambda k, d=d, ke=ke, val=val: sv.ite(k == ke, val, d.val(k)),
            lambda k, d=d, ke=ke, had=had, n=n: sv.If(sv.And(k == ke, sv.Not(had)), n, d.idx(k)),
            d.kwrap or (lambda k, key=key: self.rewrap_key(key, k)),
        )
        nd.ksort = ke.sort()
        nd.fresh = getattr(d, "fresh", False)
        nd.base_facts = getattr(d, "base_facts", None)
        return nd

    def rewrap_key(self, proto, k):
        if isinstance(proto, sv.SUnion):
            for _g, x in proto.alts:
                if not isinstance(x, sv.SNone):
                    proto = x
                    break
        if isinstance(proto, sv._Leaf):
            return sv.rebuild(proto, k)
        raise Unsupported(f"cannot rebuild key from {proto}")

    def dict_del(self, d, key):
        """remove a key that is present: later keys move up by one position"""
        ke = self.key_expr(key)
        pos = d.idx(ke)
        n = d.keys.n
        keys = sv.SList(sv.simp(n - 1), lambda i, d=d, pos=pos: sv.ite(i < pos, d.keys.at(i), d.keys.at(i + 1)), fresh=True)
        nd = sv.SDict(
            keys,
            lambda k, d=d, ke=ke: sv.And(k != ke, d.dom(k)),
            d.val,
            lambda k, d=d, pos=pos: sv.If(d.idx(k) > pos, d.idx(k) - 1, d.idx(k)),
            d.kwrap,
        )
        nd.ksort = getattr(d, "ksort", None)
        nd.fresh = getattr(d, "fresh", False)
        return nd

    def dict_merge(self, d, other, path):
        """d.update(other): union of the domains, values of `other` win.  The key order of the result is abstracted
        (some enumeration without repetition), which over-approximates Python's insertion order."""
        items = getattr(other.keys, "items", None)
        if items is not None and len(items) <= 6 and getattr(other, "fresh", False):
            r = d
            for k in items:
                r = self.dict_set(r, k, other.val(self.key_expr(k)))
            return r
        ks = getattr(d, "ksort", None)
        if ks is None:
            ks = getattr(other, "ksort", None)
        if ks is None:
            raise Unsupported("dict.update with unknown key sort")
        tag = sv.uid("upd")
        keyf = z3.Function(tag + ".key", sv.IntS, ks)
        idxf = z3.Function(tag + ".idx", ks, sv.IntS)
        n = z3.Int(tag + ".len")
        dom = lambda k, d=d, other=other: sv.Or(d.dom(k), other.dom(k))
        val = lambda k, d=d, other=other: sv.ite(other.dom(k), other.val(k), d.val(k))
        kwrap = d.kwrap or other.kwrap
        keys = sv.SList(n, lambda i, keyf=keyf, kwrap=kwrap: kwrap(keyf(i)), fresh=True)
        nd = sv.SDict(keys, dom, val, lambda k, idxf=idxf: idxf(k), kwrap)
        nd.ksort = ks
        i, k = z3.Int(tag + ".i"), z3.Const(tag + ".k", ks)
        path.assume(n >= 0)
        path.assume(z3.ForAll([i], sv.Implies(sv.And(0 <= i, i < n), sv.And(dom(keyf(i)), idxf(keyf(i)) == i)), patterns=[keyf(i)]))
        path.assume(z3.ForAll([k], sv.Implies(dom(k), sv.And(0 <= idxf(k), idxf(k) < n, keyf(idxf(k)) == k)), patterns=[idxf(k)]))
        return nd

    def dict_filter(self, d, pred, path, valmap=None):
        """{k: v for k, v in d.items() if P(k, v)} over a symbolic dict (key order abstracted)"""
        ks = getattr(d, "ksort", None)
        if ks is None:
            raise Unsupported("dict comprehension over a dict of unknown key sort")
        tag = sv.uid("dflt")
        keyf = z3.Function(tag + ".key", sv.IntS, ks)
        idxf = z3.Function(tag + ".idx", ks, sv.IntS)
        n = z3.Int(tag + ".len")
        dom = lambda k, d=d, pred=pred: sv.And(d.dom(k), pred(k))
        val = d.val if valmap is None else valmap
        keys = sv.SList(n, lambda i, keyf=keyf, d=d: d.kwrap(keyf(i)), fresh=True)
        nd = sv.SDict(keys, dom, val, lambda k, idxf=idxf: idxf(k), d.kwrap)
        nd.ksort = ks
        i, k = z3.Int(tag + ".i"), z3.Const(tag + ".k", ks)
        path.assume(sv.And(n >= 0, n <= d.keys.n))
        path.assume(z3.ForAll([i], sv.Implies(sv.And(0 <= i, i < n), sv.And(dom(keyf(i)), idxf(keyf(i)) == i)), patterns=[keyf(i)]))
        path.assume(z3.ForAll([k], sv.Implies(dom(k), sv.And(0 <= idxf(k), idxf(k) < n, keyf(idxf(k)) == k)), patterns=[idxf(k)]))
        return nd

    def empty_set(self):
        s = sv.SSet(lambda k: z3.BoolVal(False), z3.IntVal(0), None)
        s.fresh = True
        return s

    def set_add(self, s, x):
        ke = self.key_expr(x)
        card = None
        if s.card is not None:
            card = sv.If(s.dom(ke), s.card, s.card + 1)
        ns = sv.SSet(lambda k, s=s, ke=ke: sv.Or(k == ke, s.dom(k)), card, s.kwrap or (lambda k, x=x: self.rewrap_key(x, k)))
        ns.ksort = ke.sort()
        ns.fresh = getattr(s, "fresh", False)
        return ns

    def as_sequence(self, it, path, node):
        if isinstance(it, sv.SList):
            sq = Seq(it.n, it.at)
            if getattr(it, "key_pred", None) is not None:
                sq.key_pred = it.key_pred
            if getattr(it, "filtered_dict", None) is not None:
                sq.filtered_dict = it.filtered_dict
            return sq
        if isinstance(it, sv.STup):
            return Seq(z3.IntVal(len(it.items)), self.list_of(list(it.items)).at)
        if isinstance(it, sv.SDict):
            return Seq(it.keys.n, it.keys.at)
        if isinstance(it, sv.SPy) and it.what == "seq":
            return it.payload
        if isinstance(it, sv.SPy) and it.what == "class" and self.is_enum(it.payload):
            # iterating an Enum class: its members in definition order
            ci = it.payload
            lst = self.list_of([self.enum_member(ci, n) for n in ci.consts])
            return Seq(lst.n, lst.at)
        if isinstance(it, sv.SSet):
            # iteration over a set: some enumeration without repetition that covers the set
            tag = sv.uid("setit")
            ks = getattr(it, "ksort", None)
            if ks is None:
                ks = sv.IntS
            elem = z3.Function(tag + ".at", sv.IntS, ks)
            idx = z3.Function(tag + ".idx", ks, sv.IntS)
            n = z3.Int(tag + ".len")
            i, k = z3.Int(tag + ".i"), z3.Const(tag + ".k", ks)
            path.assume(n >= 0)
            path.assume(z3.ForAll([i], sv.Implies(sv.And(0 <= i, i < n), sv.And(it.dom(elem(i)), idx(elem(i)) == i)), patterns=[elem(i)]))
            path.assume(z3.ForAll([k], sv.Implies(it.dom(k), sv.And(0 <= idx(k), idx(k) < n, elem(idx(k)) == k)), patterns=[it.dom(k)]))
            if it.card is not None:
                path.assume(n == it.card)
            wrap = it.kwrap or (lambda e: sv.SRef(e, None))
            sq = Seq(n, lambda j, elem=elem, wrap=wrap: wrap(elem(j)))
            sq.set_src = (it, elem, idx)
            return sq
        if isinstance(it, sv.SUnion):
            # iterating None raises TypeError: that alternative becomes a safety obligation
            it2 = self.expect(it, (sv.SList, sv.SDict, sv.SSet, sv.STup), path, node, what="none")
            return self.as_sequence(it2, path, node)
        r = self.lib_sequence(it, path, node)
        if r is not None:
            return r
        raise Unsupported(f"iteration over {it}", node)

    # ------------------------------------------------------------------ comprehensions
    def _e_ListComp(self, e, path):
        return self.comprehension(e, path, "list")

    def _e_GeneratorExp(self, e, path):
        return self.comprehension(e, path, "list")

    def _e_SetComp(self, e, path):
        return self.comprehension(e, path, "set")

    def _e_DictComp(self, e, path):
        return self.comprehension(e, path, "dict")

    def comprehension(self, e, path, kind):
        if len(e.generators) != 1:
            return self.lib_comprehension(e, path, kind)
        gen = e.generators[0]
        it = self.eval(gen.iter, path)
        seq = self.as_sequence(it, path, e)
        n = sv.simp(seq.n)
        if z3.is_int_value(n) and n.as_long() <= 8:
            # concrete length: unroll
            saved = dict(path.env)
            items = []
            for i in range(n.as_long()):
                self.assign(gen.target, seq.at(z3.IntVal(i)), path)
                conds = [self.truthy(self.eval(c, path), path) for c in gen.ifs]
                c = sv.simp(sv.And(*conds))
                if sv.is_false(c):
                    continue
                if not sv.is_true(c):
                    return self.lib_comprehension(e, path, kind)
                if kind == "dict":
                    items.append((self.eval(e.key, path), self.eval(e.value, path)))
                else:
                    items.append(self.eval(e.elt, path))
            path.env = saved
            if kind == "list":
                return self.list_of(items)
            if kind == "set":
                s = self.empty_set()
                for x in items:
                    s = self.set_add(s, x)
                return s
            d = self.empty_dict()
            for k, v in items:
                d = self.dict_set(d, k, v)
            return d
        if kind == "list" and not gen.ifs and self.is_pure_expr(e.elt):
            # map over a symbolic sequence: safety obligations at a generic index, values by closure
            j = z3.Int(sv.uid("cj"))
            saved = dict(path.env)
            path.guards.append(sv.And(0 <= j, j < seq.n))
            try:
                self.assign(gen.target, seq.at(j), path)
                self.eval(e.elt, path)
            finally:
                path.guards.pop()
                path.env = saved
            env0 = dict(path.env)

            def at(i, self=self, e=e, gen=gen, seq=seq, env0=env0, path=path):
                p = path.clone()
                p.env = dict(env0)
                self.silent += 1
                try:
                    self.assign(gen.target, seq.at(i), p)
                    return self.eval(e.elt, p)
                finally:
                    self.silent -= 1

            res = sv.SList(seq.n, at, fresh=True)
            d = getattr(seq, "dict_src", None)
            if d is not None and getattr(d, "ksort", None) is not None:
                def pred(kk, self=self, e=e, gen=gen, d=d, env0=env0, path=path):
                    p = path.clone()
                    p.env = dict(env0)
                    self.silent += 1
                    try:
                        self.assign(gen.target, d.val(kk), p)
                        return self.truthy(self.eval(e.elt, p), p)
                    finally:
                        self.silent -= 1
                res.key_pred = (d, pred)
            return res
        return self.lib_comprehension(e, path, kind)

    # ------------------------------------------------------------------ purity (syntactic)
    def is_pure_expr(self, e):
        for node in ast.walk(e):
            if isinstance(node, ast.Call):
                if not self.call_is_pure_syntactic(node):
                    return False
            if isinstance(node, (ast.NamedExpr, ast.Await, ast.Yield)):
                return False
        return True


def _flat_and(e):
    """clauses of a contract formula: conjunctions are split, also below an implication / if-then-else"""
    if z3.is_app(e):
        k = e.decl().kind()
        if k == z3.Z3_OP_AND:
            out = []
            for c in e.children():
                out += _flat_and(c)
            return out
        if k == z3.Z3_OP_IMPLIES:
            return [sv.Implies(e.arg(0), c) for c in _flat_and(e.arg(1))]
        if k == z3.Z3_OP_ITE and e.arg(1).sort() == sv.BoolS:
            return [sv.Implies(e.arg(0), c) for c in _flat_and(e.arg(1))] + [sv.Implies(sv.Not(e.arg(0)), c) for c in _flat_and(e.arg(2))]
    return [e]


class _TypeErr(Exception):
    pass
