"""Shallow embedding of numpy arrays: (shape of concrete rank, index -> value closure).

Assumed numpy index-map laws (trusted base, probed natively by bnd_numpy_axioms.py):
  transpose(A)[i_r..i_1] = A[i_1..i_r];  flip_k(A)[.., i_k, ..] = A[.., n_k-1-i_k, ..]
  expand_dims / A[0, ...] / A[np.newaxis]:  add / drop a leading axis
  ravel / reshape(order): ravel_o(shape, .) is a bijection of the index box onto [0, N), with inverse unravel_o
  compress(b, v)[k] = v[sel_b(k)],  out[b] = x sets out[sel_b(k)] = x[k]; sel_b enumerates the true positions in order
  logical_not, element-wise comparison, np.all / np.any as bounded quantifiers
"""
import ast

import z3

from . import sv
from .path import Unsupported


class SArr(sv.SV):
    kind = "arr"

    def __init__(self, shape, at, dtype="real", ident=None, masked=None, units=None):
        self.shape = tuple(shape)  # tuple of z3 Int
        self.at = at  # closure: tuple of z3 Int -> z3 expr
        self.dtype = dtype  # real | bool | int
        self.ident = ident  # identity string for canonical helper functions (sel of a boolean vector)
        self.mask = masked  # None: plain ndarray; SArr(bool) / "nomask": a MaskedArray
        self.units = units  # None: not quantified

    @property
    def rank(self):
        return len(self.shape)

    def __repr__(self):
        return f"SArr(rank={self.rank}, {self.dtype}, ident={self.ident})"


def fresh_arr(name, rank, dtype="real", shape=None):
    srt = {"real": sv.RealS, "bool": sv.BoolS, "int": sv.IntS}[dtype]
    f = z3.Function(name, *([sv.IntS] * rank), srt) if rank else None
    shp = shape or tuple(z3.Int(f"{name}.n{i}") for i in range(rank))
    if rank == 0:
        c = z3.Const(name, srt)
        return SArr((), lambda idx, c=c: c, dtype, ident=name)
    return SArr(shp, lambda idx, f=f: f(*idx), dtype, ident=name)


def in_box(shape, idx):
    return sv.And(*[sv.And(0 <= i, i < n) for i, n in zip(idx, shape)])


# ---- ravel / unravel: uninterpreted bijections per (order, rank)
def ravel_fn(order, rank):
    return z3.Function(f"ravel{order}{rank}", *([sv.IntS] * (2 * rank)), sv.IntS)


def unravel_fn(order, rank, k):
    return z3.Function(f"unravel{order}{rank}_{k}", *([sv.IntS] * (rank + 1)), sv.IntS)


def size_fn(rank):
    return z3.Function(f"size{rank}", *([sv.IntS] * rank), sv.IntS)


def size_of(shape):
    if len(shape) == 0:
        return z3.IntVal(1)
    if len(shape) == 1:
        return shape[0]
    return size_fn(len(shape))(*shape)


def ravel(order, shape, idx):
    if len(shape) == 1:
        return idx[0]
    return ravel_fn(order, len(shape))(*shape, *idx)


def unravel(order, shape, n):
    if len(shape) == 1:
        return (n,)
    return tuple(unravel_fn(order, len(shape), k)(*shape, n) for k in range(len(shape)))


def ravel_axioms(ranks=(2, 3)):
    """bijection laws, and the bridge between the two orders: ravel_C(rev s, rev i) = ravel_F(s, i)"""
    out = []
    for r in ranks:
        s = [z3.Int(f"rs{k}") for k in range(r)]
        i = [z3.Int(f"ri{k}") for k in range(r)]
        n = z3.Int("rn")
        for o in ("C", "F"):
            rv = ravel(o, s, i)
            un = unravel(o, s, n)
            N = size_of(s)
            out.append(z3.ForAll(s + i, sv.Implies(in_box(s, i), sv.And(0 <= rv, rv < N, *[unravel(o, s, rv)[k] == i[k] for k in range(r)])),
                                 patterns=[rv]))
            out.append(z3.ForAll(s + [n], sv.Implies(sv.And(0 <= n, n < N), sv.And(in_box(s, un), ravel(o, s, un) == n)),
                                 patterns=[un[0]]))
        out.append(z3.ForAll(s + i, ravel("C", s[::-1], i[::-1]) == ravel("F", s, i), patterns=[ravel("F", s, i)]))
        out.append(z3.ForAll(s, sv.And(size_of(s) == size_of(s[::-1]), size_of(s) >= 0), patterns=[size_of(s)]))
    return out


# ---- selection of the true positions of a boolean vector
def sel_fns(ident):
    return (z3.Function(f"sel[{ident}]", sv.IntS, sv.IntS), z3.Function(f"rank[{ident}]", sv.IntS, sv.IntS),
            z3.Int(f"count[{ident}]"))


def sel_axioms(b):
    """b: rank-1 boolean SArr with ident"""
    sel, rnk, cnt = sel_fns(b.ident)
    k, k2, p = z3.Int("sk"), z3.Int("sk2"), z3.Int("sp")
    n = b.shape[0]
    return [
        sv.And(cnt >= 0, cnt <= n),
        z3.ForAll([k], sv.Implies(sv.And(0 <= k, k < cnt), sv.And(0 <= sel(k), sel(k) < n, b.at((sel(k),)), rnk(sel(k)) == k)), patterns=[sel(k)]),
        z3.ForAll([k, k2], sv.Implies(sv.And(0 <= k, k < k2, k2 < cnt), sel(k) < sel(k2)), patterns=[z3.MultiPattern(sel(k), sel(k2))]),
        z3.ForAll([p], sv.Implies(sv.And(0 <= p, p < n, b.at((p,))), sv.And(0 <= rnk(p), rnk(p) < cnt, sel(rnk(p)) == p)), patterns=[rnk(p)]),
    ]


# ---- numpy operations on SArr
def transpose(a):
    return SArr(a.shape[::-1], lambda idx, a=a: a.at(tuple(idx[::-1])), a.dtype, ident=f"T({a.ident})" if a.ident else None,
                masked=_map_mask(a, transpose), units=a.units)


def flip(a, axis):
    n = a.shape[axis]

    def at(idx, a=a, axis=axis, n=n):
        j = list(idx)
        j[axis] = n - 1 - j[axis]
        return a.at(tuple(j))

    return SArr(a.shape, at, a.dtype, ident=f"flip{axis}({a.ident})" if a.ident else None, masked=_map_mask(a, lambda m: flip(m, axis)), units=a.units)


def _map_mask(a, fn):
    if a.mask is None or a.mask == "nomask":
        return a.mask
    return fn(a.mask)


def expand_dims0(a):
    return SArr((z3.IntVal(1),) + a.shape, lambda idx, a=a: a.at(tuple(idx[1:])), a.dtype, ident=f"exp0({a.ident})" if a.ident else None,
                masked=_map_mask(a, expand_dims0), units=a.units)


def drop0(a):
    return SArr(a.shape[1:], lambda idx, a=a: a.at((z3.IntVal(0),) + tuple(idx)), a.dtype, ident=f"drop0({a.ident})" if a.ident else None,
                masked=_map_mask(a, drop0), units=a.units)


def ravel_arr(a, order):
    if a.rank == 1:
        return a
    N = size_of(a.shape)
    return SArr((N,), lambda idx, a=a, order=order: a.at(unravel(order, a.shape, idx[0])), a.dtype,
                ident=f"ravel{order}({a.ident})" if a.ident else None, units=a.units)


def reshape_from_flat(flat, shape, order):
    return SArr(tuple(shape), lambda idx, flat=flat, shape=tuple(shape), order=order: flat.at((ravel(order, shape, idx),)), flat.dtype,
                ident=f"reshape{order}({flat.ident})" if flat.ident else None, units=flat.units)


def logical_not(a):
    return SArr(a.shape, lambda idx, a=a: sv.Not(a.at(idx)), "bool", ident=f"not({a.ident})" if a.ident else None)


def compress(cond, data, path):
    """data.compress(cond) for rank-1 arrays"""
    if cond.ident is None:
        raise Unsupported("compress with a condition vector without identity")
    sel, _rnk, cnt = sel_fns(cond.ident)
    for ax in sel_axioms(cond):
        path.assume(ax)
    return SArr((cnt,), lambda idx, data=data, sel=sel: data.at((sel(idx[0]),)), data.dtype,
                ident=f"compress[{cond.ident}]({data.ident})" if data.ident else None, units=data.units)


def bool_assign(out, b, x, path):
    """out[b] = x  for rank-1 arrays (x has count(b) entries)"""
    if b.ident is None:
        raise Unsupported("boolean-mask assignment without identity")
    _sel, rnk, cnt = sel_fns(b.ident)
    for ax in sel_axioms(b):
        path.assume(ax)
    return SArr(out.shape, lambda idx, out=out, b=b, x=x, rnk=rnk: sv.If(b.at(idx), x.at((rnk(idx[0]),)), out.at(idx)), out.dtype,
                ident=None, units=out.units), cnt


def all_true(a, pred=None):
    idx = [z3.Int(sv.uid("ai")) for _ in range(a.rank)]
    body = a.at(tuple(idx)) if pred is None else pred(tuple(idx))
    if a.rank == 0:
        return body
    return z3.ForAll(idx, sv.Implies(in_box(a.shape, idx), body))


def eq_everywhere(a, b):
    idx = [z3.Int(sv.uid("ei")) for _ in range(a.rank)]
    return sv.And(*[x == y for x, y in zip(a.shape, b.shape)],
                  z3.ForAll(idx, sv.Implies(in_box(a.shape, idx), a.at(tuple(idx)) == b.at(tuple(idx)))) if a.rank else a.at(()) == b.at(()))


def ite_arr(c, a, b):
    """if-then-else of two arrays of the same rank and dtype"""
    if isinstance(a, SArr) and isinstance(b, SArr) and a.rank == b.rank and a.dtype == b.dtype and a.mask is None and b.mask is None:
        return SArr(tuple(sv.If(c, x, y) for x, y in zip(a.shape, b.shape)), lambda idx, a=a, b=b, c=c: sv.If(c, a.at(idx), b.at(idx)), a.dtype,
                    ident=None, units=a.units if a.units is b.units else None)
    return None


sv.ITE_HOOKS.append(ite_arr)


def slice1(a, lo, hi):
    """a[lo:hi] for a rank-1 array with 0 <= lo <= hi <= n (already normalised bounds)"""
    return SArr((hi - lo,), lambda idx, a=a, lo=lo: a.at((idx[0] + lo,)), a.dtype, ident=None, units=a.units)


def map2(a, b, fn, dtype=None):
    return SArr(a.shape, lambda idx, a=a, b=b, fn=fn: fn(a.at(idx), b.at(idx)), dtype or a.dtype, ident=None, units=a.units)


def map1(a, fn, dtype=None):
    return SArr(a.shape, lambda idx, a=a, fn=fn: fn(a.at(idx)), dtype or a.dtype, ident=None, units=a.units)
