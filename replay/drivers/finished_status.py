"""replay for sdk.Component.update (C03): a component whose _update reports FINISHED (as documented for _update) must keep that
state; here the wrapper overwrites it with UPDATED and the driver updates the component again"""
import logging
from datetime import datetime, timedelta

import finam as fm
from common import verdict

logging.disable(logging.CRITICAL)
t0 = datetime(2000, 1, 1)


class Short(fm.TimeComponent):
    """a source that runs out of data after 3 steps and says so (the way components.CsvReader does)"""

    def __init__(self):
        super().__init__()
        self._time = t0
        self.n = 0
        self.after_finish = 0

    def _next_time(self):
        return self.time + timedelta(days=1)

    def _initialize(self):
        self.outputs.add(name="Out", time=self.time, grid=fm.NoGrid(), units="")
        self.create_connector()

    def _connect(self, st):
        self.try_connect(st, push_data={"Out": 0.0})

    def _validate(self):
        pass

    def _update(self):
        self.n += 1
        if self.n > 3:
            self.after_finish += 1
            raise RuntimeError("updated after it reported FINISHED")
        self._time += timedelta(days=1)
        self.outputs["Out"].push_data(float(self.n), self.time)
        if self.n == 3:
            self.status = fm.ComponentStatus.FINISHED

    def _finalize(self):
        pass


s = Short()
comp = fm.Composition([s], print_log=False, slot_memory_location=None)
msg = None
try:
    comp.run(start_time=t0, end_time=t0 + timedelta(days=10))
    if s.status != fm.ComponentStatus.FINALIZED:
        msg = f"run returned with the component in state {s.status}"
except Exception as e:  # noqa
    msg = (f"a component that reported FINISHED in its 3rd update had status {s.status.name if hasattr(s.status, 'name') else s.status} afterwards "
           f"(Component.update overwrote FINISHED with UPDATED) and run() then {'updated it again' if s.after_finish else 'failed'}: {type(e).__name__}: {str(e)[:80]}")
verdict(msg is not None, msg or "a component that reports FINISHED is not updated again and the run ends normally")
