"""Bounded native stand-in / replay for metadata handling (C07) on the real Info / Output / Input / adapters.

1. Info.copy_with over the product  {field} x {own value set / unset} x {keyword absent / None / value} x use_none:
   the copy has the keyword's value when it is given (not None, or None with use_none=True) and the own value otherwise;
   the original is never modified.
2. A real link  Output >> [Scale] >> Input  over the product of {time, grid, units, mask, custom meta key} being
   set / unset (None) on the consumer side: after the exchange the input's info has no unset field, every field the
   consumer left unset carries the producer's value, every field the consumer fixed keeps its value, and the output side
   reports the same; conflicting values are refused with FinamMetaDataError.
Bound: 5 fields, 2 link shapes (direct, through Scale).
"""
import itertools
import json
import logging
import sys
from datetime import datetime, timedelta

import numpy as np

import finam as fm

logging.disable(logging.CRITICAL)
T0, T1 = datetime(2000, 1, 1), datetime(2001, 1, 1)


def copy_with_product(viol):
    n = 0
    g0, g1 = fm.UniformGrid((3, 2)), fm.UniformGrid((4, 3))
    m0 = np.array([[True], [False]])
    own_vals = {"time": (None, T0), "grid": (None, g0), "units": (None, "m"), "mask": (fm.Mask.FLEX, fm.Mask.NONE), "station": (None, "gauge-1")}
    kw_vals = {"time": T1, "grid": g1, "units": "km", "mask": fm.Mask.NONE, "station": "gauge-2"}
    fields = list(own_vals)
    for own_set in itertools.product((0, 1), repeat=len(fields)):
        base = {f: own_vals[f][s] for f, s in zip(fields, own_set)}
        for field in fields:
            for kw_state in ("absent", "none", "value"):
                for use_none in (True, False):
                    n += 1
                    info = fm.Info(time=base["time"], grid=base["grid"], units=base["units"], mask=base["mask"], station=base["station"])
                    before = (info.time, info.grid, info.mask, dict(info.meta))
                    kwargs = {} if kw_state == "absent" else {field: (None if kw_state == "none" else kw_vals[field])}
                    try:
                        cp = info.copy_with(use_none=use_none, **kwargs)
                    except Exception as e:  # noqa
                        viol.append(f"copy_with(use_none={use_none}, {kwargs}) raised {type(e).__name__}: {str(e)[:80]}")
                        return n
                    if (info.time, info.grid, info.mask, dict(info.meta)) != before:
                        viol.append(f"copy_with modified the original info (field {field}, {kw_state}, use_none={use_none})")
                        return n
                    for f in fields:
                        own = fm.UNITS.Unit(base[f]) if f == "units" and base[f] is not None else base[f]
                        want = own
                        if f == field and kw_state == "value":
                            want = fm.UNITS.Unit(kw_vals[f]) if f == "units" else kw_vals[f]
                        elif f == field and kw_state == "none" and use_none:
                            want = None
                        got = {"time": cp.time, "grid": cp.grid, "mask": cp.mask}.get(f, cp.meta.get(f))
                        same = (got is want) or (got == want)
                        if isinstance(same, np.ndarray):
                            same = bool(same.all())
                        if not same:
                            viol.append(f"copy_with(use_none={use_none}, {field}={kwargs.get(field, '<absent>')!r}) on an info with {f}={base[f]!r}: "
                                        f"copy has {f}={got!r}, expected {want!r}")
                            return n
    return n


def link_product(viol):
    n = 0
    grid = fm.UniformGrid((3, 2))
    prod = {"time": T0, "grid": grid, "units": "m", "mask": fm.Mask.NONE, "station": "gauge-7", "missing_value": -9999.0}
    fields = ["grid", "units", "mask", "station", "missing_value"]
    for via_adapter in (False, True):
        for cons_set in itertools.product((0, 1), repeat=len(fields)):
            for conflict in (None, "units", "grid"):
                n += 1
                cons = {f: (prod[f] if s else None) for f, s in zip(fields, cons_set)}
                if cons["mask"] is None:
                    cons["mask"] = fm.Mask.FLEX
                if conflict == "units":
                    if not cons_set[fields.index("units")]:
                        continue
                    cons["units"] = "s"
                if conflict == "grid":
                    if not cons_set[fields.index("grid")]:
                        continue
                    cons["grid"] = fm.UniformGrid((5, 4))
                out = fm.Output("o", fm.Info(time=T0, grid=prod["grid"], units=prod["units"], mask=prod["mask"], station=prod["station"], missing_value=prod["missing_value"]))
                inp = fm.Input("i", fm.Info(time=T0, grid=cons["grid"], units=cons["units"], mask=cons["mask"], station=cons["station"], missing_value=cons["missing_value"]))
                if via_adapter:
                    out >> fm.adapters.Scale(1.0) >> inp
                else:
                    out >> inp
                inp.ping()
                tag = f"adapter={via_adapter} consumer={ {f: cons[f] if f != 'grid' else (None if cons[f] is None else tuple(cons[f].dims)) for f in fields} }"
                try:
                    got = inp.exchange_info()
                except fm.FinamMetaDataError:
                    if conflict is None:
                        viol.append(f"exchange refused without a conflict: {tag}")
                        return n
                    continue
                except Exception as e:  # noqa
                    viol.append(f"exchange raised {type(e).__name__}: {str(e)[:80]}: {tag}")
                    return n
                if conflict is not None:
                    viol.append(f"exchange accepted conflicting {conflict}: {tag}")
                    return n
                ii = inp.info
                if ii.grid is None or ii.time is None or ii.mask is None or any(v is None for v in ii.meta.values()):
                    unset = [k for k, v in ii.meta.items() if v is None] + [k for k in ("grid", "time", "mask") if getattr(ii, k) is None]
                    viol.append(f"input info has unset fields after the exchange: {unset}: {tag}")
                    return n
                for f in ("station", "missing_value"):
                    if ii.meta.get(f) != prod[f]:
                        viol.append(f"input info has {f}={ii.meta.get(f)!r}, the producer delivers {prod[f]!r}: {tag}")
                        return n
                if ii.units != fm.UNITS.Unit("m") or not ii.grid.compatible_with(grid):
                    viol.append(f"input info units / grid differ from the delivered ones: {ii.units}, {ii.grid}: {tag}")
                    return n
                if ii.fill_value != -9999.0:
                    viol.append(f"input fill_value {ii.fill_value!r} differs from the producer's -9999.0: {tag}")
                    return n
    return n


def rules_and_layouts(viol):
    """(a) info rules of a component (FromInput + FromValue on the same slot) must not change an info that was already exchanged on
    another slot; (b) a consumer with a fixed mask on a compatible grid in another layout (non-square) connects iff the masks mark
    the same cells, and both ends then report the consumer's mask"""
    from finam.tools.connect_helper import FromInput, FromValue
    n = 0

    class Relay(fm.TimeComponent):
        def __init__(self, out_units):
            super().__init__()
            self._time = T0
            self._out_units = out_units

        def _next_time(self):
            return self.time + timedelta(days=1)

        def _initialize(self):
            self.inputs.add(name="In", time=T0, grid=None, units=None)
            self.outputs.add(name="Out")
            self.create_connector(out_info_rules={"Out": [FromInput("In"), FromValue("units", fm.UNITS.Unit(self._out_units))]})

        def _connect(self, start_time):
            self.try_connect(start_time, push_data={"Out": 0.0})

        def _validate(self):
            pass

        def _update(self):
            self._time += timedelta(days=1)

        def _finalize(self):
            pass

    for out_units in ("s", "km"):
        n += 1
        gen = fm.components.CallbackGenerator({"Out": (lambda t: 1.0, fm.Info(time=None, grid=fm.NoGrid(), units="m"))}, start=T0, step=timedelta(days=1))
        rel = Relay(out_units)
        cons = fm.components.DebugConsumer({"In": fm.Info(time=None, grid=fm.NoGrid(), units=None)}, start=T0, step=timedelta(days=1))
        comp = fm.Composition([gen, rel, cons], print_log=False, slot_memory_location=None)
        gen.outputs["Out"] >> rel.inputs["In"]
        rel.outputs["Out"] >> cons.inputs["In"]
        try:
            comp.connect(T0)
        except Exception as e:  # noqa
            viol.append(f"connect of generator(m) -> relay(rules FromInput + FromValue(units={out_units})) -> consumer failed: {type(e).__name__}: {str(e)[:80]}")
            return n
        got = rel.inputs["In"].info.units
        if got != fm.UNITS.Unit("m"):
            viol.append(f"after connect the relay's input reports units {got} although its source delivers m: a rule on the output slot (units={out_units}) changed the info exchanged on the input slot")
            return n
    # (a2) the same with a field rule from a second input: [FromInput("In"), FromInput("In2", ["units"])]
    # (a3) adapters answer a request for metadata without changing the request: a consumer whose grid conflicts with what the
    #      adapter delivers is refused, whatever the adapter does with its copy of the request
    for aname, mk_adapter, src_grid in (("GridToValue", lambda: fm.adapters.GridToValue(np.mean), fm.UniformGrid((4, 3))),
                                        ("Scale", lambda: fm.adapters.Scale(2.0), fm.NoGrid())):
        for cons_grid, conflict in ((fm.UniformGrid((5, 4)), True), (fm.NoGrid(1), True), (fm.NoGrid(), False)):
            n += 1
            out = fm.Output("o", fm.Info(time=T0, grid=src_grid, units="m"))
            req = fm.Info(time=T0, grid=cons_grid, units="m")
            inp = fm.Input("i", req)
            out >> mk_adapter() >> inp
            inp.ping()
            tag = f"Output({type(src_grid).__name__}) >> {aname} >> Input(grid={cons_grid.__class__.__name__}{getattr(cons_grid, 'dim', '')})"
            try:
                inp.exchange_info()
                ok = True
            except fm.FinamMetaDataError:
                ok = False
            except Exception as e:  # noqa
                viol.append(f"exchange raised {type(e).__name__}: {str(e)[:80]}: {tag}")
                return n
            if ok == conflict:
                viol.append(f"a consumer whose grid {'conflicts with' if conflict else 'matches'} the delivered one was {'accepted' if ok else 'refused'}: {tag}")
                return n
    # (b) fixed masks across layouts
    shape = (4, 3)                                     # cells of UniformGrid((5, 4))
    m = np.zeros(shape, dtype=bool)
    m[0, 1] = m[2, 0] = True
    for prod_rev, cons_rev in ((False, True), (True, False), (False, False)):
        for equal in (True, False):
            n += 1
            gp = fm.UniformGrid((5, 4), axes_reversed=prod_rev)
            gc = fm.UniformGrid((5, 4), axes_reversed=cons_rev)
            mp = m.T if prod_rev else m
            mc_cells = m if equal else np.roll(m, 1, axis=0)
            mc = mc_cells.T if cons_rev else mc_cells
            out = fm.Output("o", fm.Info(time=T0, grid=gp, units="m", mask=mp))
            inp = fm.Input("i", fm.Info(time=T0, grid=gc, units="m", mask=mc))
            out >> inp
            inp.ping()
            tag = f"producer reversed={prod_rev}, consumer reversed={cons_rev}, masks mark the same cells={equal}"
            try:
                inp.exchange_info()
                ok = True
            except fm.FinamMetaDataError:
                ok = False
            except Exception as e:  # noqa
                viol.append(f"exchange raised {type(e).__name__}: {str(e)[:80]}: {tag}")
                return n
            if ok != equal:
                viol.append(f"fixed-mask consumer {'accepted' if ok else 'refused'} the producer: {tag}")
                return n
            if ok and not np.array_equal(np.asarray(inp.info.mask), mc):
                viol.append(f"the input does not report the consumer's own mask after the exchange: {tag}")
                return n
    return n


def main():
    viol = []
    n = copy_with_product(viol)
    if not viol:
        n += link_product(viol)
    if not viol:
        n += rules_and_layouts(viol)
    return n, viol


if __name__ == "__main__":
    n, v = main()
    if "--json" in sys.argv:
        print(json.dumps({"evaluations": n, "distinct_nontrivial": n, "violations": [{"case": x} for x in v[:3]],
                          "rule": "Info.copy_with over field x own-state x keyword-state x use_none; metadata exchange over a real link (direct / through Scale) for every set/unset combination of the consumer's fields, with and without conflicts",
                          "bound": "5 fields; 2 link shapes", "exhaustive": True}))
    else:
        print(("CONFIRMED " + v[0]) if v else f"NOT-CONFIRMED no violation among {n} metadata cases")
