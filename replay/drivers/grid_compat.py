"""replay for StructuredGrid.compatible_with: grids reported compatible although their data locations differ by >= half a cell"""
import itertools
import numpy as np
import finam as fm
from common import verdict

found = None
for origin, spacing, n in itertools.product((0.0, 1000.0, 500000.0, 4.4e6), (1.0, 25.0, 1000.0), (3, 5)):
    for shift_cells in (0.5, 1, 2):
        for d in (1, 2):
            a = fm.UniformGrid((n,) * d, spacing=(spacing,) * d, origin=(origin,) * d)
            b = fm.UniformGrid((n,) * d, spacing=(spacing,) * d, origin=(origin + shift_cells * spacing,) * d)
            if a.compatible_with(b):
                found = (f"UniformGrid dims={(n,) * d} spacing={spacing} origin={origin} and the same grid shifted by {shift_cells} cell(s) "
                         f"are compatible (== is {a == b}): np.allclose compares the coordinates with rtol=1e-5 relative to their magnitude")
                break
        if found:
            break
    if found:
        break
verdict(found is not None, found or "no pair of shifted grids was reported compatible")
