"""helpers for replay drivers (run under /venv/bin/python with the real finam)"""
import json
import sys
from datetime import datetime, timedelta

EPOCH = datetime(2000, 1, 1)


def load():
    with open(sys.argv[1]) as f:
        return json.load(f)


def T(us):
    return None if us is None else EPOCH + timedelta(microseconds=int(us))


def verdict(confirmed, msg):
    print(("CONFIRMED " if confirmed else "NOT-CONFIRMED ") + msg)
    sys.exit(0)
