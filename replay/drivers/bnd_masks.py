"""Bounded native check / replay for finam.data.tools.mask (C18).

1. mask rules (mask_specified / masks_equal / masks_compatible) against an independent oracle, for every pair of
   {None, Mask.FLEX, Mask.NONE, nomask, all boolean arrays of shape (n,), n<=3, and (2,2), (2,3)/(3,2)}, without grids
   and with every layout variant (axes order reversed, decreasing axes) of a small uniform grid;
2. to_compressed / from_compressed round trip for every mask of the shapes (n,), (a,b), (a,b,c) with <= 6 cells,
   both orders, plain and masked input, plus nomask / None masks;
Bound: arrays with <= 6 entries.  Output: one JSON line (--json) or CONFIRMED / NOT-CONFIRMED.
"""
import itertools
import json
import sys

import numpy as np

import finam as fm
from finam.data.tools import Mask, from_compressed, mask_specified, masks_compatible, masks_equal, to_compressed

checks = 0
viol = []


def bad(msg):
    if len(viol) < 5:
        viol.append({"case": msg})


def all_masks(shape):
    n = int(np.prod(shape))
    for bits in itertools.product((False, True), repeat=n):
        yield np.array(bits, dtype=bool).reshape(shape)


def grids2d(nx, ny):
    """layout variants of one grid with nx x ny cells: (grid, canonical->data converter)"""
    out = []
    for rev in (False, True):
        for incx in (True, False):
            for incy in (True, False):
                g = fm.UniformGrid((nx + 1, ny + 1), axes_reversed=rev, axes_increase=[incx, incy])
                out.append(g)
    return out


def canon(g, m):
    """independent canonicalisation: value at physical cell (ix, iy)"""
    a = np.asarray(m)
    if g.axes_reversed:
        a = a.T
    for k, inc in enumerate(g.axes_increase):
        if not inc:
            a = np.flip(a, axis=k)
    return a


def oracle_equal(a, ga, b, gb):
    if a is None and b is None:
        return True
    ua, ub = a is Mask.FLEX or a is Mask.NONE, b is Mask.FLEX or b is Mask.NONE
    if ua and ub:
        return a is b
    if a is None or b is None or ua or ub:
        return False
    if a is np.ma.nomask and b is np.ma.nomask:
        return True
    if a is np.ma.nomask:
        return not b.any()
    if b is np.ma.nomask:
        return not a.any()
    if a.ndim != b.ndim:
        return False
    if ga is not None and gb is not None:
        a, b = canon(ga, a), canon(gb, b)
    return a.shape == b.shape and bool((a == b).all())


def oracle_compatible(up, gup, down, gdown):
    if up is None:
        return False
    if down is Mask.FLEX:
        return True
    if down is Mask.NONE:
        return up is Mask.NONE
    if up is Mask.FLEX or up is Mask.NONE:
        return False
    return oracle_equal(down, gdown, up, gup)


def show(m):
    if isinstance(m, np.ndarray):
        return f"array({m.astype(int).tolist()})"
    return repr(m)


def mask_rules():
    global checks
    singles = [None, Mask.FLEX, Mask.NONE, np.ma.nomask]
    arrays = [m for n in (1, 2, 3) for m in all_masks((n,))] + list(all_masks((2, 2))) + list(all_masks((1, 2)))
    for m in singles + arrays:
        checks += 1
        if bool(mask_specified(m)) != (not (m is Mask.FLEX or m is Mask.NONE)):
            bad(f"mask_specified({show(m)}) = {mask_specified(m)}")
    pool = singles + arrays
    for a in pool:
        for b in pool:
            checks += 1
            try:
                got = bool(masks_equal(a, b))
            except Exception as e:  # noqa
                got = f"{type(e).__name__}: {e}"
            exp = oracle_equal(a, None, b, None)
            if got != exp:
                bad(f"masks_equal({show(a)}, {show(b)}) = {got}, expected {exp}")
            for down in (True, False):
                checks += 1
                up_, dn_ = (a, b) if down else (b, a)
                try:
                    got = bool(masks_compatible(a, b, down))
                except Exception as e:  # noqa
                    got = f"{type(e).__name__}: {e}"
                exp = oracle_compatible(up_, None, dn_, None)
                if got != exp:
                    bad(f"masks_compatible(this={show(a)}, incoming={show(b)}, incoming_donwstream={down}) = {got}, expected {exp}")
    # with grids: masks given in the layout of their own grid
    gs = grids2d(2, 3)
    base = list(all_masks((2, 3)))
    for ga in gs:
        for gb in gs:
            for cm in base[::3]:
                for flip_bit in (None, 0, 4):
                    cb = cm.copy()
                    if flip_bit is not None:
                        cb.reshape(-1)[flip_bit] ^= True
                    # data-layout masks from canonical ones
                    a = np.asarray(ga.from_canonical(cm))
                    b = np.asarray(gb.from_canonical(cb))
                    checks += 2
                    exp = oracle_equal(a, ga, b, gb)
                    got = bool(masks_equal(a, b, ga, gb))
                    if got != exp or exp != bool((cm == cb).all()):
                        bad(f"masks_equal with grids rev={ga.axes_reversed}/{gb.axes_reversed} inc={list(ga.axes_increase)}/{list(gb.axes_increase)}: "
                            f"{show(a)} vs {show(b)} = {got}, same locations masked: {bool((cm == cb).all())}")
                    got = bool(masks_compatible(a, b, False, ga, gb))
                    if got != exp:
                        bad(f"masks_compatible with grids rev={ga.axes_reversed}/{gb.axes_reversed}: {show(a)} vs {show(b)} = {got}, expected {exp}")


def round_trip():
    global checks
    shapes = [(1,), (2,), (3,), (1, 1), (2, 2), (2, 3), (3, 2), (1, 3), (1, 2, 3), (2, 1, 2), (2, 2, 1)]
    for shape in shapes:
        n = int(np.prod(shape))
        data = np.arange(1, n + 1, dtype=float).reshape(shape) * 1.5
        for order in ("C", "F"):
            for m in all_masks(shape):
                checks += 1
                for variant in ("mask-arg", "masked-input"):
                    if variant == "mask-arg":
                        comp = to_compressed(data, order=order, mask=m)
                    else:
                        comp = to_compressed(np.ma.array(data, mask=m), order=order)
                    comp = np.asarray(comp)
                    exp = data.ravel(order)[~m.ravel(order)]
                    if comp.shape != exp.shape or not (comp == exp).all():
                        bad(f"to_compressed[{variant}] shape={shape} order={order} mask={show(m)}: {comp.tolist()} expected {exp.tolist()}")
                        continue
                    back = from_compressed(comp, shape, order=order, mask=m)
                    if not np.ma.isMaskedArray(back) or back.shape != tuple(shape) or not (np.ma.getmaskarray(back) == m).all() \
                            or not (np.asarray(back.data)[~m] == data[~m]).all():
                        bad(f"from_compressed(to_compressed(x)) shape={shape} order={order} mask={show(m)}: {back!r}")
            for m in (None, np.ma.nomask, Mask.NONE, Mask.FLEX):
                checks += 1
                comp = np.asarray(to_compressed(data, order=order, mask=m))
                if not (comp == data.ravel(order)).all():
                    bad(f"to_compressed shape={shape} order={order} mask={m!r}: {comp.tolist()}")
                back = from_compressed(comp, shape, order=order, mask=m)
                if np.asarray(back).shape != tuple(shape) or not (np.asarray(back) == data).all():
                    bad(f"from_compressed shape={shape} order={order} mask={m!r}")


def main():
    mask_rules()
    round_trip()
    return checks, viol


if __name__ == "__main__":
    n, v = main()
    if "--json" in sys.argv:
        print(json.dumps({"evaluations": n, "distinct_nontrivial": n, "violations": v,
                          "rule": "mask_specified / masks_equal / masks_compatible against an independent oracle for all pairs of mask kinds and all small boolean arrays, with and without grid layouts; to_compressed / from_compressed round trip for all masks of 11 shapes x 2 orders",
                          "bound": "arrays with <= 6 entries, 2-D grids 2x3 in 8 layouts"}))
    else:
        print(("CONFIRMED " + v[0]["case"]) if v else f"NOT-CONFIRMED no failing case among {n} checks")
