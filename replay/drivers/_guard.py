"""Wall-clock guard for runs of the real code inside the native drivers: the small compositions used there finish in milliseconds, a
run that does not return (an endless connect or update loop) is reported by the driver as a failing case instead of blocking the check."""
import signal
from contextlib import contextmanager


class RunTooLong(Exception):
    pass


@contextmanager
def limit(seconds=60.0):
    def handler(_sig, _frm):
        raise RunTooLong(f"the run did not return within {seconds:g} s")

    old = signal.signal(signal.SIGALRM, handler)
    signal.setitimer(signal.ITIMER_REAL, seconds)
    try:
        yield
    finally:
        signal.setitimer(signal.ITIMER_REAL, 0)
        signal.signal(signal.SIGALRM, old)
