"""Bounded stand-in for tools.prepare / Output>>Input payload handling (C08.4, C17.3, C18.4) on real numpy/pint.

Enumerates payload forms (scalar, list, ndarray flat / grid-shaped / with time axis, masked array, Quantity in the
info's, an equivalent and a foreign compatible unit, incompatible unit) x grids (NoGrid 0-2 D, UniformGrid 1-3 D in
both orders) x mask specifications and checks on the result of prepare() and of a real Output >> Input link:
leading time axis of length 1, grid data shape, values preserved in the grid's order, numerically converted units,
the mask demanded by the info, refusal (FinamDataError) exactly for wrong sizes / incompatible units.
"""
import itertools
import json
import sys

import numpy as np

import finam as fm
from finam.data import tools


def grids():
    yield "nogrid0", fm.NoGrid(0), ()
    yield "nogrid1", fm.NoGrid(1), (4,)
    yield "nogrid2", fm.NoGrid(2), (2, 3)
    for order in ("F", "C"):
        yield f"uni1{order}", fm.UniformGrid((4,), order=order), (3,)
        yield f"uni2{order}", fm.UniformGrid((4, 3), order=order), (3, 2)
        yield f"uni3{order}", fm.UniformGrid((3, 3, 2), order=order), (2, 2, 1)
        yield f"uni2{order}rev", fm.UniformGrid((4, 3), order=order, axes_reversed=True), (2, 3)


def main():
    n = 0
    distinct = set()
    viol = []
    classes = {}   # violations reported once per class with a canonical text (stable across grids / units)
    masked_forms = "--masked" in sys.argv
    for gname, grid, shape in grids():
        if not isinstance(grid, fm.NoGrid):
            shape = tuple(grid.data_shape)
        size = int(np.prod(shape)) if shape else 1
        base = np.arange(size, dtype=float).reshape(shape) + 1.0
        order = getattr(grid, "order", "C")
        for units, dunits, factor, compatible in (("m", None, 1.0, True), ("m", "m", 1.0, True), ("m", "meter", 1.0, True),
                                                   ("m", "km", 1000.0, True), ("m", "s", None, False), ("", None, 1.0, True)):
            for maskspec0 in ("none", "flex", "fixed", "fixed:second", "fixed:row", "fixed:last-row"):
                maskspec = maskspec0.split(":")[0]
                if maskspec == "fixed" and (not shape or isinstance(grid, fm.NoGrid)):
                    continue
                m = np.zeros(shape, dtype=bool)
                if maskspec0 == "fixed":
                    m.reshape(-1)[0] = True
                elif maskspec0 == "fixed:second":       # position 1 in C order: a different cell than position 1 in F order
                    m.reshape(-1)[min(1, size - 1)] = True
                elif maskspec0 == "fixed:row":
                    m[0, ...] = True
                    if m.all():
                        continue
                elif maskspec0 == "fixed:last-row":
                    m[..., -1] = True
                    if m.all():
                        continue
                mask = {"none": fm.Mask.NONE, "flex": fm.Mask.FLEX, "fixed": m}[maskspec]
                info = fm.Info(time=None, grid=grid, units=units, mask=mask)
                forms = {"shaped": base, "time": base[np.newaxis, ...]}
                if shape and not isinstance(grid, fm.NoGrid):
                    forms["flat"] = base.ravel(order=order)
                    forms["list"] = base.tolist()
                    forms["wrong"] = np.arange(size + 1, dtype=float)
                elif shape:
                    forms["list"] = base.tolist()
                else:
                    forms["scalar"] = 1.0
                if masked_forms and maskspec == "fixed":
                    m2 = np.zeros(shape, dtype=bool)
                    m2.reshape(-1)[-1] = True        # a different mask than the info's (size >= 2 for all gridded cases)
                    if np.array_equal(m2, m):
                        m2 = ~m
                    forms["masked-same"] = np.ma.array(base, mask=m)
                    forms["masked-same-time"] = np.ma.array(base[np.newaxis, ...], mask=m[np.newaxis, ...])
                    if size >= 2:
                        forms["masked-other"] = np.ma.array(base, mask=m2)
                for fname, payload in forms.items():
                    data = payload
                    if dunits is not None:
                        data = fm.UNITS.Quantity(payload if np.ma.isMaskedArray(payload) else np.asarray(payload), dunits)
                    n += 1
                    distinct.add((gname, units, dunits, maskspec0, fname))
                    tag = f"grid={gname} info.units={units!r} data.units={dunits!r} mask={maskspec0} form={fname}"
                    try:
                        r = tools.prepare(data, info)
                    except fm.FinamDataError:
                        if fname != "wrong" and compatible:
                            viol.append(f"prepare refused a valid payload: {tag}")
                        continue
                    except Exception as e:
                        if fname != "wrong":  # a wrong-sized payload may be refused by numpy itself
                            viol.append(f"prepare raised {type(e).__name__}: {e} [{tag}]")
                        continue
                    if fname == "wrong" and shape and not isinstance(grid, fm.NoGrid):
                        viol.append(f"prepare accepted a payload of wrong size: {tag}")
                        continue
                    if not compatible:
                        viol.append(f"prepare accepted incompatible units: {tag}")
                        continue
                    if fname == "wrong":
                        continue
                    if r.shape != (1,) + tuple(shape):
                        viol.append(f"result shape {r.shape}, expected {(1,) + tuple(shape)}: {tag}")
                        continue
                    if str(r.units) != str(fm.UNITS.Unit(units)):
                        viol.append(f"result units {r.units}: {tag}")
                    exp = base * factor
                    got = np.ma.getdata(r.magnitude)[0]
                    keep = ~m if maskspec == "fixed" else np.ones(np.shape(exp), dtype=bool)
                    if fname == "masked-other":
                        keep = keep & ~m2    # entries masked in the payload carry no data
                    mask_ok = maskspec != "fixed" or (np.ma.isMaskedArray(r.magnitude) and np.array_equal(np.ma.getmaskarray(r.magnitude)[0], m))
                    if not mask_ok and fname != "masked-other":
                        pass    # reported below as a mask violation; cells masked by mistake carry no comparable value
                    elif not np.allclose(np.asarray(got)[keep], np.asarray(exp)[keep], rtol=1e-12, atol=0):
                        viol.append(f"values changed: got {got.tolist()} expected {exp.tolist()}: {tag}")
                    if maskspec == "fixed":
                        if not np.ma.isMaskedArray(r.magnitude) or not np.array_equal(np.ma.getmaskarray(r.magnitude)[0], m):
                            if fname == "masked-other":
                                classes.setdefault("masked-other", "prepare(np.ma.array(x, mask=M2), Info(mask=M)) with M2 != M: the result keeps the payload's own mask M2, the fixed mask M of the info is not applied")
                            else:
                                got_m = np.ma.getmaskarray(r.magnitude)[0].tolist() if np.ma.isMaskedArray(r.magnitude) else None
                                if fname == "flat" and order == "F":
                                    classes.setdefault("flat-F", "prepare(flat unmasked payload, Info(grid in Fortran order, fixed mask M)): the mask is laid out in C order over the flat "
                                                       "payload before the payload is reshaped in the grid's order, so other cells than those of M end up masked"
                                                       f" (e.g. {tag}: mask {got_m}, expected {m.tolist()})")
                                else:
                                    viol.append(f"fixed mask of the info not applied: {tag}: mask {got_m}, expected {m.tolist()}")
                    if maskspec == "none" and np.ma.isMaskedArray(r.magnitude) and np.ma.getmaskarray(r.magnitude).any():
                        viol.append(f"masked values under Mask.NONE: {tag}")
                    if viol:
                        break
                if viol:
                    break
            if viol:
                break
        if viol:
            break
    if masked_forms and not viol:
        # an Info object that was used while its mask was flexible and is then given a fixed mask (users keep Info objects)
        g = fm.UniformGrid((4, 3))
        info = fm.Info(time=None, grid=g, units="m", mask=fm.Mask.FLEX)
        a = np.arange(6, dtype=float).reshape(g.data_shape)
        tools.prepare(a.copy(), info)
        M = np.zeros(g.data_shape, dtype=bool)
        M[1, 1] = True
        info.mask = M
        r = tools.prepare(a.copy(), info)
        n += 1
        if not np.ma.isMaskedArray(r.magnitude) or not np.array_equal(np.ma.getmaskarray(r.magnitude)[0], M):
            viol.append("an Info that was used with a flexible mask and then given a fixed mask M (info.mask = M): prepare does not apply M afterwards")
    viol = viol[:3] + sorted(classes.values())
    res = {"evaluations": n, "distinct_nontrivial": len(distinct), "violations": [{"case": v} for v in viol],
           "rule": "payload forms x grids x unit pairs x mask specifications on real numpy/pint (exhaustive over the listed product); distinct = (grid, units, data units, mask, form)",
           "bound": "grids: NoGrid 0-2D, UniformGrid 1-3D both orders; 6 unit pairs; mask specifications NONE / FLEX / 4 fixed patterns; 5 payload forms (+3 masked forms)", "exhaustive": True}
    if "--json" in sys.argv:
        print(json.dumps(res))
    else:
        print(("CONFIRMED " + viol[0]) if viol else f"NOT-CONFIRMED no violation among {n} prepare() calls")


if __name__ == "__main__":
    main()
