"""replay for the needs_push / needs_pull flags (C19.0): a pull-only source in front of an adapter that only works
when it is notified must be rejected by connect(); here it is accepted and the consumer silently receives stale data"""
import logging
from datetime import datetime, timedelta

import finam as fm
from common import verdict

logging.disable(logging.CRITICAL)
t0 = datetime(2000, 1, 1)


class Src(fm.Component):
    def _initialize(self):
        self.outputs.add(fm.CallbackOutput(callback=lambda caller, t: float((t - t0).days), name="o", time=None, grid=fm.NoGrid()))
        self.create_connector()

    def _connect(self, st):
        self.try_connect(st)

    def _validate(self):
        pass

    def _update(self):
        pass

    def _finalize(self):
        pass


found = None
for name in ("DelayToPush", "NextTime", "LinearTime", "SumOverTime"):
    ad = getattr(fm.adapters, name)()
    got = []
    cons = fm.components.DebugConsumer({"i": fm.Info(time=None, grid=fm.NoGrid())}, start=t0, step=timedelta(days=1),
                                       callbacks={"i": lambda n, d, t: got.append(float(d.magnitude.reshape(-1)[0]))})
    src = Src()
    comp = fm.Composition([src, cons])
    src.outputs["o"] >> ad >> cons.inputs["i"]
    try:
        comp.run(end_time=t0 + timedelta(days=3))
    except fm.FinamConnectError:
        continue
    except Exception as e:  # noqa
        found = f"CallbackOutput >> {name} >> Input: connect() accepted the dead link, the run failed later with {type(e).__name__}"
        break
    found = (f"CallbackOutput >> {name} >> Input: connect() accepted the dead link ({name} acts on notifications but reports needs_push={ad.needs_push}); "
             f"the consumer received {got} for days 0..3 (stale: the pull-only source never notifies the adapter)")
    break
verdict(found is not None, found or "every push-dependent adapter behind a pull-only source was rejected by connect()")
