"""Bounded native stand-in / replay for composition validation (C19) on the real finam classes.

Random topologies: 1-3 listed components (+ optionally one that is linked but not listed), each with 0-2 inputs
(plain / callback, static or not) and 0-2 outputs (plain / callback, static or not); every input is left unconnected
or connected to some output through a chain of 0-3 adapters (Scale, DelayFixed, DelayToPull [no-branch], NextTime and
LinearTime [no-branch, need pushes]); chains share prefixes, so fan-out occurs at outputs and at adapters.
_collect_adapters() + _validate_composition() of the real Composition are compared with an independent oracle of
the five rules of the property; for accepted topologies that can run, a full connect() is done and
composition.metadata['links'] is compared with the links that were created; for rejected ones connect() must raise
FinamConnectError before any data was pushed or pulled.
Bound: <= 4 components, <= 2 slots each, chains of <= 3 adapters; VERIF_SEED selects the sample (default 400 cases).
"""
import json
import logging
import os
import random
import sys
from datetime import datetime, timedelta

import finam as fm

logging.disable(logging.CRITICAL)
T0 = datetime(2000, 1, 1)
# per-slot metadata (needs exchanged infos) is not under test here: only the link enumeration of Composition.metadata
fm.sdk.adapter.Adapter.metadata = property(lambda self: {})
fm.sdk.component.Component.metadata = property(lambda self: {})
ADAPTERS = ["Scale", "DelayFixed", "DelayToPull", "NextTime", "LinearTime"]
NO_BRANCH = {"DelayToPull", "NextTime", "LinearTime"}
NEEDS_PUSH = {"NextTime", "LinearTime"}


def make_adapter(kind):
    a = fm.adapters
    return {"Scale": lambda: a.Scale(2.0), "DelayFixed": lambda: a.DelayFixed(timedelta(days=1)), "DelayToPull": lambda: a.DelayToPull(steps=1),
            "NextTime": lambda: a.NextTime(), "LinearTime": lambda: a.LinearTime()}[kind]()


class Stub(fm.TimeComponent):
    """component with arbitrary slots; it is only initialised and validated, never run"""

    def __init__(self, name, ins, outs):
        super().__init__()
        self._nm, self._ins, self._outs = name, ins, outs
        self._time = T0

    @property
    def name(self):
        return self._nm

    def _next_time(self):
        return self.time + timedelta(days=1)

    def _initialize(self):
        for nm, (cb, static) in self._ins.items():
            if cb:
                self.inputs.add(fm.CallbackInput(callback=lambda *a: None, name=nm, time=T0, grid=fm.NoGrid()))
            else:
                self.inputs.add(name=nm, time=None if static else T0, grid=fm.NoGrid(), static=static)
        for nm, (cb, static) in self._outs.items():
            if cb:
                self.outputs.add(fm.CallbackOutput(callback=lambda *a: 1.0, name=nm, time=T0, grid=fm.NoGrid()))
            else:
                self.outputs.add(name=nm, time=None if static else T0, grid=fm.NoGrid(), static=static)
        self.create_connector()

    def _connect(self, start_time):
        self.try_connect(start_time)

    def _validate(self):
        pass

    def _update(self):
        pass

    def _finalize(self):
        pass


def gen_case(rng):
    ncomp = rng.randint(1, 3)
    foreign = rng.random() < 0.25
    comps = []
    for c in range(ncomp + (1 if foreign else 0)):
        ins = {f"i{k}": (rng.random() < 0.2, rng.random() < 0.15) for k in range(rng.randint(0, 2))}
        outs = {f"o{k}": (rng.random() < 0.25, rng.random() < 0.15) for k in range(rng.randint(0, 2))}
        # callback slots cannot be static
        ins = {k: (cb, static and not cb) for k, (cb, static) in ins.items()}
        outs = {k: (cb, static and not cb) for k, (cb, static) in outs.items()}
        comps.append((f"C{c}", ins, outs))
    outs_all = [(c, o) for c, (_n, _i, outs) in enumerate(comps) for o in outs]
    # every input: None (unconnected) or (source output, adapter chain as list of kinds); chains may share prefixes
    links = {}
    pool = []       # chains already created, to share prefixes: (out, tuple(kinds))
    for c, (_n, ins, _o) in enumerate(comps):
        for i in ins:
            if not outs_all or rng.random() < 0.12:
                links[(c, i)] = None
                continue
            if pool and rng.random() < 0.45:
                out, kinds = rng.choice(pool)
                cut = rng.randint(0, len(kinds))
                kinds = list(kinds[:cut]) + [rng.choice(ADAPTERS) for _ in range(rng.randint(0, 1))]
                share = cut
            else:
                out = rng.choice(outs_all)
                kinds = [rng.choice(ADAPTERS) for _ in range(rng.choice([0, 0, 1, 1, 2, 3]))]
                share = 0
            links[(c, i)] = (out, tuple(kinds), share)
            pool.append((out, tuple(kinds)))
    return comps, ncomp, links


def build(case, link_order=None, listing=None):
    comps, ncomp, links = case
    objs = [Stub(n, i, o) for n, i, o in comps]
    listed = objs[:ncomp] if listing is None else [objs[k] for k in listing]
    composition = fm.Composition(listed, print_log=False, slot_memory_location=None)
    if link_order is not None:
        links = {k: links[k] for k in link_order}
    for extra in objs[ncomp:]:
        extra.initialize()
    created = {}      # (out, kinds prefix) -> adapter object
    edges = []        # (source object, target object)
    for (c, i), lk in links.items():
        if lk is None:
            continue
        (oc, on), kinds, _share = lk
        cur = objs[oc].outputs[on]
        for k in range(len(kinds)):
            key = ((oc, on), kinds[: k + 1])
            if key not in created:
                ad = make_adapter(kinds[k])
                cur >> ad
                edges.append((cur, ad, oc))
                created[key] = ad
            cur = created[key]
        cur >> objs[c].inputs[i]
        edges.append((cur, objs[c].inputs[i], oc))
    return composition, objs, edges, created


def oracle(case):
    """set of rule names violated by the topology (independent of finam's walkers)"""
    comps, ncomp, links = case
    bad = set()
    fan = {}          # node -> number of direct targets; nodes: ("out", c, o) or ("ad", out, prefix)
    for (c, i), lk in links.items():
        cb_in, static_in = comps[c][1][i]
        if lk is None:
            if c < ncomp:
                bad.add("unconnected")
            continue
        (oc, on), kinds, _ = lk
        cb_out, static_out = comps[oc][2][on]
        if c < ncomp and static_in and not static_out:
            bad.add("static")
        if (c < ncomp) != (oc < ncomp):
            bad.add("foreign")
        # dead link: a pull-only element (CallbackOutput) followed downstream by one that needs pushes
        if c < ncomp and cb_out and (any(k in NEEDS_PUSH for k in kinds) or cb_in):
            bad.add("dead-link")
        nodes = [("out", oc, on)] + [("ad", (oc, on), kinds[: k + 1]) for k in range(len(kinds))]
        for a, b in zip(nodes, nodes[1:] + [("in", c, i)]):
            fan.setdefault(a, set()).add(b)
    for (c, i), lk in links.items():
        if lk is None:
            continue
        (oc, on), kinds, _ = lk
        if oc >= ncomp:
            continue      # branching is checked from the outputs of listed components
        nb = False
        nodes = [("out", oc, on)] + [("ad", (oc, on), kinds[: k + 1]) for k in range(len(kinds))]
        for k, nd in enumerate(nodes):
            if k > 0 and kinds[k - 1] in NO_BRANCH:
                nb = True
            if nb and len(fan.get(nd, ())) > 1:
                bad.add("branching")
    return bad


def classify(msg):
    m = msg.lower()
    for key, rule in (("unconnected input", "unconnected"), ("static input", "static"), ("not added to this composition", "foreign"),
                      ("disallowed branching", "branching"), ("dead link", "dead-link")):
        if key in m:
            return rule
    return "other:" + msg[:60]


def main():
    seed = int(os.environ.get("VERIF_SEED", "0") or 0)
    n = 2500 if ("--tier" in sys.argv and sys.argv[sys.argv.index("--tier") + 1] == "thorough") else 400
    rng = random.Random(seed)
    viol, stats = [], {"cases": 0, "rejected": 0, "accepted": 0, "links": 0}
    seen_rules = set()
    for _ in range(n):
        case = gen_case(rng)
        exp = oracle(case)
        stats["cases"] += 1
        composition, objs, edges, created = build(case)
        got = None
        try:
            composition._collect_adapters()
            composition._validate_composition()
        except fm.FinamConnectError as e:
            got = classify(str(e))
        except Exception as e:  # noqa
            got = f"{type(e).__name__}: {str(e)[:80]}"
        desc = f"components={case[0][:case[1]]} unlisted={case[0][case[1]:]} links={ {f'C{c}.{i}': v for (c, i), v in case[2].items()} }"
        # C05: the outcome (accepted / which error class) must not depend on the order in which links are created or
        # components are listed
        keys = list(case[2].keys())
        for variant in range(2):
            lo = list(reversed(keys)) if variant == 0 else rng.sample(keys, len(keys))
            li = list(range(case[1]))
            rng.shuffle(li)
            c3, _o3, _e3, _c3 = build(case, link_order=lo, listing=li)
            got3 = None
            try:
                c3._collect_adapters()
                c3._validate_composition()
            except fm.FinamConnectError as e:
                got3 = "FinamConnectError"
            except Exception as e:  # noqa
                got3 = type(e).__name__
            base_cls = None if got is None else ("FinamConnectError" if not got.startswith(("other:",)) and ":" not in got else got.split(":")[0])
            if (got3 is None) != (got is None) or (got3 is not None and base_cls is not None and got3 != base_cls):
                viol.append(f"outcome depends on the order of linking / listing: {got!r} in creation order, {got3!r} with links created as {lo} and components listed as {li}: {desc}")
                break
        if exp:
            stats["rejected"] += 1
            seen_rules |= exp
            if got is None:
                viol.append(f"validation accepted a topology that violates {sorted(exp)}: {desc}")
            elif got not in exp:
                viol.append(f"validation raised '{got}', the topology violates {sorted(exp)}: {desc}")
            else:
                # the same error must come from connect(), before any data moved
                c2, objs2, _e2, _c2 = build(case)
                pushed = []
                for o in objs2:
                    for out in o.outputs.values():
                        orig = out.push_data
                        out.push_data = lambda *a, _o=orig, **k: (pushed.append(1), _o(*a, **k))[1]
                try:
                    c2.connect(T0)
                    viol.append(f"connect() accepted a topology that violates {sorted(exp)}: {desc}")
                except fm.FinamConnectError:
                    if pushed:
                        viol.append(f"data was pushed before connect() rejected the topology: {desc}")
                except Exception as e:  # noqa
                    viol.append(f"connect() raised {type(e).__name__} instead of FinamConnectError for {sorted(exp)}: {desc}")
        else:
            stats["accepted"] += 1
            if got is not None:
                viol.append(f"validation rejected a workable topology with '{got}': {desc}")
            else:
                # link list reported after validation == links created (metadata needs a connected composition: emulate the
                # owner maps that connect() builds, the enumeration code is the real one)
                from finam.schedule import _map_inputs, _map_outputs
                composition._input_owners = _map_inputs(composition._components)
                composition._output_owners = _map_outputs(composition._components)
                composition._is_connected = True
                try:
                    links = composition.metadata["links"]
                except Exception as e:  # noqa
                    viol.append(f"metadata raised {type(e).__name__}: {str(e)[:80]}: {desc}")
                    links = None
                if links is not None:
                    def key_of(x):
                        if isinstance(x, fm.sdk.Adapter):
                            return ("adapter", id(x))
                        return ("slot", id(x))
                    want = sorted((key_of(a), key_of(b)) for a, b, root in edges if root < case[1])   # links below listed components
                    slots_out = {(f"{o.name}@{id(o)}", nm): out for o in objs for nm, out in o.outputs.items()}
                    slots_in = {(f"{o.name}@{id(o)}", nm): inp for o in objs for nm, inp in o.inputs.items()}
                    have = []
                    for l in links:
                        f, t = l["from"], l["to"]
                        a = ("adapter", int(f["adapter"].split("@")[1])) if "adapter" in f else ("slot", id(slots_out[(f["component"], f["output"])]))
                        b = ("adapter", int(t["adapter"].split("@")[1])) if "adapter" in t else ("slot", id(slots_in[(t["component"], t["input"])]))
                        have.append((a, b))
                    stats["links"] += len(want)
                    if sorted(have) != want:
                        viol.append(f"metadata reports {len(have)} links, {len(want)} were created (missing {len(set(want) - set(have))}, extra {len(set(have) - set(want))}): {desc}")
        if len(viol) >= 3:
            break
    stats["rules_seen"] = sorted(seen_rules)
    return stats, viol


if __name__ == "__main__":
    st, v = main()
    if "--json" in sys.argv:
        print(json.dumps({"evaluations": st["cases"], "distinct_nontrivial": st["rejected"], "violations": [{"case": x} for x in v[:3]],
                          "rule": f"random topologies on the real Composition, validation outcome against an oracle of the five rules; rejected {st['rejected']}, accepted {st['accepted']} ({st['links']} links compared with metadata); rules exercised: {st['rules_seen']}",
                          "bound": "<= 4 components, <= 2 inputs/outputs each, chains of <= 3 adapters of 5 kinds"}))
    else:
        print(("CONFIRMED " + v[0]) if v else f"NOT-CONFIRMED {st['cases']} topologies: {st['rejected']} rejected as the oracle demands, {st['accepted']} accepted, {st['links']} links match metadata; rules seen {st['rules_seen']}")
