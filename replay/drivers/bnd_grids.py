"""Bounded stand-in for C14 / C15 on real grids: every layout of small structured grids.

Enumerates uniform / rectilinear / ESRI grids with 1-3 dimensions (axis lengths 1..4 points), order C/F, axes_reversed,
per-axis direction, data location cells/points and checks on real numpy:
  C14  data[i] of an array in data_shape is located at data_axes[k][i_k]; equals data_points[ravel(i, grid.order)];
       cell centres = mean of the cell's nodes; cells reference existing points; to_unstructured() keeps points, cells and
       data points; data_shape / data_size / data_points follow data_location changes (also after reads and copies)
  C15  to_canonical/from_canonical round trip, canonical data indexed x,y,z along increasing axes; compatible_with <=> same set
       of data locations (tolerance: half the smallest spacing); through a real Output >> Input link between two layouts of
       one geometry every value arrives at the same physical location (data with leading time axis), equal layouts untouched
"""
import itertools
import json
import sys

import numpy as np

import finam as fm
from finam.data.grid_spec import RectilinearGrid, UniformGrid, EsriGrid
from finam import Location


def layouts(dims):
    d = len(dims)
    for order in ("F", "C"):
        for rev in (False, True):
            for inc in itertools.product((True, False), repeat=d):
                for loc in (Location.CELLS, Location.POINTS):
                    yield order, rev, inc, loc


def make(kind, dims, order, rev, inc, loc):
    d = len(dims)
    if kind == "uniform":
        return UniformGrid(dims, spacing=tuple([1.0, 2.0, 0.5][:d]), origin=tuple([10.0, -3.0, 7.0][:d]), order=order,
                           axes_reversed=rev, axes_increase=list(inc), data_location=loc)
    axes = [np.cumsum(np.array([1.0, 0.5, 2.0, 1.5][:n])) + 3.0 * k for k, n in enumerate(dims)]
    axes = [a if up else a[::-1] for a, up in zip(axes, inc)]
    return RectilinearGrid(axes, order=order, axes_reversed=rev, data_location=loc)


def located(grid):
    """dict: physical coordinate (rounded tuple) -> multi-index of the data array, from data_axes"""
    axes = grid.data_axes
    out = {}
    for idx in np.ndindex(*grid.data_shape):
        coord = [float(axes[k][i]) for k, i in enumerate(idx)]
        if grid.axes_reversed:
            coord = coord[::-1]
        out[tuple(np.round(coord, 9))] = idx
    return out


def check_grid(kind, dims, order, rev, inc, loc, viol):
    tag = f"{kind} dims={dims} order={order} reversed={rev} increase={inc} location={loc.name}"
    g = make(kind, dims, order, rev, inc, loc)
    shp = tuple(int(x) for x in g.data_shape)
    ax_shp = tuple(len(a) for a in g.data_axes)
    if shp != ax_shp:
        viol.append(f"C14 data_shape {shp} contradicts the lengths of data_axes {ax_shp}: {tag}")
        return
    # --- C14: index -> coordinate -> flattened data_points
    loc_map = located(g)
    dp = np.asarray(g.data_points)
    for coord, idx in loc_map.items():
        flat = np.ravel_multi_index(idx, shp, order=g.order) if shp else 0
        p = tuple(np.round(dp[flat][: len(coord)], 9))
        if p != coord:
            viol.append(f"C14 data_points[{flat}] = {p} but data[{idx}] is located at {coord}: {tag}")
            return
    if int(g.data_size) != int(np.prod(shp)) or len(dp) != int(np.prod(shp)):
        viol.append(f"C14 data_size/data_points inconsistent with data_shape: {tag}")
        return
    # cells reference existing points, centres are node means
    cells, pts = np.asarray(g.cells), np.asarray(g.points)
    if cells.size and (cells.min() < 0 or cells.max() >= len(pts)):
        viol.append(f"C14 cell references a missing point: {tag}")
        return
    cc = np.asarray(g.cell_centers)
    for k in range(len(cells)):
        nodes = cells[k][cells[k] >= 0]
        if not np.allclose(cc[k], pts[nodes].mean(axis=0), atol=1e-9):
            viol.append(f"C14 cell_centers[{k}] != mean of its nodes: {tag}")
            return
    u = g.to_unstructured()
    if not (np.allclose(np.asarray(u.data_points), dp) and np.allclose(np.asarray(u.points), pts) and np.array_equal(np.asarray(u.cells), cells)):
        viol.append(f"C14 to_unstructured() changes points / cells / data points: {tag}")
        return
    # --- C14.3: location changes after reads and copies
    g2 = g.copy()
    _ = (g2.data_shape, g2.data_size, len(g2.data_points))
    other = Location.POINTS if loc == Location.CELLS else Location.CELLS
    g2.data_location = other
    ref = make(kind, dims, order, rev, inc, other)
    if tuple(g2.data_shape) != tuple(ref.data_shape) or int(g2.data_size) != int(ref.data_size) or len(g2.data_points) != len(ref.data_points):
        viol.append(f"C14 data_shape/data_size/data_points do not follow a data_location change "
                    f"({tuple(g2.data_shape)}, {g2.data_size} vs {tuple(ref.data_shape)}, {ref.data_size}): {tag}")
        return
    # --- C15.1 canonical form
    a = np.arange(int(np.prod(shp)), dtype=float).reshape(shp)
    can = g.to_canonical(a)
    back = g.from_canonical(can)
    if not np.array_equal(back, a):
        viol.append(f"C15 from_canonical(to_canonical(A)) != A: {tag}")
        return
    cs = sorted(loc_map)  # canonical order: x, y, z increasing
    xs = [sorted({c[k] for c in cs}) for k in range(len(shp))]
    for coord, idx in loc_map.items():
        cidx = tuple(xs[k].index(coord[k]) for k in range(len(shp)))
        if can[cidx] != a[idx]:
            viol.append(f"C15 canonical[{cidx}] != data[{idx}] (same location {coord}): {tag}")
            return


def check_pair(kind, dims, la, lb, viol):
    ga, gb = make(kind, dims, *la), make(kind, dims, *lb)
    tag = f"{kind} dims={dims} source={la[:3]} target={lb[:3]} location={la[3].name}"
    if not ga.compatible_with(gb) or not gb.compatible_with(ga):
        viol.append(f"C15 two layouts of one geometry are not compatible: {tag}")
        return
    # (a degenerate axis has no direction: finam normalises its flag to increasing)
    eff = lambda lay: (lay[1], tuple(up or dims[k] == 1 for k, up in enumerate(lay[2])))
    if (ga == gb) != (eff(la) == eff(lb)):
        # equal iff same axes_reversed and directions (order does not matter for structured grids)
        viol.append(f"C15 grid equality wrong ({ga == gb}): {tag}")
        return
    # through a real link, data with a leading time axis
    from datetime import datetime
    t0 = datetime(2000, 1, 1)
    out = fm.Output("o", fm.Info(time=t0, grid=ga, units="m"))
    inp = fm.Input("i", fm.Info(time=t0, grid=gb, units="m"))
    out >> inp
    inp.ping()
    try:
        inp.exchange_info()
        a = np.arange(int(np.prod(ga.data_shape)), dtype=float).reshape(tuple(int(x) for x in ga.data_shape))
        out.push_data(a, t0)
        r = inp.pull_data(t0).magnitude
    except Exception as e:
        viol.append(f"C15 link between compatible layouts failed: {type(e).__name__}: {str(e)[:80]}: {tag}")
        return
    la_map, lb_map = located(ga), located(gb)
    if r.shape != (1,) + tuple(int(x) for x in gb.data_shape):
        viol.append(f"C15 delivered shape {r.shape}: {tag}")
        return
    for coord, ia in la_map.items():
        if r[(0,) + lb_map[coord]] != a[ia]:
            viol.append(f"C15 value at {coord} moved: source[{ia}]={a[ia]} delivered[{lb_map[coord]}]={r[(0,) + lb_map[coord]]}: {tag}")
            return
    # masked data: the mask travels with the values
    from datetime import timedelta
    t1 = t0 + timedelta(days=1)
    m = (a % 3 == 0)
    try:
        out.push_data(np.ma.array(a + 100.0, mask=m), t1)
        r2 = inp.pull_data(t1).magnitude
    except Exception as e:
        viol.append(f"C15 link with masked data failed: {type(e).__name__}: {str(e)[:80]}: {tag}")
        return
    rm = np.ma.getmaskarray(r2)
    for coord, ia in la_map.items():
        ib = (0,) + lb_map[coord]
        if bool(rm[ib]) != bool(m[ia]) or (not m[ia] and np.ma.getdata(r2)[ib] != a[ia] + 100.0):
            viol.append(f"C15 masked data: location {coord} source masked={bool(m[ia])} delivered masked={bool(rm[ib])} value={np.ma.getdata(r2)[ib]}: {tag}")
            return


def check_unstructured(viol):
    """unstructured meshes with mixed cell types (cells of fewer nodes are padded with -1): centres, data points, casting"""
    n = 0
    NN = {int(fm.CellType.TRI): 3, int(fm.CellType.QUAD): 4}
    pts = np.array([[0.0, 0.0], [1.5, 0.0], [1.5, 1.2], [0.0, 1.2], [3.0, 0.3], [3.2, 1.9], [1.4, 2.4], [0.1, 2.2]])
    meshes = {
        "quad+3 tri": (np.array([[0, 1, 2, 3], [1, 4, 2, -1], [4, 5, 2, -1], [3, 2, 6, -1]]), [fm.CellType.QUAD] + [fm.CellType.TRI] * 3),
        "tri first": (np.array([[1, 4, 2, -1], [0, 1, 2, 3], [3, 2, 6, 7]]), [fm.CellType.TRI, fm.CellType.QUAD, fm.CellType.QUAD]),
        "all tri": (np.array([[0, 1, 2], [0, 2, 3], [1, 4, 2]]), [fm.CellType.TRI] * 3),
    }
    for name, (cells, types) in meshes.items():
        for loc in (Location.CELLS, Location.POINTS):
            n += 1
            tag = f"unstructured {name} location={loc.name}"
            g = fm.UnstructuredGrid(points=pts, cells=cells, cell_types=np.array(types), data_location=loc)
            want = np.array([pts[c[: NN[int(t)]]].mean(axis=0) for c, t in zip(cells, types)])
            if not np.allclose(np.asarray(g.cell_centers), want, atol=1e-12):
                viol.append(f"C14 cell_centers != mean of the cell's nodes: {np.asarray(g.cell_centers).tolist()} expected {want.tolist()}: {tag}")
                return n
            dp = want if loc == Location.CELLS else pts
            if tuple(g.data_shape) != (len(dp),) or int(g.data_size) != len(dp) or not np.allclose(np.asarray(g.data_points), dp):
                viol.append(f"C14 data_points / data_shape do not follow the data location: {tag}")
                return n
            g2 = g.copy()
            _ = (g2.data_shape, g2.data_size)
            g2.data_location = Location.POINTS if loc == Location.CELLS else Location.CELLS
            dp2 = pts if loc == Location.CELLS else want
            if tuple(g2.data_shape) != (len(dp2),) or not np.allclose(np.asarray(g2.data_points), dp2):
                viol.append(f"C14 data shape / points do not follow a data_location change: {tag}")
                return n
            if not g.compatible_with(g.copy()) or g.compatible_with(g2):
                viol.append(f"C15 compatible_with wrong for a copy / a copy with another data location: {tag}")
                return n
    return n


def check_delivery_identity(viol):
    """what an input delivered for one time must not change when it is pulled again (C15 / C08: the located values of a delivery)"""
    import datetime as _dt
    n = 0
    t0 = _dt.datetime(2000, 1, 1)
    ga = UniformGrid((4, 3))
    for gb in (UniformGrid((4, 3), axes_reversed=True), UniformGrid((4, 3), axes_increase=[True, False]), UniformGrid((4, 3))):
        for masked in (False, True):
            n += 1
            m = np.zeros(ga.data_shape, dtype=bool)
            m[0, 0] = masked
            out = fm.Output("o", fm.Info(time=t0, grid=ga, units="m", mask=(m if masked else fm.Mask.NONE)))
            inp = fm.Input("i", fm.Info(time=t0, grid=gb, units="m", mask=fm.Mask.FLEX))
            out >> inp
            inp.ping()
            inp.exchange_info()
            first = None
            for k in range(3):
                t = t0 + _dt.timedelta(days=k)
                a = np.arange(6, dtype=float).reshape(ga.data_shape) + 10.0 * k
                out.push_data(np.ma.array(a, mask=m) if masked else a, t)
                got = inp.pull_data(t)
                if k == 0:
                    first = got
                    snapshot = np.ma.getdata(got.magnitude).copy()
            if not np.array_equal(np.ma.getdata(first.magnitude), snapshot):
                viol.append(f"the data delivered for the first time changed when the input was pulled again (consumer layout reversed={gb.axes_reversed}, "
                            f"increase={list(map(bool, gb.axes_increase))}, masked={masked}): the input hands out the same array object for every pull")
                return n
    return n


def check_constructor_purity(viol):
    """building a grid must not change the arrays it is built from: the same call twice gives the same grid (C14: the index-to-coordinate
    mapping of a grid is a function of the constructor arguments)"""
    n = 0
    for dtype in (float, int):
        for inc in ((False,), (True, False), (False, False), (False, True, False)):
            n += 1
            axes = [np.array([0, 1, 3, 4][: 3 + (k % 2)], dtype=dtype) + 5 * k for k in range(len(inc))]
            axes = [a if up else np.ascontiguousarray(a[::-1]) for a, up in zip(axes, inc)]
            before = [a.copy() for a in axes]
            g1 = RectilinearGrid(axes)
            changed = [k for k, (a, b) in enumerate(zip(axes, before)) if not np.array_equal(a, b)]
            g2 = RectilinearGrid(axes)
            if changed:
                viol.append(f"RectilinearGrid(axes) reversed the caller's array of axis {changed[0]} in place (dtype {np.dtype(dtype).name}, decreasing axis): "
                            f"a second grid built from the same arrays has axes_increase={list(map(bool, g2.axes_increase))} instead of {list(map(bool, g1.axes_increase))}")
                return n
            if list(g1.axes_increase) != list(g2.axes_increase) or not g1 == g2:
                viol.append(f"two RectilinearGrids built from the same arrays differ (dtype {np.dtype(dtype).name}, increase={inc})")
                return n
    return n


def main():
    thorough = "--tier" in sys.argv and sys.argv[sys.argv.index("--tier") + 1] == "thorough"
    viol, n, known = [], 0, []
    dimsets = [(2,), (3,), (2, 3), (3, 2), (4, 3), (3, 4), (2, 2), (2, 3, 2), (3, 2, 4), (4, 3, 2),
               (1,), (3, 1), (1, 3), (3, 1, 2)]     # with degenerate axes
    if thorough:
        dimsets += [(5,), (4, 4), (3, 3, 3), (2, 4, 3), (4, 2, 3)]
    for kind in ("uniform", "rectilinear"):
        for dims in dimsets:
            lays = list(layouts(dims))
            for lay in lays:
                n += 1
                check_grid(kind, dims, *lay, viol)
                if viol:
                    break
            if viol:
                break
            # pairs of layouts, same location
            pairs = [(a, b) for a in lays for b in lays if a[3] == b[3]]
            step = 1 if thorough or len(dims) < 3 else 7
            for a, b in pairs[::step]:
                n += 1
                check_pair(kind, dims, a, b, viol)
                if viol:
                    break
            if viol:
                break
        if viol:
            break
    if not viol:
        n += check_unstructured(viol)
    if not viol:
        n += check_constructor_purity(viol)
    if not viol:
        n += check_delivery_identity(viol)
    res = {"evaluations": n, "distinct_nontrivial": n, "violations": [{"case": v} for v in viol[:3]],
           "rule": "all layouts (order, axes_reversed, per-axis direction, location) of uniform and rectilinear grids over the listed dims; ordered layout pairs through a real link (every 7th pair for 3-D in the quick tier); distinct = (kind, dims, layout[, layout])",
           "bound": f"dims {dimsets}", "exhaustive": thorough}
    if "--json" in sys.argv:
        print(json.dumps(res))
    else:
        print(("CONFIRMED " + viol[0]) if viol else f"NOT-CONFIRMED no violation among {n} grid / layout-pair checks")


if __name__ == "__main__":
    main()
