"""Native search on real time adapters (C10, C11, C12): Output >> adapter >> Input with event sequences.

For random publication series (irregular gaps) and non-decreasing request series the delivered values are
compared with the mathematical definition (next / previous / linear / step interpolant, integral and average over the
window between consecutive pulls), each run once without memory limit and once with limit 0 (everything dumped to
disk), plain and masked payloads; the dump directory must be empty after finalize.
Bounded: <= 7 publications, <= 8 requests, gaps from {1,2,3,5,7} hours.
"""
import os
import random
import shutil
import sys
import tempfile
from datetime import datetime, timedelta

import numpy as np

import finam as fm
from common import load, verdict

T0 = datetime(2000, 1, 1)
H = timedelta(hours=1)
KINDS = ["next", "prev", "linear", "step", "sum", "sum_abs", "avg", "avg_step", "sum_step"]


def make(kind, step):
    a = fm.adapters
    return {
        "next": lambda: a.NextTime(), "prev": lambda: a.PreviousTime(), "linear": lambda: a.LinearTime(),
        "step": lambda: a.StepTime(step=step), "sum": lambda: a.SumOverTime(step=None, per_time=True),
        "sum_abs": lambda: a.SumOverTime(step=None, per_time=False), "avg": lambda: a.AvgOverTime(step=None),
        "avg_step": lambda: a.AvgOverTime(step=step), "sum_step": lambda: a.SumOverTime(step=step, per_time=True),
    }[kind]()


def interp(ts, vs, t, mode, step):
    """value of the interpolant at t (mode linear | step)"""
    for k in range(len(ts)):
        if ts[k] == t:
            return vs[k]
    for k in range(len(ts) - 1):
        if ts[k] < t < ts[k + 1]:
            x = (t - ts[k]) / (ts[k + 1] - ts[k])
            if mode == "linear":
                return vs[k] + x * (vs[k + 1] - vs[k])
            return vs[k + 1] if x > step else vs[k]
    raise ValueError


def integral(ts, vs, a, b, mode, step, per_time=True):
    """exact integral over [a,b] (hours) of the interpolant; absolute mode: weights without interval length"""
    tot = 0.0
    for k in range(len(ts) - 1):
        t0, t1 = ts[k], ts[k + 1]
        lo, hi = max(a, t0), min(b, t1)
        if hi <= lo:
            continue
        R = t1 - t0
        x0, x1 = (lo - t0) / R, (hi - t0) / R
        if mode == "linear":
            f0 = vs[k] + x0 * (vs[k + 1] - vs[k])
            f1 = vs[k] + x1 * (vs[k + 1] - vs[k])
            w = (x1 - x0) * 0.5 * (f0 + f1)
        else:
            ow = max(0.0, min(x1, step) - min(x0, step))
            w = ow * vs[k] + ((x1 - x0) - ow) * vs[k + 1]
        tot += w * (R * 3600.0 if per_time else 1.0)
    return tot


def expected(kind, step, ts, vs, prev, t):
    if kind == "next":
        return vs[min(k for k in range(len(ts)) if ts[k] >= t)]
    if kind == "prev":
        return vs[max(k for k in range(len(ts)) if ts[k] <= t)]
    if kind == "linear":
        return interp(ts, vs, t, "linear", step)
    if kind == "step":
        return interp(ts, vs, t, "step", step)
    mode = "linear" if kind in ("sum", "sum_abs", "avg") else "step"
    if kind in ("sum", "sum_step"):
        return integral(ts, vs, prev, t, mode, step, True)
    if kind == "sum_abs":
        return integral(ts, vs, prev, t, mode, step, False)
    return integral(ts, vs, prev, t, mode, step, True) / ((t - prev) * 3600.0)


def run(kind, step, pubs, reqs, limit, loc, masked):
    """pubs: [(t_hours, value)], reqs: [(after how many publications, t_hours)]; returns list of results or failure"""
    grid = fm.UniformGrid((3, 2))  # 2x1 cells
    # masked: False (plain) | True (one masked cell) | "valid" (a masked array in which nothing is masked)
    allvalid = masked == "valid"
    mask = (np.array([[False], [False]]) if allvalid else np.array([[False], [True]])) if masked else fm.Mask.NONE
    units = "m/s" if kind.startswith(("sum", "avg")) else "m"
    out = fm.Output("out", fm.Info(time=T0, grid=grid, units=units, mask=mask))
    ad = make(kind, step)
    inp = fm.Input("in", fm.Info(time=T0, grid=grid, units=None, mask=fm.Mask.FLEX))
    # every third history runs through a pass-through adapter in front of the time adapter (the time adapter then is the consumer the
    # output has to know, and requests reach the output through another adapter)
    if (len(pubs) * 7 + len(reqs) * 3 + int(bool(masked))) % 3 == 0:
        out >> fm.adapters.Scale(1.0) >> ad >> inp
    else:
        out >> ad >> inp
    inp.ping()
    for slot in (out, ad):
        slot.memory_limit = limit
        slot.memory_location = loc
    inp.exchange_info()
    res = []
    pi = 0
    reqs = list(reqs)

    def push(i):
        t, v = pubs[i]
        arr = np.full((2, 1), float(v))
        if masked:
            arr = np.ma.array(arr, mask=mask)
        out.push_data(arr, T0 + t * H)

    for npub, t in reqs:
        while pi < npub:
            push(pi)
            pi += 1
        r = inp.pull_data(T0 + t * H)
        m = r.magnitude
        val = float(np.asarray(m).reshape(-1)[0])
        if masked and not allvalid and not (np.ma.isMaskedArray(m) and bool(np.ma.getmaskarray(m).reshape(-1)[1])):
            return f"masked cell lost its mask at request t={t}"
        if allvalid and np.ma.getmaskarray(m).any():
            return f"all-valid masked payload came back with masked cells at request t={t}"
        res.append((val, str(r.units)))
        if loc is not None:
            pass
    ad.finalize()
    out.finalize()
    if loc is not None and os.listdir(loc):
        return f"files left after finalize: {sorted(os.listdir(loc))[:3]}"
    return res


def gen_case(rng):
    kind = rng.choice(KINDS)
    step = rng.choice([0.0, 0.25, 0.5, 0.75, 1.0])
    n = rng.randint(2, 7)
    t = 0
    pubs = []
    for _ in range(n):
        pubs.append((t, rng.choice([-3.0, 0.0, 1.0, 2.5, 7.0, 10.0])))
        t += rng.choice([1, 2, 3, 5, 7])
    reqs = []
    npub = 1
    cur = 0.0
    first = True
    while len(reqs) < 8:
        if npub < n and rng.random() < 0.5:
            npub += 1
            continue
        hi = pubs[npub - 1][0]
        if cur > hi or (not first and cur >= hi and kind.startswith(("sum", "avg"))):
            if npub >= n:
                break
            npub += 1
            continue
        lo = cur
        tq = rng.choice([lo, hi, lo + (hi - lo) * rng.random(), float(rng.randint(int(lo), int(hi)))])
        tq = round(tq * 4) / 4.0
        if tq < lo or tq > hi:
            continue
        if kind.startswith(("sum", "avg")) and not first and tq <= cur:
            continue
        reqs.append((npub, tq))
        cur = tq
        first = False
        if rng.random() < 0.2:
            break
    return kind, step, pubs, reqs


def check_case(kind, step, pubs, reqs, loc):
    base = None
    for masked in (False, True, "valid"):
        for limit, l in ((None, None), (0, loc)):
            try:
                r = run(kind, step, pubs, reqs, limit, l, masked)
            except Exception as e:
                r = f"{type(e).__name__}: {str(e)[:160]}"
            finally:
                for fn in os.listdir(loc):
                    os.unlink(os.path.join(loc, fn))
            tag = f"kind={kind} step={step} masked={masked} memory_limit={limit} pubs={pubs} reqs={reqs}"
            if isinstance(r, str):
                return f"{r} [{tag}]"
            if not masked and limit is None:
                # compare with the mathematical definition
                prev = None
                for (npub, t), (val, _u) in zip(reqs, r):
                    ts = [p[0] for p in pubs[:npub]]
                    vs = [p[1] for p in pubs[:npub]]
                    if prev is None and kind.startswith(("sum", "avg")):
                        prev = t  # the first pull only fixes the window start (initial value semantics)
                        continue
                    exp = expected(kind, step, ts, vs, prev, t)
                    if abs(val - exp) > 1e-9 * max(1.0, abs(exp)):
                        return f"request t={t} (window start {prev}) delivered {val}, definition gives {exp} [{tag}]"
                    prev = t
                base = r
            elif [x for x in r] != [x for x in base]:
                return f"result differs from the plain run without limit: {r} vs {base} [{tag}]"
    return None


def main():
    seed = int(os.environ.get("VERIF_SEED", "0") or 0)
    n = int(os.environ.get("ADAPT_N", "250"))
    if "--seed" in sys.argv:
        seed = int(sys.argv[sys.argv.index("--seed") + 1])
    if "--tier" in sys.argv and sys.argv[sys.argv.index("--tier") + 1] == "thorough":
        n = int(os.environ.get("ADAPT_N", "3000"))
    only = os.environ.get("ADAPT_KINDS")
    rng = random.Random(seed)
    loc = tempfile.mkdtemp(prefix="verif_spill_")
    seen = set()
    try:
        for _ in range(n):
            kind, step, pubs, reqs = gen_case(rng)
            if only and kind not in only.split(","):
                continue
            if not reqs:
                continue
            seen.add((kind, step, tuple(pubs), tuple(reqs)))
            f = check_case(kind, step, pubs, reqs, loc)
            if f:
                return True, f, n, len(seen)
        return False, f"no failing sequence among {len(seen)} distinct adapter histories x 4 (limit, mask) variants", n, len(seen)
    finally:
        shutil.rmtree(loc, ignore_errors=True)


if __name__ == "__main__":
    if len(sys.argv) > 1 and sys.argv[1] not in ("-", "--tier", "--json", "--seed"):
        load()
    ok, msg, runs, dist = main()
    if "--json" in sys.argv:
        import json

        print(json.dumps({"evaluations": runs * 4, "distinct_nontrivial": dist, "violations": [{"case": msg}] if ok else [],
                          "rule": "random publication/request histories on Output >> [Scale >>] time adapter >> Input, 9 adapter configurations, x {no limit, limit 0} x {plain, masked, masked without masked cells}; distinct = distinct (adapter, step, publications, requests)",
                          "bound": "<= 7 publications, <= 8 requests, gaps {1,2,3,5,7} h"}))
    else:
        verdict(ok, msg)
