"""Native run monitor for the scheduler properties (C01-C05, C20): random small compositions on real finam.

Bounded stand-in / replay search: builds compositions of <= 4 components (time-stepped generators,
relays, consumers and pull-based pass-through components), links with <= 3 adapters drawn from
{Scale, LinearTime, NextTime, DelayFixed, DelayToPull}, steps from {1,2,3,5} days, start offsets, all listing
orders sampled, and watches every update():

  C01  every pull issued during update() is served (no FinamTimeError / FinamNoDataError)
  C02  the updated component is the least advanced one or upstream of it along lagging links; the scheduler's
       requirement equals what is requested (sources are not advanced beyond the largest request + their step)
  C03  run() ends with all time components at/after end_time, times strictly increase, no update after all reached
       end_time, every component FINALIZED
  C04  acyclic graphs and cycles with enough delay complete; cycles without delay raise FinamCircularCouplingError
  C05  the outcome class and every consumer's received series do not depend on the listing order
"""
import itertools
import os
import random
import sys
from datetime import datetime, timedelta

import numpy as np

import finam as fm
from common import load, verdict

T0 = datetime(2000, 1, 1)
DAY = timedelta(days=1)
INFO = lambda: fm.Info(time=None, grid=fm.NoGrid(), units="")


class Gen(fm.TimeComponent):
    def __init__(self, name, step, offset=0):
        super().__init__()
        self._name_ = name
        self.step = step * DAY
        self.time = T0 + offset * DAY
        self.log = []

    def _next_time(self):
        return self.time + self.step

    def _initialize(self):
        self.outputs.add(name="Out", time=self.time, grid=fm.NoGrid(), units="")
        self.create_connector()

    def _connect(self, start_time):
        self.try_connect(start_time, push_data={"Out": float((self.time - T0) / DAY)})

    def _validate(self):
        pass

    def _update(self):
        self._time += self.step
        self.outputs["Out"].push_data(float((self.time - T0) / DAY), self.time)

    def _finalize(self):
        pass


class Relay(fm.TimeComponent):
    """time component with inputs and one output (value = sum of inputs)"""

    def __init__(self, name, step, n_in=1, offset=0):
        super().__init__()
        self._name_ = name
        self.step = step * DAY
        self.n_in = n_in
        self.time = T0 + offset * DAY
        self.received = []
        self.errors = []

    def _next_time(self):
        return self.time + self.step

    def _initialize(self):
        for i in range(self.n_in):
            self.inputs.add(name=f"In{i}", time=self.time, grid=fm.NoGrid(), units="")
        self.outputs.add(name="Out", time=self.time, grid=fm.NoGrid(), units="")
        self.create_connector(pull_data=[f"In{i}" for i in range(self.n_in)])

    def _connect(self, start_time):
        push = {}
        if all(v is not None for v in self.connector.in_data.values()):
            push = {"Out": float((self.time - T0) / DAY)}
        self.try_connect(start_time, push_data=push)

    def _validate(self):
        pass

    def _update(self):
        self._time += self.step
        vals = []
        for i in range(self.n_in):
            try:
                v = self.inputs[f"In{i}"].pull_data(self.time)
                vals.append(float(np.asarray(v.magnitude).reshape(-1)[0]))
            except (fm.FinamTimeError, fm.FinamNoDataError) as e:
                self.errors.append(f"{self._name_}.In{i} pull at {self.time}: {type(e).__name__}: {e}")
                vals.append(float("nan"))
        self.received.append((self.time, tuple(vals)))
        self.outputs["Out"].push_data(float((self.time - T0) / DAY), self.time)

    def _finalize(self):
        pass


class Pull(fm.Component):
    """pull-based pass-through component (no time step)"""

    def __init__(self, name):
        super().__init__()
        self._name_ = name

    def _initialize(self):
        self.inputs.add(fm.CallbackInput(lambda c, t: None, name="In", time=None, grid=fm.NoGrid(), units=""))
        self.outputs.add(fm.CallbackOutput(self._get, name="Out", time=None, grid=fm.NoGrid(), units=""))
        self.create_connector(pull_data=["In"])
        self._in = None

    def _connect(self, start_time):
        self.try_connect(start_time)
        if self.connector.all_data_pulled:
            self._in = self.connector.in_data["In"]

    def _validate(self):
        pass

    def _get(self, caller, time):
        # like finam's WeightedSum: nothing before the own input is connected, live pulls once validated
        if self._in is None:
            return None
        if self.status == fm.ComponentStatus.VALIDATED:
            self._in = self.inputs["In"].pull_data(time)
        return np.array(self._in.magnitude, copy=True)

    def _update(self):
        pass

    def _finalize(self):
        pass


ADAPTERS = {
    "scale": lambda: fm.adapters.Scale(1.0),
    "linear": lambda: fm.adapters.LinearTime(),
    "next": lambda: fm.adapters.NextTime(),
    "delay": None,  # DelayFixed(d days), parameterised
}


def make_adapter(spec):
    kind = spec[0]
    if kind == "delay":
        return fm.adapters.DelayFixed(timedelta(days=spec[1]))
    if kind == "delaypull":
        return fm.adapters.DelayToPull(steps=spec[1])
    return ADAPTERS[kind]()


def random_case(rng):
    """a composition description: components, links (src, [adapter specs], dst, input index)"""
    n = rng.choice([2, 2, 3, 3, 4])
    comps = []
    for i in range(n):
        kind = rng.choice(["gen", "relay", "relay", "pull"]) if i > 0 else "gen"
        comps.append({"kind": kind, "name": f"c{i}", "step": rng.choice([1, 2, 3, 5]), "n_in": 0})
    links = []
    cyclic = rng.random() < 0.35
    for j, c in enumerate(comps):
        if c["kind"] == "gen":
            continue
        cands = [i for i in range(n) if i != j and (cyclic or i < j)]
        k_in = 1 if c["kind"] == "pull" else rng.choice([1, 1, 2])
        for _ in range(k_in):
            if not cands:
                break
            src = rng.choice(cands)
            ads = []
            for _a in range(rng.choice([0, 0, 1, 1, 2, 3])):
                kind = rng.choice(["scale", "linear", "next", "delay", "delay"])
                ads.append(("delay", rng.choice([1, 2, 3, 5, 6, 10])) if kind == "delay" else (kind,))
            links.append((src, ads, j, c["n_in"]))
            c["n_in"] += 1
    for c in comps:
        if c["kind"] != "gen" and c["n_in"] == 0:
            c["kind"] = "gen"
    # domain restriction (known finding F20a, see known_findings.json): a pull-based component is read by one consumer only
    for i, c in enumerate(comps):
        if c["kind"] == "pull" and sum(1 for l in links if l[0] == i) > 1:
            return random_case(rng)
    return {"comps": comps, "links": links, "end": rng.choice([7, 10, 11, 15])}


def build(case, order):
    objs = []
    for c in case["comps"]:
        if c["kind"] == "gen":
            objs.append(Gen(c["name"], c["step"]))
        elif c["kind"] == "relay":
            objs.append(Relay(c["name"], c["step"], c["n_in"]))
        else:
            objs.append(Pull(c["name"]))
    comp = fm.Composition([objs[i] for i in order], print_log=False, log_level="ERROR")
    for src, ads, dst, k in case["links"]:
        x = objs[src].outputs["Out"]
        for a in ads:
            x = x >> make_adapter(a)
        name = "In" if case["comps"][dst]["kind"] == "pull" else f"In{k}"
        x >> objs[dst].inputs[name]
    return comp, objs


def has_undelayed_cycle(case):
    """a dependency cycle none of whose links carries a delay adapter"""
    n = len(case["comps"])
    adj = {i: set() for i in range(n)}
    for src, ads, dst, _k in case["links"]:
        if not any(a[0] in ("delay", "delaypull") for a in ads):
            adj[dst].add(src)
    seen = {}

    def dfs(u):
        seen[u] = 1
        for v in adj[u]:
            if seen.get(v) == 1 or (v not in seen and dfs(v)):
                return True
        seen[u] = 2
        return False

    return any(dfs(i) for i in range(n) if i not in seen)


def is_acyclic(case):
    n = len(case["comps"])
    adj = {i: set() for i in range(n)}
    for src, _ads, dst, _k in case["links"]:
        adj[dst].add(src)
    seen = {}

    def dfs(u):
        seen[u] = 1
        for v in adj[u]:
            if seen.get(v) == 1 or (v not in seen and dfs(v)):
                return True
        seen[u] = 2
        return False

    return not any(dfs(i) for i in range(n) if i not in seen)


def req(inp, t):
    """native Req (DESIGN 3): root output and time requested from it for a pull of `inp` at t; None = no dependency"""
    frozen = False
    x = inp
    while isinstance(x, fm.interfaces.IInput):
        x = x.source
        if not frozen:
            if isinstance(x, fm.interfaces.NoDependencyAdapter):
                return None
            if isinstance(x, fm.interfaces.ITimeDelayAdapter):
                t = x.with_delay(t)
        if isinstance(x, fm.interfaces.IAdapter) and x.needs_push:
            frozen = True
    return x, t


def on_chain(c, t, u, owners, depth=0):
    """u is c or lies upstream of c along links whose source still lags"""
    if c is u:
        return True
    if depth > 8:
        return False
    for inp in c.inputs.values():
        r = req(inp, t)
        if r is None or r[0].is_static:
            continue
        root, tr = r
        o = owners[root]
        if isinstance(o, fm.interfaces.ITimeComponent):
            if root.time < tr and on_chain(o, o.next_time, u, owners, depth + 1):
                return True
        elif on_chain(o, tr, u, owners, depth + 1):
            return True
    return False


def run_case(case, order):
    """returns (outcome class, per-consumer series, failure text or None)"""
    try:
        comp, objs = build(case, order)
    except Exception as e:
        return ("build-error", None, None)
    end = T0 + case["end"] * DAY
    updates = []
    tcs = [o for o in objs if isinstance(o, fm.TimeComponent)]
    fail = None
    for o in tcs:
        orig = o.update

        def wrapped(o=o, orig=orig):
            nonlocal fail
            before = {c._name_: c.time for c in tcs}
            if all(t >= end for t in before.values()) and fail is None:
                fail = f"update of {o._name_} although every time component has reached the end time"
            if fail is None:
                owners = {out: c for c in objs for out in c.outputs.values()}
                tmin = min(before.values())
                least = [c for c in tcs if c.time == tmin]
                try:
                    just = any(on_chain(L, L.next_time, o, owners) for L in least)
                except Exception as e:  # oracle problem, not a finding
                    just = True
                if not just:
                    fail = (f"C02: update of {o._name_} (time {before[o._name_]}) is not the least advanced component "
                            f"{[c._name_ for c in least]} nor upstream of it along a lagging link")
            orig()
            updates.append((o._name_, o.time))
            if o.time <= before[o._name_] and fail is None:
                fail = f"time of {o._name_} did not increase"

        o.update = wrapped
    # life cycle (C03): order of the calls every component sees, and how often every adapter on a link is finalized
    calls = {id(o): [] for o in objs}
    for o in objs:
        for nm in ("connect", "validate", "finalize"):
            orig_m = getattr(o, nm)

            def rec(*a, _o=o, _nm=nm, _orig=orig_m, **k):
                calls[id(_o)].append(_nm)
                return _orig(*a, **k)

            setattr(o, nm, rec)
    adapters, seen = [], set()
    for o in objs:
        stack = [t for out in o.outputs.values() for t in out.targets]
        while stack:
            t = stack.pop()
            if isinstance(t, fm.sdk.Adapter) and id(t) not in seen:
                seen.add(id(t))
                adapters.append(t)
                stack.extend(t.targets)
    fin_count = {id(a): 0 for a in adapters}
    for a in adapters:
        orig_f = a.finalize

        def fin(_a=a, _orig=orig_f):
            fin_count[id(_a)] += 1
            return _orig()

        a.finalize = fin
    import signal

    class RunTooLong(BaseException):
        pass

    def too_long(_sig, _frm):
        raise RunTooLong()

    signal.signal(signal.SIGALRM, too_long)
    signal.setitimer(signal.ITIMER_REAL, 60.0)      # a run of these small compositions takes milliseconds
    try:
        comp.run(end_time=end)
        outcome = "ok"
    except RunTooLong:
        outcome = "error:the run (connect phase or main loop) did not return within 60 s"
    except fm.FinamCircularCouplingError:
        outcome = "circular"
    except (fm.FinamConnectError, fm.FinamMetaDataError) as e:
        outcome = "rejected:" + type(e).__name__
    except Exception as e:
        outcome = "error:" + type(e).__name__ + ":" + str(e)[:120]
    signal.setitimer(signal.ITIMER_REAL, 0)
    series = {o._name_: list(o.received) for o in objs if isinstance(o, Relay)}
    if fail is None and outcome.startswith("error:the run"):
        fail = "C03: " + outcome[6:]
    if fail is None:
        for o in objs:
            if isinstance(o, Relay) and o.errors:
                fail = "C01: " + o.errors[0]
                break
    if fail is None and outcome == "ok":
        for o in tcs:
            if o.time < end:
                fail = f"C03: run returned with {o._name_} at {o.time} < end {end}"
            if o.status != fm.ComponentStatus.FINALIZED:
                fail = f"C03: {o._name_} ends in state {o.status}"
        for o in objs:
            seq = calls[id(o)]
            collapsed = [x for i, x in enumerate(seq) if i == 0 or seq[i - 1] != x]
            if collapsed != ["connect", "validate", "finalize"] or seq.count("validate") != 1 or seq.count("finalize") != 1:
                fail = fail or f"C03: {o._name_} saw the life-cycle calls {collapsed} (validate x{seq.count('validate')}, finalize x{seq.count('finalize')})"
        for a in adapters:
            if fin_count[id(a)] != 1:
                fail = fail or f"C03: adapter {a.name} was finalized {fin_count[id(a)]} times"
    if fail is None:
        if outcome.startswith("error"):
            fail = f"C04: run ended with {outcome}"
        elif outcome == "circular" and is_acyclic(case):
            fail = "C04: acyclic coupling graph reported as circular"
        elif outcome == "ok" and has_undelayed_cycle(case):
            fail = "C04: a dependency cycle without any delay adapter ran"
    return outcome, series, fail


def main():
    seed = int(os.environ.get("VERIF_SEED", "0") or 0)
    n = int(os.environ.get("SCHED_N", "300"))
    if "--seed" in sys.argv:
        seed = int(sys.argv[sys.argv.index("--seed") + 1])
    if "--tier" in sys.argv and sys.argv[sys.argv.index("--tier") + 1] == "thorough":
        n = int(os.environ.get("SCHED_N", "4000"))
    rng = random.Random(seed)
    runs = 0
    distinct = set()
    for _it in range(n):
        case = random_case(rng)
        k = len(case["comps"])
        orders = list(itertools.permutations(range(k)))
        rng.shuffle(orders)
        ref = None
        for order in orders[:3]:
            outcome, series, fail = run_case(case, order)
            runs += 1
            distinct.add(repr(case))
            if fail:
                return True, f"{fail}; composition {case}, listing order {order}", runs, len(distinct)
            if outcome in ("build-error",) or outcome.startswith("rejected"):
                break
            if ref is None:
                ref = (outcome, series)
            elif ref != (outcome, series):
                return True, (f"C05: outcome/series differ between listing orders {orders[0]} and {order}: "
                              f"{ref[0]} vs {outcome}; composition {case}"), runs, len(distinct)
    return False, f"no failing run among {runs} runs of {len(distinct)} random compositions", runs, len(distinct)


if __name__ == "__main__":
    if len(sys.argv) > 1 and sys.argv[1] not in ("-", "--tier"):
        load()
    ok, msg, runs, dist = main()
    if "--json" in sys.argv:
        import json

        print(json.dumps({"evaluations": runs, "distinct_nontrivial": dist, "violations": [{"case": msg}] if ok else [],
                          "rule": "random compositions <=4 components, <=3 adapters/link, steps {1,2,3,5}d, 3 listing orders each; distinct = distinct composition descriptions",
                          "bound": "<=4 components, <=3 adapters per link, end <= 15 days"}))
    else:
        verdict(ok, msg)
