"""replay for units._cache_units / equivalent_units: pairs reported equivalent although converting 1 does not give 1"""
import finam as fm
from finam.data import tools
from common import verdict

PAIRS = [("survey_foot", "foot"), ("mmHg", "torr"), ("foot", "survey_foot"), ("m", "meter"), ("mm/d", "L/m^2/d"), ("km", "m"),
         ("degC", "K"), ("year", "julian_year"), ("cal", "thermochemical_calorie"), ("atm", "bar"), ("nautical_mile", "mile")]
found = None
for a, b in PAIRS:
    try:
        ua, ub = fm.UNITS.Unit(a), fm.UNITS.Unit(b)
        one = (1.0 * ua).to(ub).magnitude
    except Exception:
        continue
    tools.clear_units_cache()
    eq = bool(tools.equivalent_units(ua, ub))
    if eq and abs(one - 1.0) > 1e-12:
        x = tools.to_units(fm.UNITS.Quantity(1000.0, ua), ub, check_equivalent=True)
        found = (f"equivalent_units({a!r}, {b!r}) is True although (1 {a}).to({b}) = {one!r}; "
                 f"to_units(1000 {a}, {b}, check_equivalent=True) = {x.magnitude!r} {x.units} (exact {1000.0 * one!r})")
        break
    if not eq and abs(one - 1.0) <= 1e-15:
        found = f"equivalent_units({a!r}, {b!r}) is False although converting 1 gives exactly 1"
        break
verdict(found is not None, found or "no unit pair with a wrong equivalence answer among the probed pairs")
