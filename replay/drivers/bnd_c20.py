"""Bounded stand-in for C20 on real objects: static slots, CallbackOutput providers, WeightedSum with several consumers."""
import itertools
import json
import sys
from datetime import datetime, timedelta

import numpy as np

import finam as fm

import _guard

T0 = datetime(2000, 1, 1)
D = timedelta(days=1)


def static_slots():
    """all request sequences of length <= 4 over {None, t0, t0+1d, t0-3d} on a static output/input pair"""
    viol, n = [], 0
    times = [None, T0, T0 + D, T0 - 3 * D]
    for k in range(1, 5):
        for seq in itertools.product(times, repeat=k):
            n += 1
            out = fm.Output("o", fm.Info(time=None, grid=fm.NoGrid(), units="m"), static=True)
            inp = fm.Input("i", fm.Info(time=None, grid=fm.NoGrid(), units="m"), static=True)
            out >> inp
            inp.ping()
            inp.exchange_info()
            out.push_data(np.array(7.0), None)
            try:
                out.push_data(np.array(8.0), None)
                viol.append("second publication on a static output accepted")
            except fm.FinamStaticDataError:
                pass
            calls = []
            orig = out.get_data
            out.get_data = lambda t, tg, orig=orig: (calls.append(t), orig(t, tg))[1]
            for t in seq:
                v = inp.pull_data(t)
                if float(v.magnitude.reshape(-1)[0]) != 7.0:
                    viol.append(f"static pull at {t} returned {v}")
            if len(calls) != 1:
                viol.append(f"static input fetched {len(calls)} times for requests {seq}")
            if len(out.data) != 1:
                viol.append("static output lost / duplicated its publication")
            if viol:
                return n, viol
    return n, viol


def weighted_sum(n_consumers, steps):
    """time-stepped producers -> WeightedSum -> consumers pulling at the same and at different times"""
    log = []

    def gen(v):
        return fm.components.CallbackGenerator({"Out": (lambda t, v=v: v * t.day, fm.Info(time=None, grid=fm.NoGrid(), units="m"))},
                                               start=T0, step=D)

    def wgen(w):
        return fm.components.CallbackGenerator({"Out": (lambda t, w=w: w, fm.Info(time=None, grid=fm.NoGrid(), units=""))}, start=T0, step=D)

    a, b, wa, wb = gen(1.0), gen(10.0), wgen(0.25), wgen(0.75)
    ws = fm.components.WeightedSum(inputs=["A", "B"])
    # the first consumer asks for kilometres (a real unit conversion on the way), the others take the producer's metres
    cons = [fm.components.DebugConsumer({"In": fm.Info(time=None, grid=fm.NoGrid(), units=("km" if i == 0 else None))}, start=T0, step=s * D,
                                        callbacks={"In": (lambda n, d, t, i=i: log.append((i, t, float(np.asarray(d.magnitude).reshape(-1)[0]) * (1000.0 if i == 0 else 1.0))))})
            for i, s in enumerate(steps[:n_consumers])]
    comp = fm.Composition([a, b, wa, wb, ws] + cons, print_log=False, log_level="ERROR")
    a.outputs["Out"] >> ws.inputs["A"]
    b.outputs["Out"] >> ws.inputs["B"]
    wa.outputs["Out"] >> ws.inputs["A_weight"]
    wb.outputs["Out"] >> ws.inputs["B_weight"]
    for c in cons:
        ws.outputs["WeightedSum"] >> c.inputs["In"]
    with _guard.limit(120.0):
        comp.run(end_time=T0 + 6 * D)
    bad = [(i, t, v) for i, t, v in log if abs(v - (0.25 * t.day + 0.75 * 10.0 * t.day)) > 1e-6]
    return log, bad


def gridded_sum():
    """WeightedSum on gridded data, 1 or 2 input pairs, read by a consumer on the same cells in another layout (decreasing y axis):
    every delivered cell must hold sum(value * weight) of the cell at the same coordinates"""
    viol = []
    g_src = fm.UniformGrid((4, 3))                                      # 3 x 2 cells
    g_cons = fm.UniformGrid((4, 3), axes_increase=[True, False])
    base = np.arange(6, dtype=float).reshape(g_src.data_shape) + 1.0
    for pairs in (["A"], ["A", "B"]):
        for cons_grid, gname in ((g_src, "same layout"), (g_cons, "decreasing y axis")):
            comps = []
            ws = fm.components.WeightedSum(inputs=pairs)
            for k, nm in enumerate(pairs):
                val = fm.components.CallbackGenerator({"Out": (lambda t, k=k: base * (k + 1) * t.day, fm.Info(time=None, grid=g_src, units="m"))}, start=T0, step=D)
                wgt = fm.components.CallbackGenerator({"Out": (lambda t, k=k: np.full(g_src.data_shape, 0.5 + k), fm.Info(time=None, grid=g_src, units=""))}, start=T0, step=D)
                comps += [(nm, val, wgt)]
            got = []
            cons = fm.components.DebugConsumer({"In": fm.Info(time=None, grid=cons_grid, units=None)}, start=T0, step=D,
                                               callbacks={"In": (lambda n, d, t: got.append((t, np.asarray(d.magnitude)[0].copy())))})
            comp = fm.Composition([c for _n, v, w in comps for c in (v, w)] + [ws, cons], print_log=False, log_level="ERROR")
            for nm, v, w in comps:
                v.outputs["Out"] >> ws.inputs[nm]
                w.outputs["Out"] >> ws.inputs[nm + "_weight"]
            ws.outputs["WeightedSum"] >> cons.inputs["In"]
            tag = f"WeightedSum with input pairs {pairs}, consumer grid with {gname}"
            try:
                with _guard.limit(120.0):
                    comp.run(end_time=T0 + 3 * D)
            except Exception as e:  # noqa
                viol.append(f"{tag}: {type(e).__name__}: {str(e)[:100]}")
                return viol
            for t, arr_ in got:
                want = sum(base * (k + 1) * t.day * (0.5 + k) for k in range(len(pairs)))
                if cons_grid is g_cons:
                    want = want[:, ::-1]          # the consumer stores the same cells with the y axis reversed
                if not np.allclose(arr_, want, rtol=1e-9):
                    viol.append(f"{tag}: at {t:%Y-%m-%d} the consumer received {arr_.tolist()}, the cell-wise sum is {want.tolist()}")
                    return viol
            if not got:
                viol.append(f"{tag}: nothing delivered")
                return viol
    return viol


def main():
    viol = []
    known = []
    n, v = static_slots()
    viol += v
    cases = 0
    for n_cons in (1, 2, 3):
        for steps in itertools.product((1, 2, 3), repeat=n_cons):
            cases += 1
            try:
                log, bad = weighted_sum(n_cons, steps)
                if bad:
                    viol.append(f"WeightedSum delivered {bad[0]} (consumers with steps {steps})")
                if not log:
                    viol.append(f"no data delivered (steps {steps})")
            except fm.FinamTimeError as e:
                if len(set(steps)) > 1:
                    # identified finding: consumers with different steps funnel non-monotone requests through the
                    # single registered end point (the pull-based component's input)
                    known.append({"case": "pull-based component read by time-stepped consumers with different steps: FinamTimeError (history already evicted)",
                                  "detail": f"steps {steps} days: {str(e)[:100]}"})
                    continue
                viol.append(f"WeightedSum with {n_cons} consumers (steps {steps} days): FinamTimeError: {str(e)[:120]}")
            except Exception as e:
                viol.append(f"WeightedSum with {n_cons} consumers (steps {steps} days): {type(e).__name__}: {str(e)[:120]}")
            if viol:
                break
        if viol:
            break
    if not viol:
        v2 = gridded_sum()
        cases += 4
        viol += v2
    seen = set()
    kn = [k for k in known if not (k["case"] in seen or seen.add(k["case"]))]
    res = {"evaluations": n + cases, "distinct_nontrivial": n + cases, "violations": [{"case": x} for x in viol[:3]] + kn,
           "rule": "static slots: all request sequences of length <= 4 over 4 times (exhaustive); WeightedSum: 1-3 consumers with steps from {1,2,3} days (exhaustive)",
           "bound": "see rule", "exhaustive": True}
    if "--json" in sys.argv:
        print(json.dumps(res))
    else:
        print(("CONFIRMED " + viol[0]) if viol else ("CONFIRMED " + known[0]["case"] + " " + known[0]["detail"]) if known else f"NOT-CONFIRMED no violation in {n} static request sequences and {cases} WeightedSum compositions")


if __name__ == "__main__":
    main()
