"""Bounded native stand-in / replay for the unit helpers (C17) on real pint.

Catalogue of units (prefixed, compound, differently spelled but identical, offset temperatures, logarithmic, dimensionless);
for ALL ordered pairs: compatible_units <=> same dimensionality; equivalent_units <=> converting 1 gives 1 (float eps);
to_units(check_equivalent=True) and a real link Output >> Input deliver numerically what pint's conversion gives (or the
unchanged numbers for equivalent units), incompatible pairs are refused; every answer is asked again in shuffled order
with a warm cache and must not change.  The known tolerance finding F17a (np.isclose, rtol 1e-5) is reported once with a
canonical text.  Bound: the catalogue below (~40 units, ~1600 ordered pairs).
"""
import json
import logging
import os
import random
import sys
from datetime import datetime

import numpy as np

import finam as fm
from finam.data import tools

logging.disable(logging.CRITICAL)
CATALOGUE = ["m", "meter", "km", "mm", "cm", "foot", "survey_foot", "mile", "s", "h", "d", "min", "m/s", "km/h", "mm/d", "L/m^2/d",
             "kg", "g", "kg/m^3", "g/cm^3", "N", "kg*m/s^2", "Pa", "hPa", "bar", "mmHg", "torr", "J", "W", "W/m^2",
             "degC", "K", "degF", "delta_degC", "", "dimensionless", "percent", "m^2", "ha", "m^3", "L", "mol", "1/s", "Hz"]


def main():
    seed = int(os.environ.get("VERIF_SEED", "0") or 0)
    rng = random.Random(seed)
    U = fm.UNITS
    units = []
    for name in CATALOGUE:
        try:
            units.append((name, U.Unit(name)))
        except Exception:  # unit not defined in this registry
            continue
    viol, known, n = [], {}, 0
    tools.clear_units_cache()
    answers = {}
    pairs = [(a, b) for a in units for b in units]
    for (na, ua), (nb, ub) in pairs:
        n += 1
        same_dim = ua.dimensionality == ub.dimensionality
        one = None
        if same_dim:
            try:
                one = float((1.0 * ua).to(ub).magnitude)
            except Exception:
                same_dim, one = False, None        # e.g. offset units that pint refuses to convert multiplicatively
        try:
            comp = bool(tools.compatible_units(ua, ub))
            equiv = bool(tools.equivalent_units(ua, ub))
        except Exception as e:  # noqa
            viol.append(f"compatible/equivalent_units({na!r}, {nb!r}) raised {type(e).__name__}: {str(e)[:80]}")
            continue
        answers[(na, nb)] = (comp, equiv)
        if comp != same_dim:
            viol.append(f"compatible_units({na!r}, {nb!r}) = {comp}, same dimension: {same_dim}")
            continue
        exact = same_dim and abs(one - 1.0) <= 1e-12
        if equiv != exact:
            if equiv and same_dim and abs(one - 1.0) <= 1.001e-5:
                known.setdefault("F17a", "equivalent_units is True for a pair whose conversion of 1 differs from 1 by less than 1e-5 (np.isclose tolerance), e.g. survey_foot/foot, mmHg/torr")
            else:
                viol.append(f"equivalent_units({na!r}, {nb!r}) = {equiv}, but converting 1 gives {one!r}")
            continue
        # conversion of data
        x = np.array([1.0, 2.5, -3.0])
        if same_dim:
            want = x.copy() if exact else np.asarray((x * ua).to(ub).magnitude)
            try:
                got = tools.to_units(U.Quantity(x.copy(), ua), ub, check_equivalent=True)
            except Exception as e:  # noqa
                viol.append(f"to_units({na!r} -> {nb!r}) raised {type(e).__name__}: {str(e)[:80]}")
                continue
            if got.units != ub or not np.allclose(np.asarray(got.magnitude), want, rtol=1e-12, atol=1e-12):
                viol.append(f"to_units({na!r} -> {nb!r}) = {np.asarray(got.magnitude).tolist()} {got.units}, dimensional analysis gives {want.tolist()} {ub}")
                continue
        if len(viol) >= 3:
            break
    # answers must not depend on the order of earlier queries (warm cache, shuffled, reversed pairs first)
    if len(viol) < 3:
        order = list(answers)
        rng.shuffle(order)
        for na, nb in order[:600]:
            n += 1
            ua, ub = U.Unit(na), U.Unit(nb)
            again = (bool(tools.compatible_units(ub, ua)), bool(tools.equivalent_units(ub, ua)))   # the reverse pair, cached or not
            now = (bool(tools.compatible_units(ua, ub)), bool(tools.equivalent_units(ua, ub)))
            if now != answers[(na, nb)]:
                viol.append(f"answer for ({na!r}, {nb!r}) changed from {answers[(na, nb)]} to {now} after other queries")
                break
            if again[0] != now[0]:
                viol.append(f"compatibility is not symmetric for ({na!r}, {nb!r})")
                break
    # a real link with foreign units: values received = converted values; incompatible units refused at connect
    if len(viol) < 3:
        t0 = datetime(2000, 1, 1)
        for na, nb in [("km", "m"), ("degC", "K"), ("K", "degC"), ("mm/d", "m/s"), ("hPa", "Pa"), ("m", "s"), ("mm/d", "L/m^2/d"), ("degF", "degC")]:
            n += 1
            try:
                ua, ub = U.Unit(na), U.Unit(nb)
            except Exception:
                continue
            out = fm.Output("o", fm.Info(time=t0, grid=fm.NoGrid(1), units=na))
            inp = fm.Input("i", fm.Info(time=t0, grid=fm.NoGrid(1), units=nb))
            out >> inp
            inp.ping()
            x = np.array([20.0, 0.0, -5.5])
            try:
                inp.exchange_info()
                out.push_data(x.copy(), t0)
                got = inp.pull_data(t0)
            except (fm.FinamMetaDataError, fm.FinamDataError):
                if ua.dimensionality == ub.dimensionality:
                    viol.append(f"link {na!r} -> {nb!r} refused although the units have the same dimension")
                continue
            except Exception as e:  # noqa
                viol.append(f"link {na!r} -> {nb!r} raised {type(e).__name__}: {str(e)[:80]}")
                continue
            if ua.dimensionality != ub.dimensionality:
                viol.append(f"link {na!r} -> {nb!r} accepted although the dimensions differ")
                continue
            want = np.asarray((x * ua).to(ub).magnitude)
            if not np.allclose(np.asarray(got.magnitude)[0], want, rtol=1e-12, atol=1e-9):
                viol.append(f"link {na!r} -> {nb!r} delivered {np.asarray(got.magnitude)[0].tolist()} {got.units}, dimensional analysis gives {want.tolist()} {nb}")
    return n, viol[:3] + sorted(known.values()), len(units)


if __name__ == "__main__":
    n, v, nu = main()
    if "--json" in sys.argv:
        print(json.dumps({"evaluations": n, "distinct_nontrivial": n, "violations": [{"case": x} for x in v],
                          "rule": f"all ordered pairs of {nu} catalogue units: compatible <=> same dimension, equivalent <=> conversion of 1 is 1, to_units and real links against pint's conversion, shuffled re-queries",
                          "bound": f"catalogue of {nu} units"}))
    else:
        real = [x for x in v if not x.startswith("equivalent_units is True for a pair whose")]
        print(("CONFIRMED " + (real or v)[0]) if v else f"NOT-CONFIRMED no violation among {n} checks over {nu} units")
