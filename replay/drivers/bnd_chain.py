"""Bounded native stand-in for pass-through adapters in front of buffering adapters (C12, C11, C09): what a time adapter buffered must
not change afterwards - an upstream adapter that hands out the same array object twice (or a view of its own state) would silently
rewrite the buffered history.  Chains  Output >> {Scale, ValueToGrid, Callback} >> {LinearTime, StepTime, SumOverTime, AvgOverTime} >> Input
with a non-constant series; every pull is compared with the value computed from the published series.
Bound: direct link + 3 upstream adapters x 4 time adapters x 4 (request pattern, memory limit) combinations x 12 publications.
"""
import json
import logging
import sys
from datetime import datetime, timedelta

import numpy as np

import finam as fm

logging.disable(logging.CRITICAL)
T0 = datetime(2000, 1, 1)
H = timedelta(hours=1)
SERIES = [3.0, 7.0, 2.0, 9.0, 4.0, 8.0, 1.0, 6.0, 5.0, 10.0, 0.5, 11.0]       # value published at hour 2*k


def upstream(kind, grid):
    if kind == "direct":
        return None, 1.0
    if kind == "Scale":
        return fm.adapters.Scale(2.0), 2.0
    if kind == "Callback":
        return fm.adapters.Callback(lambda d, t: d * 2.0), 2.0
    return fm.adapters.ValueToGrid(grid), 1.0


def expected(kind, f, t_prev, t):
    """value at request time t (hours) for the piecewise-linear series f(2k) = SERIES[k] * factor"""
    def lin(x):
        k = min(int(x // 2), len(SERIES) - 2)
        a, b = SERIES[k] * f, SERIES[k + 1] * f
        return a + (b - a) * (x - 2 * k) / 2.0

    if kind == "LinearTime":
        return lin(t)
    if kind == "StepTime":     # step position 0.5 (default): the earlier publication up to and including the midpoint, then the later one
        k = min(int(t // 2), len(SERIES) - 2)
        return SERIES[k + 1] * f if (t - 2 * k) / 2.0 > 0.5 else SERIES[k] * f
    # integral of the linear interpolant over [t_prev, t] (hours -> seconds for the per-time sum), exact by the trapezoid rule per piece
    pts = sorted({t_prev, t, *[2.0 * k for k in range(len(SERIES)) if t_prev < 2.0 * k < t]})
    area = sum((lin(a) + lin(b)) / 2.0 * (b - a) for a, b in zip(pts, pts[1:]))
    return area * 3600.0 if kind == "SumOverTime" else area / (t - t_prev)


def main():
    global SPILL
    import tempfile
    SPILL = tempfile.mkdtemp(prefix="verif_chain_")
    try:
        return _main()
    finally:
        import shutil
        shutil.rmtree(SPILL, ignore_errors=True)


def _main():
    viol, n = [], 0
    grid = fm.UniformGrid((3, 2))
    for up in ("direct", "Scale", "ValueToGrid", "Callback"):
        for kind in ("LinearTime", "StepTime", "SumOverTime", "AvgOverTime"):
            for pattern, limit in (((1, 3, 1), None), ((2, 1, 4), None), ((1, 3, 1), 64000000), ((3, 4, 5), 64000000)):
                # gaps between requests in hours (cycled); a memory limit that is never reached must not change anything either
                n += 1
                scalar = up == "ValueToGrid"
                units = "m/s" if kind == "SumOverTime" else "m"
                out = fm.Output("out", fm.Info(time=T0, grid=fm.NoGrid() if scalar else grid, units=units))
                u, f = upstream(up, grid)
                ad = fm.adapters.SumOverTime(step=None) if kind == "SumOverTime" else getattr(fm.adapters, kind)()      # linear integration
                inp = fm.Input("in", fm.Info(time=T0, grid=grid, units=None))
                if u is None:
                    out >> ad >> inp        # the time adapter buffers what the output hands out (possibly views of the output's own arrays)
                else:
                    out >> u >> ad >> inp
                if limit is not None:
                    for slot in (out, ad):
                        slot.memory_limit = limit
                        slot.memory_location = SPILL
                inp.ping()
                inp.exchange_info()
                tag = f"Output >> {up} >> {kind} >> Input, request gaps {pattern} h, memory limit {limit}"
                try:
                    out.push_data(SERIES[0] if scalar else np.full(grid.data_shape, SERIES[0]), T0)
                    inp.pull_data(T0)
                    t_prev, t, published, i = 0.0, 0.0, 0, 0
                    while True:
                        t = t_prev + pattern[i % len(pattern)]
                        i += 1
                        if t > 2 * (len(SERIES) - 1):
                            break
                        while 2 * published < t:
                            published += 1
                            out.push_data(SERIES[published] if scalar else np.full(grid.data_shape, SERIES[published]), T0 + 2 * published * H)
                        got = inp.pull_data(T0 + t * H)
                        want = expected(kind, f, t_prev, t)
                        g = np.asarray(got.magnitude).reshape(-1)
                        if not np.allclose(g, want, rtol=1e-9, atol=1e-9):
                            viol.append(f"{tag}: request at hour {t:g} (previous {t_prev:g}) delivered {float(g[0]):g}, expected {want:g}")
                            break
                        t_prev = t
                except Exception as e:  # noqa
                    viol.append(f"{tag}: {type(e).__name__}: {str(e)[:100]}")
                if len(viol) >= 3:
                    return n, viol
    return n, viol


if __name__ == "__main__":
    n, v = main()
    if "--json" in sys.argv:
        print(json.dumps({"evaluations": n, "distinct_nontrivial": n, "violations": [{"case": x} for x in v[:3]],
                          "rule": "Output >> {Scale, ValueToGrid, Callback} >> {LinearTime, StepTime, SumOverTime, AvgOverTime} >> Input with a non-constant series: every pull equals the value computed from the published series",
                          "bound": "direct link + 3 upstream adapters x 4 time adapters x 4 (request pattern, memory limit: none / never reached) x 12 publications", "exhaustive": True}))
    else:
        print(("CONFIRMED " + v[0]) if v else f"NOT-CONFIRMED {n} adapter chains deliver the values computed from the published series")
