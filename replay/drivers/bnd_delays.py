"""Bounded native stand-in for the delay adapters (C13) with *calendar* delays and steps, which the contracts (times as numbers, delays
as differences) do not cover: DelayFixed.with_delay(t) = max(t - delay, first publication time) for timedelta and relativedelta delays,
start times at month ends included, both as a function and inside a real Composition (delivered value = source value at that time).
Bound: 6 delays x 5 start dates x 70 daily requests; 8 compositions.
"""
import json
import logging
import sys
from datetime import datetime, timedelta

from dateutil.relativedelta import relativedelta

import finam as fm

import _guard

logging.disable(logging.CRITICAL)
DAY = timedelta(days=1)


def function_level(viol):
    n = 0
    delays = [timedelta(0), timedelta(days=2), timedelta(hours=36), relativedelta(months=1), relativedelta(days=3), relativedelta(years=1)]
    starts = [datetime(2001, 1, 1), datetime(2001, 1, 30), datetime(2001, 1, 31), datetime(2000, 2, 29), datetime(2001, 3, 31)]
    for delay in delays:
        for start in starts:
            ad = fm.adapters.DelayFixed(delay)
            ad.initial_time = start
            for k in range(70):
                n += 1
                t = start + k * DAY * (6 if isinstance(delay, relativedelta) and delay.years else 1)
                want = t - delay if t - delay >= start else start
                got = ad.with_delay(t)
                if got != want:
                    viol.append(f"DelayFixed({delay!r}) with first publication {start:%Y-%m-%d}: request {t:%Y-%m-%d} is served from {got:%Y-%m-%d}, "
                                f"expected max(t - delay, start) = {want:%Y-%m-%d}")
                    return n
    return n


def composition_level(viol):
    n = 0
    for delay in (timedelta(days=2), relativedelta(months=1)):
        for start in (datetime(2001, 1, 1), datetime(2001, 1, 31)):
            for step in (1, 3):
                n += 1
                info = fm.Info(time=None, grid=fm.NoGrid(), units="")
                gen = fm.components.CallbackGenerator({"Out": (lambda t, s=start: float((t - s).days), info)}, start=start, step=DAY)
                cons = fm.components.DebugConsumer({"In": fm.Info(time=None, grid=fm.NoGrid(), units="")}, start=start, step=step * DAY)
                comp = fm.Composition([gen, cons], print_log=False, slot_memory_location=None)
                gen.outputs["Out"] >> fm.adapters.DelayFixed(delay) >> cons.inputs["In"]
                seen = []
                orig = cons.update

                def upd(_o=orig, cons=cons, seen=seen):
                    _o()
                    seen.append((cons.time, float(cons.data["In"].magnitude.reshape(-1)[0])))

                cons.update = upd
                try:
                    with _guard.limit(120.0):
                        comp.run(start_time=start, end_time=start + 70 * DAY)
                except Exception as e:  # noqa
                    viol.append(f"run with DelayFixed({delay!r}) from {start:%Y-%m-%d}, consumer step {step} d failed: {type(e).__name__}: {str(e)[:100]}")
                    return n
                for t, v in seen:
                    src_t = t - delay if t - delay >= start else start
                    if abs(v - float((src_t - start).days)) > 1e-9:
                        viol.append(f"DelayFixed({delay!r}) from {start:%Y-%m-%d}: at {t:%Y-%m-%d} the consumer got the value of day {v:g}, expected the value of {src_t:%Y-%m-%d} (day {(src_t - start).days})")
                        return n
    return n


if __name__ == "__main__":
    v = []
    n = function_level(v)
    if not v:
        n += composition_level(v)
    if "--json" in sys.argv:
        print(json.dumps({"evaluations": n, "distinct_nontrivial": n, "violations": [{"case": x} for x in v[:3]],
                          "rule": "DelayFixed with timedelta and calendar (relativedelta) delays: with_delay(t) = max(t - delay, first publication), and the value delivered in a real Composition is the source's value at that time",
                          "bound": "6 delays x 5 start dates (month ends included) x 70 requests; 8 compositions over 70 days", "exhaustive": True}))
    else:
        print(("CONFIRMED " + v[0]) if v else f"NOT-CONFIRMED {n} delayed requests served from max(t - delay, start)")
