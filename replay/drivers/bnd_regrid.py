"""Bounded native stand-in / replay for the regridding adapters (C16) on real numpy / scipy.

For small source / target grids (uniform in all 8 2-D layouts and both orders, rectilinear with irregular axes,
1-D, 3-D, unstructured points; cell and point data) x source masks x target masks, data is sent through a real
link  Output >> RegridNearest | RegridLinear >> Input  and compared with an independent oracle working on physical
coordinates (taken from data_axes, i.e. independent of data_points / compression order):

 nearest: every unmasked target location carries the value of an unmasked source location at minimal Euclidean
          distance (ties: any of them); masked target cells stay masked; a sentinel under the source mask never
          shows up; different layouts of the same grid give the identity.
 linear (unstructured or masked source): an affine field is reproduced inside the convex hull of the unmasked
          source locations; outside: masked, or the nearest value with fill_with_nearest.
Bound: grids with <= 30 locations; VERIF_SEED selects masks / values.
"""
import itertools
import json
import os
import random
import sys
from datetime import datetime

import numpy as np

import finam as fm

T0 = datetime(2000, 1, 1)
SENTINEL = 1.0e30


def coords_of(grid):
    """physical coordinate of every data index, array of shape data_shape + (dim,) -- from data_axes, not data_points"""
    if isinstance(grid, fm.UnstructuredGrid) and grid.data_location == fm.Location.CELLS:
        # cell centres computed here from the cell definitions (mean of the nodes of each cell, padding ignored)
        nn = {int(fm.CellType.TRI): 3, int(fm.CellType.QUAD): 4, int(fm.CellType.LINE): 2, int(fm.CellType.VERTEX): 1,
              int(fm.CellType.TETRA): 4, int(fm.CellType.HEX): 8}
        pts = np.asarray(grid.points)
        return np.array([pts[np.asarray(c)[: nn[int(t)]]].mean(axis=0) for c, t in zip(grid.cells, grid.cell_types)])
    if isinstance(grid, (fm.UnstructuredPoints, fm.UnstructuredGrid)) or not hasattr(grid, "data_axes"):
        return np.asarray(grid.data_points).reshape(tuple(grid.data_shape) + (grid.dim,))
    axes = grid.data_axes                       # one axis per data dimension, in data order
    shape = tuple(len(a) for a in axes)
    assert shape == tuple(grid.data_shape), (shape, grid.data_shape)
    mesh = np.meshgrid(*axes, indexing="ij")    # mesh[k][idx] = coordinate along data dimension k
    phys = list(mesh[::-1]) if grid.axes_reversed else list(mesh)   # physical x, y, z
    return np.stack(phys, axis=-1)


def send(adapter, in_grid, out_grid, data, in_mask, out_mask):
    out = fm.Output("o", fm.Info(time=T0, grid=in_grid, units="m", mask=in_mask))
    inp = fm.Input("i", fm.Info(time=T0, grid=out_grid, units=None, mask=out_mask))
    out >> adapter >> inp
    inp.ping()
    out.push_info(fm.Info(time=T0, grid=in_grid, units="m", mask=in_mask))
    inp.exchange_info()
    out.push_data(data, T0)
    return inp.pull_data(T0).magnitude[0]


def uniform_layouts(dims, loc):
    for order in ("F", "C"):
        for rev in (False, True):
            for inc in itertools.product((True, False), repeat=len(dims)):
                yield f"uniform{dims} order={order} rev={rev} inc={list(inc)} {loc.name}", \
                    fm.UniformGrid(dims, order=order, axes_reversed=rev, axes_increase=list(inc), data_location=loc)


def sources(rng, thorough):
    C, P = fm.Location.CELLS, fm.Location.POINTS
    lay = list(uniform_layouts((4, 3), C))
    for nm, g in (lay if thorough else [lay[i] for i in (0, 3, 5, 6, 9, 12, 15)]):
        yield nm, g
    yield "uniform(4,3) points", fm.UniformGrid((4, 3), data_location=P)
    yield "uniform(5,) cells", fm.UniformGrid((5,))
    yield "uniform(3,3,3) cells C", fm.UniformGrid((3, 3, 3), order="C")
    yield "rectilinear irregular", fm.RectilinearGrid([np.array([0.0, 0.7, 2.0, 2.4]), np.array([0.0, 1.5, 1.9])])
    yield "rectilinear irregular rev C", fm.RectilinearGrid([np.array([0.0, 0.7, 2.0, 2.4]), np.array([0.0, 1.5, 1.9])], order="C", axes_reversed=True)
    pts = np.array([[0.1, 0.2], [2.3, 0.1], [1.2, 1.7], [0.4, 1.1], [2.0, 1.4], [1.1, 0.6], [2.9, 1.9]])
    yield "unstructured points", fm.UnstructuredPoints(pts)
    # mixed mesh: one quad and three triangles (cells of fewer nodes are padded with -1)
    mp = np.array([[0.0, 0.0], [1.5, 0.0], [1.5, 1.2], [0.0, 1.2], [3.0, 0.3], [3.2, 1.9], [1.4, 2.4], [0.1, 2.2]])
    mc = np.array([[0, 1, 2, 3], [1, 4, 2, -1], [4, 5, 2, -1], [3, 2, 6, -1]])
    mt = np.array([fm.CellType.QUAD, fm.CellType.TRI, fm.CellType.TRI, fm.CellType.TRI])
    yield "unstructured mixed cells", fm.UnstructuredGrid(points=mp, cells=mc, cell_types=mt, data_location=fm.Location.CELLS)
    yield "unstructured mixed cells, point data", fm.UnstructuredGrid(points=mp, cells=mc, cell_types=mt, data_location=fm.Location.POINTS)


def targets(thorough):
    C, P = fm.Location.CELLS, fm.Location.POINTS
    yield "uniform(6,5) sp0.6", fm.UniformGrid((6, 5), spacing=(0.6, 0.55))
    yield "uniform(6,5) sp0.6 C rev dec", fm.UniformGrid((6, 5), spacing=(0.6, 0.55), order="C", axes_reversed=True, axes_increase=[True, False])
    yield "uniform(4,3) same F", fm.UniformGrid((4, 3))
    yield "uniform(4,3) same C rev", fm.UniformGrid((4, 3), order="C", axes_reversed=True)
    yield "uniform(4,3) same dec", fm.UniformGrid((4, 3), axes_increase=[False, True])
    yield "points target", fm.UnstructuredPoints(np.array([[0.5, 0.5], [1.4, 0.9], [2.6, 1.6], [0.2, 1.9], [3.5, 0.2]]))
    if thorough:
        yield "uniform(5,4) points", fm.UniformGrid((5, 4), spacing=(0.7, 0.6), data_location=P)


def masks_for(rng, shape, n):
    yield "none", fm.Mask.NONE, np.zeros(shape, dtype=bool)
    size = int(np.prod(shape))
    for k in range(n):
        m = np.array([rng.random() < 0.35 for _ in range(size)]).reshape(shape)
        if m.all():
            m.reshape(-1)[0] = False
        yield f"fixed#{k}", m, m


def nearest_oracle(src_xy, src_val, src_keep, tgt_xy):
    """for each target location: (minimal distance, set of admissible values)"""
    sx = src_xy.reshape(-1, src_xy.shape[-1])[src_keep.reshape(-1)]
    sv_ = src_val.reshape(-1)[src_keep.reshape(-1)]
    out = []
    for p in tgt_xy.reshape(-1, tgt_xy.shape[-1]):
        d = np.sqrt(((sx - p) ** 2).sum(axis=1))
        dmin = d.min()
        out.append(set(np.round(sv_[d <= dmin * (1 + 1e-9) + 1e-12], 9)))
    return out


def check_nearest(rng, thorough, stats, viol):
    for (sn, sg), (tn, tg) in itertools.product(sources(rng, thorough), targets(thorough)):
        if sg.dim != tg.dim:
            continue
        sshape, tshape = tuple(sg.data_shape), tuple(tg.data_shape)
        sxy, txy = coords_of(sg), coords_of(tg)
        for (smn, smask, sm), (tmn, tmask, tm) in itertools.product(masks_for(rng, sshape, 2 if thorough else 1), masks_for(rng, tshape, 1)):
            vals = np.array([float(rng.randint(1, 999)) + 0.25 for _ in range(int(np.prod(sshape)))]).reshape(sshape)
            data = vals.copy()
            if smn != "none":
                data = np.ma.array(np.where(sm, SENTINEL, vals), mask=sm)
            tag = f"nearest: source {sn} mask={smn}; target {tn} mask={tmn}"
            stats["runs"] += 1
            try:
                got = send(fm.adapters.RegridNearest(), sg, tg, data, smask, fm.Mask.FLEX if tmn == "none" else tmask)
            except Exception as e:  # noqa
                viol.append(f"{type(e).__name__}: {str(e)[:120]} [{tag}]")
                continue
            gmask = np.ma.getmaskarray(got)
            gvals = np.ma.getdata(got)
            if tmn != "none" and not np.array_equal(gmask, tm):
                viol.append(f"target mask not kept: {gmask.astype(int).tolist()} expected {tm.astype(int).tolist()} [{tag}]")
                continue
            if tmn == "none" and gmask.any():
                viol.append(f"unmasked target has masked cells [{tag}]")
                continue
            adm = nearest_oracle(sxy, vals, ~sm, txy)
            flat_vals, flat_mask = gvals.reshape(-1), gmask.reshape(-1)
            for j, ok in enumerate(adm):
                if flat_mask[j]:
                    continue
                stats["cells"] += 1
                if round(float(flat_vals[j]), 9) not in ok:
                    idx = np.unravel_index(j, tshape)
                    what = "a value under the source mask" if flat_vals[j] == SENTINEL else "not a nearest source value"
                    viol.append(f"target index {tuple(int(i) for i in idx)} at {txy.reshape(-1, txy.shape[-1])[j].tolist()} got {flat_vals[j]} ({what}; nearest: {sorted(ok)}) [{tag}]")
                    break
            if len(viol) >= 3:
                return


def check_linear(rng, thorough, stats, viol):
    from scipy.spatial import Delaunay

    a, b, c = 2.0, 0.75, -1.25
    srcs = [(n, g) for n, g in sources(rng, thorough) if g.dim == 2]
    tgts = [(n, g) for n, g in targets(thorough) if g.dim == 2]
    for (sn, sg), (tn, tg) in itertools.product(srcs, tgts):
        sshape, tshape = tuple(sg.data_shape), tuple(tg.data_shape)
        sxy, txy = coords_of(sg), coords_of(tg)
        unstructured = isinstance(sg, (fm.UnstructuredPoints, fm.UnstructuredGrid))
        for smn, smask, sm in masks_for(rng, sshape, 1):
            if not unstructured and smn == "none":
                continue        # structured unmasked sources take the RegularGridInterpolator path (outside the property)
            keep = ~sm
            pts = sxy.reshape(-1, 2)[keep.reshape(-1)]
            if len(pts) < 4:
                continue
            try:
                tri = Delaunay(pts)
            except Exception:  # degenerate point sets
                continue
            field = a + b * sxy[..., 0] + c * sxy[..., 1]
            data = field.copy()
            if smn != "none":
                data = np.ma.array(np.where(sm, SENTINEL, field), mask=sm)
            tq = txy.reshape(-1, 2)
            inside = tri.find_simplex(tq, tol=1e-9) >= 0
            # locations too close to the hull boundary are not judged
            eps = 1e-6
            centre = pts.mean(axis=0)
            shrunk = tri.find_simplex(centre + (tq - centre) * (1 + eps)) >= 0
            grown = tri.find_simplex(centre + (tq - centre) * (1 - eps)) >= 0
            decided = (inside == shrunk) & (inside == grown)
            for fill in (False, True):
                tag = f"linear fill={fill}: source {sn} mask={smn}; target {tn}"
                stats["runs"] += 1
                try:
                    got = send(fm.adapters.RegridLinear(fill_with_nearest=fill), sg, tg, data, smask, fm.Mask.FLEX)
                except Exception as e:  # noqa
                    viol.append(f"{type(e).__name__}: {str(e)[:120]} [{tag}]")
                    continue
                gmask = np.ma.getmaskarray(got).reshape(-1)
                gvals = np.ma.getdata(got).reshape(-1)
                exact = a + b * tq[:, 0] + c * tq[:, 1]
                near = nearest_oracle(sxy, field, keep, txy)
                for j in range(len(tq)):
                    if not decided[j]:
                        continue
                    stats["cells"] += 1
                    if inside[j]:
                        if gmask[j] or abs(gvals[j] - exact[j]) > 1e-8 * max(1.0, abs(exact[j])):
                            viol.append(f"inside the hull at {tq[j].tolist()}: got {'masked' if gmask[j] else gvals[j]}, affine field gives {exact[j]} [{tag}]")
                            break
                    elif not fill:
                        if not gmask[j]:
                            viol.append(f"outside the hull at {tq[j].tolist()}: not masked ({gvals[j]}) [{tag}]")
                            break
                    else:
                        if gmask[j] or round(float(gvals[j]), 9) not in near[j]:
                            viol.append(f"outside the hull at {tq[j].tolist()}: got {'masked' if gmask[j] else gvals[j]}, nearest values {sorted(near[j])} [{tag}]")
                            break
                if len(viol) >= 3:
                    return
            # an explicit target mask must cover everything outside the hull: a partial one is refused (FinamDataError),
            # a complete one is kept as it is
            outside = decided & ~inside
            if outside.sum() >= 2:
                full = (~inside | ~decided).reshape(tshape)          # masks every location that is (or may be) outside
                part = full.copy()
                first = np.flatnonzero(outside)[0]
                part.reshape(-1)[first] = False                      # leaves one outside location unmasked
                for name, om, must_refuse in (("complete", full, False), ("partial", part, True)):
                    tag = f"linear with explicit {name} target mask: source {sn} mask={smn}; target {tn}"
                    stats["runs"] += 1
                    try:
                        got = send(fm.adapters.RegridLinear(fill_with_nearest=False, out_mask=om), sg, tg, data, smask, fm.Mask.FLEX)
                        refused = False
                    except (fm.FinamDataError, fm.FinamMetaDataError):
                        refused = True
                    except Exception as e:  # noqa
                        viol.append(f"{type(e).__name__}: {str(e)[:120]} [{tag}]")
                        continue
                    if refused != must_refuse:
                        viol.append(f"target mask that leaves an outside-hull location unmasked was {'refused' if refused else 'accepted'} "
                                    f"(expected {'refusal' if must_refuse else 'acceptance'}) [{tag}]")
                    elif not refused:
                        gm = np.ma.getmaskarray(got)
                        if not np.array_equal(gm, om):
                            viol.append(f"explicit target mask not kept [{tag}]")
                        elif np.isnan(np.ma.getdata(got)[~gm]).any():
                            viol.append(f"NaN delivered at an unmasked target location [{tag}]")
                if len(viol) >= 3:
                    return


def main():
    seed = int(os.environ.get("VERIF_SEED", "0") or 0)
    thorough = "--tier" in sys.argv and sys.argv[sys.argv.index("--tier") + 1] == "thorough"
    rng = random.Random(seed)
    stats = {"runs": 0, "cells": 0}
    viol = []
    check_nearest(rng, thorough, stats, viol)
    if len(viol) < 3:
        check_linear(rng, thorough, stats, viol)
    return stats, viol


if __name__ == "__main__":
    import logging
    logging.disable(logging.CRITICAL)
    st, v = main()
    if "--json" in sys.argv:
        print(json.dumps({"evaluations": st["cells"], "distinct_nontrivial": st["runs"], "violations": [{"case": x} for x in v[:3]],
                          "rule": "real links Output >> RegridNearest / RegridLinear >> Input over small grids (layouts, orders, locations, masks); every unmasked target location compared with a coordinate-based oracle; distinct = adapter runs",
                          "bound": "grids with <= 30 locations, 1-3 D; one or two random masks per grid pair (VERIF_SEED)"}))
    else:
        print(("CONFIRMED " + v[0]) if v else f"NOT-CONFIRMED no violation among {st['cells']} target locations in {st['runs']} regridding runs")
