"""Native search for a failing event sequence on a real Output (retention / nearest / spilling).

Used as replay for obligations of Output._clear_data / get_data / pinged / _pack / finalize: the
solver's counter-model is a state of one call; this driver looks for a *history* of public API calls
(push_data / pull_data / finalize) on real objects that exhibits a property-level failure:
  * a pull returns something else than the publication nearest to t in the full history (C08/C09)
  * a pull inside [oldest a consumer may request, newest] raises (C09)
  * after every consumer pulled, more than 1 + #{publications newer than the slowest request} retained (C09)
  * results differ between memory limit None and 0, files outside the location or left after finalize (C10)
Bounded: <= 6 publications, 1-3 consumers, gaps from {1,2,3,5} time units of 1 us and 1 s.
"""
import itertools
import os
import random
import shutil
import sys
import tempfile
from datetime import timedelta

import numpy as np

import finam as fm
from common import EPOCH, load, verdict


def build(n_cons, limit, loc, fan=False):
    out = fm.Output("out", fm.Info(time=EPOCH, grid=fm.NoGrid(), units="m"))
    ins = [fm.Input(f"in{i}", fm.Info(time=EPOCH, grid=fm.NoGrid(), units="m")) for i in range(n_cons)]
    if fan and n_cons > 1:
        # consumers branch off behind one pass-through adapter: one direct target, several end consumers
        ad = fm.adapters.Scale(1.0)
        out >> ad
        for i in ins[:-1]:
            ad >> i
        out >> ins[-1] if n_cons > 2 else ad >> ins[-1]
    else:
        for i in ins:
            out >> i
    for i in ins:
        i.ping()
    out.memory_limit = limit
    out.memory_location = loc
    for i in ins:
        i.exchange_info()
    return out, ins


def run(events, n_cons, limit, loc, unit, fan=False):
    """events: ('push', t) | ('pull', c, t); returns None or failure text"""
    out, ins = build(n_cons, limit, loc, fan)
    hist = []
    last = [None] * n_cons
    try:
        for ev in events:
            if ev[0] == "push":
                t = ev[1]
                out.push_data(np.array(float(len(hist))), EPOCH + t * unit)
                hist.append(t)
            else:
                _, c, t = ev
                try:
                    r = ins[c].pull_data(EPOCH + t * unit)
                except fm.FinamTimeError as e:
                    return f"pull({c},{t}) inside the published range raised FinamTimeError: {e}"
                k = int(round(float(r.magnitude.reshape(-1)[0])))
                best = min(abs(t - h) for h in hist)
                if abs(t - hist[k]) != best:
                    return f"pull({c},{t}) returned publication {hist[k]} (distance {abs(t - hist[k])}), nearest distance {best}; history {hist}"
                last[c] = t
                if all(x is not None for x in last):
                    newer = sum(1 for h in hist if h > min(last))
                    if len(out.data) > newer + 1:
                        return f"retained {len(out.data)} entries, bound is {newer + 1}; history {hist}, last requests {last}"
            if loc is not None:
                files = os.listdir(loc)
                spilled = sum(1 for _t, d in out.data if isinstance(d, str))
                if len(files) != spilled:
                    return f"{len(files)} spill files on disk for {spilled} spilled entries (leak or loss)"
        out.finalize()
        if loc is not None and os.listdir(loc):
            return f"files left after finalize: {os.listdir(loc)}"
    except Exception as e:  # any other exception in a legal history
        return f"{e.__class__.__name__}: {e}"
    return None


def gen_events(rng, n_cons):
    n_push = rng.randint(1, 6)
    t = 0
    pushes = []
    for _ in range(n_push):
        pushes.append(t)
        t += rng.choice([1, 2, 3, 5])
    events = []
    last = [pushes[0]] * n_cons
    pi = 0
    events.append(("push", pushes[0]))
    pi = 1
    while pi < len(pushes) or rng.random() < 0.6:
        if pi < len(pushes) and rng.random() < 0.5:
            events.append(("push", pushes[pi]))
            pi += 1
        else:
            c = rng.randrange(n_cons)
            hi = pushes[pi - 1]
            if last[c] > hi:
                continue
            tq = rng.randint(last[c], hi)
            events.append(("pull", c, tq))
            last[c] = tq
        if len(events) > 14:
            break
    return events


def main():
    seed = int(os.environ.get("VERIF_SEED", "0") or 0)
    rng = random.Random(seed)
    n = int(os.environ.get("SEQ_N", "1500"))
    loc = tempfile.mkdtemp(prefix="verif_spill_")
    try:
        for it in range(n):
            n_cons = rng.choice([1, 1, 2, 3])
            ev = gen_events(rng, n_cons)
            unit = rng.choice([timedelta(microseconds=1), timedelta(seconds=1)])
            fan = rng.random() < 0.4
            for limit, l in ((None, None), (0, loc)):
                f = run(ev, n_cons, limit, l, unit, fan)
                for fn in os.listdir(loc):
                    os.unlink(os.path.join(loc, fn))
                if f:
                    return True, f"failing history (unit {unit}, consumers {n_cons}, behind-one-adapter {fan}, memory_limit {limit}): {ev} -> {f}"
        return False, f"no failing history among {n} sampled event sequences x 2 memory limits"
    finally:
        shutil.rmtree(loc, ignore_errors=True)


if __name__ == "__main__":
    if len(sys.argv) > 1 and sys.argv[1] not in ("-", "--tier", "--json", "--seed"):
        rep = load()
    if "--seed" in sys.argv:
        os.environ["VERIF_SEED"] = sys.argv[sys.argv.index("--seed") + 1]
    if "--tier" in sys.argv and sys.argv[sys.argv.index("--tier") + 1] == "thorough":
        os.environ.setdefault("SEQ_N", "20000")
    ok, msg = main()
    if "--json" in sys.argv:
        import json
        n = int(os.environ.get("SEQ_N", "1500"))
        print(json.dumps({"evaluations": 2 * n, "distinct_nontrivial": n, "violations": [{"case": msg}] if ok else [],
                          "rule": "random push/pull event sequences on a real Output with 1-3 direct or adapter-fanned consumers, x {no limit, limit 0}; distinct = sampled sequences (seeded)",
                          "bound": "<= 6 publications, <= 14 events, gaps {1,2,3,5}"}))
    else:
        verdict(ok, msg)
