"""replay of counterexamples for Output._interpolate / get_data on a real Output"""
import numpy as np
import finam as fm
from common import T, load, verdict

rep = load()
w = rep["witness"]
hist = w.get("self.data") or []
req = w.get("time")
out = fm.Output("out", fm.Info(time=None, grid=fm.NoGrid(), units=None))
out.data = [(T(t), fm.UNITS.Quantity(np.array(float(i)), "")) for i, (t, _e) in enumerate(hist)]
times = [t for t, _ in hist]
try:
    res = out._interpolate(T(req))
except fm.FinamTimeError as e:
    inside = times and times[0] <= req <= times[-1]
    verdict(bool(inside), f"FinamTimeError for a request inside the retained range: {e}")
k = int(res.magnitude)
best = min(abs(req - t) for t in times)
ok = abs(req - times[k]) == best
verdict(not ok, f"history(us)={times} request={req}: real Output._interpolate returned entry {k} at distance "
                f"{abs(req - times[k])}us, nearest distance is {best}us")
