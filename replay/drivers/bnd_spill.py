"""Bounded native stand-in for C10 at the level of a whole Composition: spilling is invisible and leaves nothing behind, wherever the
limit is configured.

A daily generator feeds a 3-day consumer directly and through LinearTime / AvgOverTime / DelayFixed.  Each configuration is run
without any memory limit (reference) and with the limit configured (a) composition-wide, (b) on the output slot only, (c) on the
adapter only, (d) on both slots, for a spill directory that (1) is the default relative one, (2) does not exist yet, (3) is nested
and does not exist yet, (4) exists.  Checked: the run completes, the consumer sees exactly the reference data (values and mask),
spill files appear only below the configured directory, and none is left after the run.
Bound: 4 link shapes x 2 payload kinds x 4 limit placements x 4 directories, 12 days.
"""
import json
import logging
import os
import shutil
import sys
import tempfile
from datetime import datetime, timedelta

import numpy as np

import finam as fm

import _guard

logging.disable(logging.CRITICAL)
T0 = datetime(2000, 1, 1)
DAY = timedelta(days=1)
GRID = fm.UniformGrid((5, 4))


def payload(t, masked):
    a = np.arange(12, dtype=float).reshape(GRID.data_shape) + 100.0 * (t - T0).days
    if masked:
        m = np.zeros(GRID.data_shape, dtype=bool)
        m[0, 0] = True
        return np.ma.array(a, mask=m)
    return a


def npy_files(root):
    out = []
    for d, _dirs, files in os.walk(root):
        out += [os.path.join(d, f) for f in files if f.endswith(".npy")]
    return out


def run(link, masked, where, location, work):
    """returns (series, stray files seen during the run, files left afterwards)"""
    info = fm.Info(time=None, grid=GRID, units="m", mask=(payload(T0, True).mask if masked else fm.Mask.NONE))
    gen = fm.components.CallbackGenerator({"Out": (lambda t: payload(t, masked), info)}, start=T0, step=DAY)
    cons = fm.components.DebugConsumer({"In": fm.Info(time=None, grid=None, units=None)}, start=T0, step=3 * DAY)
    kw = {}
    if location is not None:
        kw["slot_memory_location"] = location
    if where == "global":
        kw["slot_memory_limit"] = 0
    comp = fm.Composition([gen, cons], print_log=False, **kw)
    adapter = {"direct": None, "LinearTime": fm.adapters.LinearTime, "AvgOverTime": fm.adapters.AvgOverTime,
               "DelayFixed": lambda: fm.adapters.DelayFixed(timedelta(days=1))}[link]
    adapter = adapter() if adapter else None
    if where in ("slot", "both"):
        gen.outputs["Out"].memory_limit = 0
    if adapter is not None and where in ("adapter", "both") and hasattr(adapter, "memory_limit"):
        adapter.memory_limit = 0
    if adapter is None:
        gen.outputs["Out"] >> cons.inputs["In"]
    else:
        gen.outputs["Out"] >> adapter >> cons.inputs["In"]
    series, stray, seen = [], [], []
    loc_abs = os.path.abspath(location if location is not None else "temp")
    orig = cons.update

    def upd():
        orig()
        d = cons.data["In"]
        series.append((cons.time, np.ma.getdata(d.magnitude).copy(), np.ma.getmaskarray(d.magnitude).copy(), str(d.units)))
        for f in npy_files(work):
            seen.append(f)
            if not os.path.abspath(f).startswith(loc_abs + os.sep):
                stray.append(f)

    cons.update = upd
    with _guard.limit(120.0):
        comp.run(start_time=T0, end_time=T0 + 12 * DAY)
    return series, stray, npy_files(work), len(seen)


def main():
    viol, n, spilled = [], 0, 0
    cwd0 = os.getcwd()
    for link in ("direct", "LinearTime", "AvgOverTime", "DelayFixed"):
        for masked in (False, True):
            ref = None
            for where in ("none", "global", "slot", "adapter", "both"):
                if link == "direct" and where in ("adapter", "both"):
                    continue
                for locname in ("default", "fresh", "nested", "existing"):
                    if where == "none" and locname != "default":
                        continue
                    work = tempfile.mkdtemp(prefix="verif_spill_")
                    os.chdir(work)
                    location = {"default": None, "fresh": os.path.join(work, "spill"), "nested": os.path.join(work, "a", "b", "spill"),
                                "existing": os.path.join(work, "there")}[locname]
                    if locname == "existing":
                        os.makedirs(location)
                    tag = f"link={link} masked={masked} limit={where} directory={locname}"
                    n += 1
                    try:
                        series, stray, left, nseen = run(link, masked, where, location, work)
                        spilled += 1 if nseen else 0
                    except Exception as e:  # noqa
                        viol.append(f"run with a memory limit failed although the unlimited run works: {type(e).__name__}: {str(e)[:120]} [{tag}]")
                        continue
                    finally:
                        os.chdir(cwd0)
                        shutil.rmtree(work, ignore_errors=True)
                    if where == "none":
                        ref = series
                        continue
                    if stray:
                        viol.append(f"spill file outside the configured directory: {os.path.relpath(stray[0], work)} [{tag}]")
                    if left:
                        viol.append(f"{len(left)} spill file(s) left after the run, e.g. {os.path.relpath(left[0], work)} [{tag}]")
                    if len(series) != len(ref):
                        viol.append(f"{len(series)} updates instead of {len(ref)} [{tag}]")
                        continue
                    for (t, d, m, u), (t0, d0, m0, u0) in zip(series, ref):
                        if t != t0 or u != u0 or not np.array_equal(m, m0) or not np.allclose(d[~m], d0[~m0], rtol=1e-12, atol=0):
                            viol.append(f"data at {t} differs from the unlimited run [{tag}]")
                            break
                if len(viol) >= 3:
                    break
            if len(viol) >= 3:
                break
        if len(viol) >= 3:
            break
    if not viol and spilled == 0:
        raise RuntimeError("no run spilled anything: the stand-in does not exercise the property")
    return n, viol, spilled


if __name__ == "__main__":
    n, v, spilled = main()
    if "--json" in sys.argv:
        print(json.dumps({"evaluations": n, "distinct_nontrivial": spilled, "violations": [{"case": x} for x in v[:3]],
                          "rule": "whole Compositions (generator -> [adapter] -> consumer) with the memory limit configured composition-wide / per output / per adapter / both, for a default, a missing, a nested missing and an existing spill directory: same data as the unlimited run, files only below the directory, none left",
                          "bound": "4 link shapes x plain / masked x 4 limit placements x 4 directories; 12 days", "exhaustive": True}))
    else:
        print(("CONFIRMED " + v[0]) if v else f"NOT-CONFIRMED {n} runs ({spilled} with spill files on disk during the run) equal the unlimited ones, nothing left behind")
