"""Bounded native check of the interface assumptions the scheduling proofs make about components, for the components finam ships:

  every time-stepped finam component with inputs (CallbackComponent, DebugConsumer, TimeTrigger, CsvWriter) pulls its inputs during
  update() exactly for the time it announced as next_time before the update (C01 / C02: the time the driver checks is the time that
  is requested), advances its time to that announced time, and pushes its outputs for it.

Each component is driven inside a real Composition by a daily generator for several steps (1, 2, 3, 5 days); all requests that reach
the generator's output are recorded.  Bound: 4 component classes x 6 steps (1, 2, 3, 5 days, one calendar month from the 1st and from the 31st) x 12 / 100 days.
"""
import json
import logging
import os
import sys
import tempfile
from datetime import datetime, timedelta

import numpy as np

import finam as fm

import _guard

logging.disable(logging.CRITICAL)
T0 = datetime(2000, 1, 1)
DAY = timedelta(days=1)


def make_consumer(kind, step, start=T0):
    info = fm.Info(time=None, grid=fm.NoGrid(), units="")
    if kind == "CallbackComponent":
        return fm.components.CallbackComponent(inputs={"In": info}, outputs={"Out": fm.Info(time=None, grid=fm.NoGrid(), units="")},
                                               callback=lambda inp, t: {"Out": inp["In"]}, start=start, step=step), "In"
    if kind == "DebugConsumer":
        return fm.components.DebugConsumer({"In": info}, start=start, step=step), "In"
    if kind == "TimeTrigger":
        return fm.components.TimeTrigger(in_info=info, out_info=fm.Info(time=None, grid=fm.NoGrid(), units=""), start=start, step=step), "In"
    if kind == "CsvWriter":
        d = tempfile.mkdtemp(prefix="verif_csv_")
        return fm.components.CsvWriter(path=os.path.join(d, "out.csv"), inputs=["In"], time_column="t", separator=";", start=start, step=step), "In"
    raise KeyError(kind)


def main():
    viol, n = [], 0
    for kind in ("CallbackComponent", "DebugConsumer", "TimeTrigger", "CsvWriter"):
        for days in (1, 2, 3, 5, "month", "month-end"):
            n += 1
            if isinstance(days, str):
                from dateutil.relativedelta import relativedelta
                step = relativedelta(months=1)     # calendar steps: the announced time must still be the one that is pulled
            else:
                step = days * DAY
            try:
                cons, iname = make_consumer(kind, step, start=datetime(2000, 1, 31) if days == "month-end" else T0)
            except Exception as e:  # class not constructible in this environment (e.g. missing optional dependency)
                continue
            gen = fm.components.CallbackGenerator({"Out": (lambda t: float((t - T0).days), fm.Info(time=None, grid=fm.NoGrid(), units=""))}, start=T0, step=DAY)
            comp = fm.Composition([gen, cons], print_log=False, slot_memory_location=None)
            gen.outputs["Out"] >> cons.inputs[iname]
            out = gen.outputs["Out"]
            requests = []
            orig_get = out.get_data
            out.get_data = lambda time, target, _o=orig_get: (requests.append(time), _o(time, target))[1]
            log = []
            orig_upd = cons.update

            def upd(_orig=orig_upd, cons=cons):
                announced, before = cons.next_time, cons.time
                k = len(requests)
                _orig()
                log.append((before, announced, cons.time, list(requests[k:])))

            cons.update = upd
            try:
                with _guard.limit(120.0):
                    comp.run(start_time=T0, end_time=T0 + (12 if not isinstance(days, str) else 100) * DAY)
            except Exception as e:  # noqa
                viol.append(f"{kind}(step={days}{'d' if not isinstance(days, str) else ''}): run failed: {type(e).__name__}: {str(e)[:100]}")
                continue
            finally:
                p = getattr(cons, "_path", None)
                if p and os.path.exists(os.path.dirname(p)) and "verif_csv_" in p:
                    import shutil
                    shutil.rmtree(os.path.dirname(p), ignore_errors=True)
            if not log:
                viol.append(f"{kind}(step={days}d): never updated")
                continue
            for before, announced, after, reqs in log:
                if after != announced:
                    viol.append(f"{kind}(step={days}d): announced next_time {announced} but advanced from {before} to {after}")
                    break
                bad = [r for r in reqs if r != announced]
                if bad or not reqs:
                    viol.append(f"{kind}(step={days}d): update announced for {announced} requested its input for {reqs} "
                                f"(the driver checked availability for {announced})")
                    break
        if len(viol) >= 3:
            break
    return n, viol


def late_sources(viol):
    """bundled *sources* that start later than the composition (C01: their initial data must serve every pull the driver admits):
    CsvReader whose first row is later than the start, CallbackGenerator with a later start; the consumer does not pull during connect"""
    n = 0
    for kind in ("CsvReader", "CallbackGenerator"):
        for offset in (0, 3):
            n += 1
            d = tempfile.mkdtemp(prefix="verif_csv_")
            try:
                if kind == "CsvReader":
                    path = os.path.join(d, "in.csv")
                    with open(path, "w") as f:
                        f.write("T;X\n")
                        for k in range(12):
                            f.write(f"{(T0 + (offset + k) * DAY).isoformat()};{float(offset + k)}\n")
                    src = fm.components.CsvReader(path, time_column="T", outputs={"X": ""}, separator=";")
                    oname = "X"
                else:
                    src = fm.components.CallbackGenerator({"X": (lambda t: float((t - T0).days), fm.Info(time=None, grid=fm.NoGrid(), units=""))},
                                                          start=T0 + offset * DAY, step=DAY)
                    oname = "X"
                got = []
                cons = fm.components.CallbackComponent(inputs={"In": fm.Info(time=None, grid=fm.NoGrid(), units="")}, outputs={},
                                                       callback=lambda inp, t: (got.append((t, float(inp["In"].magnitude.reshape(-1)[0]))) if inp is not None else None) or {},
                                                       start=T0, step=DAY, initial_pull=False)
                comp = fm.Composition([src, cons], print_log=False, slot_memory_location=None)
                src.outputs[oname] >> cons.inputs["In"]
                try:
                    with _guard.limit(120.0):
                        comp.run(start_time=T0, end_time=T0 + 8 * DAY)
                except Exception as e:  # noqa
                    viol.append(f"{kind} starting {offset} d after the composition start, consumer without initial pull: run failed: {type(e).__name__}: {str(e)[:110]}")
                    return n
                if len(got) < 8:
                    viol.append(f"{kind} starting {offset} d after the composition start: only {len(got)} of 8 pulls were served")
                    return n
            finally:
                import shutil
                shutil.rmtree(d, ignore_errors=True)
    return n


if __name__ == "__main__":
    n, v = main()
    if not v:
        n += late_sources(v)
    if "--json" in sys.argv:
        print(json.dumps({"evaluations": n, "distinct_nontrivial": n, "violations": [{"case": x} for x in v[:3]],
                          "rule": "time-stepped finam components with inputs, driven in a real Composition: every request during update() is for the announced next_time",
                          "bound": "4 component classes x steps {1,2,3,5} d x 12 days, {1 month from Jan 1, from Jan 31} x 100 days"}))
    else:
        print(("CONFIRMED " + v[0]) if v else f"NOT-CONFIRMED {n} component runs: all requests at the announced time")
