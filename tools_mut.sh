#!/bin/bash
# usage: tools_mut.sh <prop> <file-relative-to-src> <python-regex-old> <new> [check args]
# applies a textual mutation to a scratch copy of the source tree and runs the check against it
set -e
PROP=$1; FILE=$2; OLD=$3; NEW=$4; shift 4
D=$(mktemp -d /tmp/mut.XXXXXX)
mkdir -p $D/src && cp -r /repo/src/finam $D/src/
python3 - "$D/src/$FILE" "$OLD" "$NEW" <<'PY'
import sys,re
p,old,new=sys.argv[1:4]
s=open(p).read()
assert old in s, "pattern not found"
open(p,'w').write(s.replace(old,new,1))
PY
cd /verif && VERIF_REPO=$D python3-vt checks/check.py $PROP "$@" | grep -v "^   " ; echo "exit=${PIPESTATUS[0]}"
rm -rf $D
