#!/usr/bin/env python3-vt
"""check.py <property> [--tier quick|thorough] [--replay FILE]

Decides one property: generates verification conditions from the *current* source under /repo for
every function under contract for that property, discharges them, replays counterexamples on the
real code, runs the bounded stand-ins that belong to the property, writes evidence/<id>.json.

exit 0 held | 1 violation (VIOLATION line) | 2 undecided (solver unknown) | 3 checker problem
"""
import argparse
import concurrent.futures as cf
import json
import multiprocessing as mp
import os
import subprocess
import sys
import time
import traceback

if os.environ.get("PYTHONHASHSEED") != "0" and __name__ == "__main__":
    # iteration order of sets of strings feeds the order of assertions, which the solver's heuristics are sensitive to: fixed, so that
    # the same tree always gives the same queries
    os.environ["PYTHONHASHSEED"] = "0"
    os.execv(sys.executable, [sys.executable] + sys.argv)

ROOT = os.path.dirname(os.path.dirname(os.path.abspath(__file__)))
sys.path.insert(0, ROOT)

from pyvc import solve  # noqa: E402
from pyvc.contract import Registry  # noqa: E402
from pyvc.core import Executor  # noqa: E402
from pyvc.front import Repo  # noqa: E402
from pyvc.lib import LIB_ASSUMPTIONS  # noqa: E402
from pyvc.path import BindingError, Unsupported  # noqa: E402

VENV_PY = "/venv/bin/python"
_G = {}


def build():
    import contracts.all as call

    repo = Repo()
    reg = Registry()
    reg.repo = repo    # contracts that are generated from the class table (e.g. one unit per slot class)
    lfile = os.path.join(ROOT, "baseline_locals.json")
    reg.baseline_locals = json.load(open(lfile)) if os.path.exists(lfile) and not os.environ.get("VERIF_NO_RENAME") else {}
    call.register(reg)
    ex = Executor(repo, reg)
    call.install(ex)
    return repo, reg, ex


def run_unit(idx, timeout_s, second):
    """worker: verify one unit; returns plain data"""
    reg, ex = _G["reg"], _G["ex"]
    c = reg.units[idx]
    t0 = time.time()
    try:
        obls, info = ex.verify(c)
    except (Unsupported, BindingError) as e:
        return {"unit": c.target, "self_cls": c.self_cls, "error": f"{e.__class__.__name__}: {e}", "obls": [], "info": {}}
    except Exception:  # engine crash
        return {"unit": c.target, "self_cls": c.self_cls, "error": "crash: " + traceback.format_exc(), "obls": [], "info": {}}
    res = []
    failed = {}
    for ob in obls:
        if failed.get(ob.kind, 0) >= 2 and not ob.expect_sat:
            # the same clause already failed on two other paths of this unit: the verdict is settled, the
            # solver portfolio (tens of seconds per unprovable obligation) is not run again
            ob.status, ob.backend, ob.time = "candidate", "not re-solved: the same clause already failed on two other paths of this unit", 0.0
        else:
            try:
                known = any(k.get("function") == c.target and k.get("self_cls") == c.self_cls and k.get("kind") == ob.kind
                            and (not k.get("unit") or k["unit"] == c.name) for k in _G.get("known", []))
                # (after the first failed obligation of a unit the verdict of the unit is settled: the patient last-resort stages, which
                # only protect provable obligations against a loaded machine, are not spent on the rest of the unit)
                solve.discharge(ob, timeout_s, second, patient=not known and not failed)
            except Exception as e:  # pragma: no cover
                ob.status, ob.backend = "error", f"{e}"
        if ob.status in ("sat", "candidate") and not ob.expect_sat:
            failed[ob.kind] = failed.get(ob.kind, 0) + 1
        r = {
            "name": ob.name, "kind": ob.kind, "status": ob.status, "backend": ob.backend, "time": round(ob.time, 4),
            "line": ob.line, "func": ob.func, "expect_sat": ob.expect_sat, "note": ob.note,
            "second": getattr(ob, "second", None),
        }
        if ob.status in ("sat", "candidate") and not ob.expect_sat:
            r["witness"] = solve.witness(ob)
            r["stages"] = getattr(ob, "stages", [])
            r["goal"] = str(ob.goal)[:1500]
            r["trace"] = getattr(ob, "trace", [])
        res.append(r)
    info["total_s"] = round(time.time() - t0, 3)
    return {"unit": c.target, "self_cls": c.self_cls, "name": c.name, "props": c.props, "obls": res, "info": info,
            "error": None}


def run_lemma(idx, timeout_s):
    reg = _G["reg"]
    name, props, fn = reg.lemmas[idx]
    from pyvc.path import Obligation

    t0 = time.time()
    try:
        hyps, goal = fn()
        cov = Obligation(name + ":cover", "cover", hyps, None)
        cov.expect_sat = True
        solve.discharge(cov, timeout_s)
        if cov.status == "unsat":
            return {"name": name, "props": props, "status": "error", "backend": "hypotheses of the lemma are contradictory", "time": 0}
        ob = Obligation(name, "lemma", hyps, goal)
        solve.discharge(ob, timeout_s)
        return {"name": name, "props": props, "status": ob.status, "backend": ob.backend, "time": round(time.time() - t0, 4)}
    except Exception:
        return {"name": name, "props": props, "status": "error", "backend": traceback.format_exc(), "time": 0}


def main():
    ap = argparse.ArgumentParser()
    ap.add_argument("prop")
    ap.add_argument("--tier", default="quick")
    ap.add_argument("--replay")
    ap.add_argument("--verbose", "-v", action="store_true")
    ap.add_argument("--only", help="only units whose name contains this")
    ap.add_argument("--write-baseline", action="store_true", help="record the obligations discharged on this (unchanged) tree")
    a = ap.parse_args()
    tier = os.environ.get("VERIF_TIER") or a.tier
    if tier not in ("quick", "thorough"):
        tier = "quick"
    seed = int(os.environ.get("VERIF_SEED", "0") or 0)
    prop = a.prop
    t_start = time.time()
    import contracts.all as call

    if a.replay:
        return do_replay(prop, a.replay)

    try:
        repo, reg, ex = build()
    except Exception:
        print("checker problem while loading source / contracts:\n" + traceback.format_exc())
        return 3
    _G["reg"], _G["ex"] = reg, ex
    _G["known"] = [k for k in load_known(a.prop) if k.get("function")]
    units = [i for i, c in enumerate(reg.units) if any(p.split(".")[0] == prop for p in c.props)]
    if a.only:
        units = [i for i in units if a.only in reg.units[i].name or a.only in (reg.units[i].self_cls or "")]
    lemmas = [i for i, (_n, props, _f) in enumerate(reg.lemmas) if any(p.split(".")[0] == prop for p in props)]
    timeout_s = 10 if tier == "quick" else 60
    second = tier == "thorough"
    results, lemma_results = [], []
    # every unit runs in a child forked from this process for that unit alone: the names generated by the symbolic executor and the
    # solver's internal term numbering then depend only on the unit, not on which units a worker happened to run before - the same
    # tree gives the same queries and the same solver behaviour on every run and every machine
    # the bounded stand-ins are independent native processes: started now, collected after the deductive part
    bpool = cf.ThreadPoolExecutor(max_workers=4)
    bfuts = [(b, bpool.submit(run_bounded, b, tier, seed)) for b in call.BOUNDED.get(prop, [])]
    ctx = mp.get_context("fork")
    with ctx.Pool(processes=min(16, max(1, len(units) + len(lemmas))), maxtasksperchild=1) as pool:
        futs = [pool.apply_async(run_unit, (i, timeout_s, second)) for i in units]
        lfuts = [pool.apply_async(run_lemma, (i, timeout_s)) for i in lemmas]
        for f in futs:
            results.append(f.get())
        for f in lfuts:
            lemma_results.append(f.get())

    findings = load_known(prop)
    keys_seen = {}
    bfile = os.path.join(ROOT, "baseline_obligations.json")
    baseline_all = json.load(open(bfile)) if os.path.exists(bfile) else {}
    baseline = set(baseline_all.get(prop, []))
    exit_code = 0
    violations = []
    undecided = []
    problems = []
    n_obl = n_dis = 0
    solver_time = 0.0
    backends = {}
    samples = []
    functions = []
    for r in results:
        if r["error"]:
            problems.append(f"{r['unit']}[{r['self_cls']}]: {r['error']}")
            continue
        functions.append({"function": r["unit"], "self_cls": r["self_cls"], **{k: r["info"].get(k) for k in
                          ("file", "sha256", "paths", "dropped_nodes", "inlined", "callee_contracts", "exec_s", "total_s")}})
        n_real = 0
        for ob in r["obls"]:
            solver_time += ob["time"]
            if ob["expect_sat"]:
                if ob["status"] == "unsat":
                    problems.append(f"vacuous precondition: {ob['name']}")
                continue
            n_obl += 1
            n_real += 1
            full = f"{prop}/{r['name']}[{r['self_cls']}]::{ob['name']}" if r["self_cls"] else f"{prop}/{ob['name']}"
            ob["full"] = full
            kc = ob["kind"].split(":")[0] if ob["kind"].startswith("raises-unexpected") else _kind_class(ob["kind"])
            ob["key"] = f"{r['name']}[{r['self_cls']}]::{kc}"
            keys_seen.setdefault(ob["key"], True)
            if ob["status"] != "unsat":
                keys_seen[ob["key"]] = False
            if ob["status"] == "unsat":
                n_dis += 1
                backends[ob["backend"]] = backends.get(ob["backend"], 0) + 1
                if len(samples) < 6 and ob["kind"] in ("post", "inv-preserved:L1", "raises:FinamTimeError"):
                    samples.append({"obligation": full, "kind": ob["kind"], "status": "unsat", "backend": ob["backend"], "solver_s": ob["time"]})
            elif ob["status"] in ("sat", "candidate"):
                violations.append((r, ob))
            else:
                undecided.append(full + f" ({ob['status']}: {ob['backend']})")
        if n_real == 0:
            problems.append(f"{r['unit']}: zero obligations generated")
        for asm in r["info"].get("assumptions", []):
            pass
    for lr in lemma_results:
        n_obl += 1
        if lr["status"] == "unsat":
            n_dis += 1
            backends[lr["backend"]] = backends.get(lr["backend"], 0) + 1
        elif lr["status"] in ("sat", "candidate"):
            problems.append(f"lemma {lr['name']} does not hold (defect of /verif, not of /repo)")
        else:
            undecided.append(f"lemma {lr['name']} ({lr['status']})")

    # facts about the class table of the parsed source (one obligation each; decided syntactically)
    n_facts = 0
    for fname, fprops, holds, text in getattr(reg, "facts", []):
        if not any(p.split(".")[0] == prop for p in fprops):
            continue
        n_obl += 1
        n_facts += 1
        if holds:
            n_dis += 1
            backends["class table"] = backends.get("class table", 0) + 1
        else:
            violations.append((None, {"full": f"{prop}/{fname}", "witness": {"case": text}, "status": "sat", "kind": "class-table",
                                      "name": fname, "backend": "class table of the parsed source", "goal": text, "trace": []}))

    # bounded stand-ins and native probes registered for the property
    bounded = []
    for b, fut in bfuts:
        br = fut.result()
        bounded.append(br)
        if br.get("error"):
            problems.append(f"bounded stand-in {b['name']}: {br['error']}")
        for v in br.get("violations", []):
            violations.append((None, {"full": f"{prop}/bounded:{b['name']}", "witness": v, "status": "bounded", "kind": "bounded",
                                      "name": b["name"], "backend": "native run", "goal": "", "trace": []}))

    lines = []
    n_viol = 0
    REPLAY_DIR = os.path.join(ROOT, "replay" if not os.environ.get("VERIF_NO_EVIDENCE") else "replay/.selftest", prop)
    os.makedirs(REPLAY_DIR, exist_ok=True)
    for r, ob in violations:
        kf = match_known(findings, r, ob)
        if kf is not None:
            lines.append(f"KNOWN-FINDING: property={prop} {kf['id']}: {kf['what']}")
            if r is not None:
                n_obl -= 1   # reported as a finding, counted neither as an obligation nor as discharged
            continue
        path = os.path.join(REPLAY_DIR, safe_name(ob["full"]) + ".json")
        rep = {"property": prop, "obligation": ob["full"], "status": ob["status"], "backend": ob["backend"],
               "function": r["unit"] if r else None, "self_cls": r["self_cls"] if r else None,
               "witness": ob.get("witness"), "goal": ob.get("goal"), "path_trace": ob.get("trace"),
               "solver_output": ob["status"], "solver_stages": ob.get("stages", [])}
        confirmed = None
        if r is not None:
            confirmed, detail = native_replay(prop, r, ob, rep)
            rep["native_replay"] = detail
        else:
            confirmed = ob["kind"] != "class-table"     # bounded stand-ins report native failing inputs; class-table facts have none
        with open(path, "w") as f:
            json.dump(rep, f, indent=1, default=str)
        if ob["status"] == "candidate" and not confirmed and ob.get("key") not in baseline:
            undecided.append(ob["full"] + " (not proved; no native failing input; obligation is not in the baseline of the unchanged tree)")
            continue
        if ob["status"] == "candidate" and not confirmed:
            rep["note"] = "this obligation is discharged on the unchanged tree (baseline_obligations.json) and is no longer provable"
            with open(path, "w") as f:
                json.dump(rep, f, indent=1, default=str)
        n_viol += 1
        tail = "" if confirmed else " no-failing-input-found"
        lines.append(f"VIOLATION property={prop} replay={path}{tail}")
    if n_viol:
        exit_code = 1
    elif problems:
        exit_code = 3
    elif undecided:
        exit_code = 2
    if not units and not lemmas and not bounded and not n_facts:
        problems.append("no checks registered for this property")
        exit_code = 3

    if a.write_baseline:
        baseline_all[prop] = sorted(k for k, ok in keys_seen.items() if ok)
        with open(bfile, "w") as f:
            json.dump(baseline_all, f, indent=0, sort_keys=True)
        # binding order of the locals of every function under contract on the unchanged tree (see Executor.verify: renamed locals)
        lfile = os.path.join(ROOT, "baseline_locals.json")
        lall = json.load(open(lfile)) if os.path.exists(lfile) else {}
        for r in results:
            if not r["error"] and r["info"].get("local_order") is not None:
                lall[r["unit"]] = r["info"]["local_order"]
        with open(lfile, "w") as f:
            json.dump(lall, f, indent=0, sort_keys=True)
    wall = time.time() - t_start
    level = call.LEVEL.get(prop, "proof")
    explain = call.EXPLAIN.get(prop, "")
    try:
        man = json.load(open(os.path.join(ROOT, "MANIFEST.json")))
        for ch in man.get("checks", []):
            if ch["property_id"] == prop:
                level = ch["level_claimed"]["category"]
                explain = explain or (ch["level_claimed"]["text"] + " | trusted: " + ch["level_note"])
    except Exception:
        pass
    assumptions = list(LIB_ASSUMPTIONS) + call.ASSUMPTIONS.get("*", []) + call.ASSUMPTIONS.get(prop, [])
    for r in results:
        for asm in (r.get("info") or {}).get("assumptions", []):
            if asm not in assumptions:
                assumptions.append(asm)
    assumed = sorted({c.target + (f"[{c.self_cls}]" if c.self_cls else "") for c in list(reg.by_key.values()) + list(reg.iface.values())
                      if not c.verify and any(c.target in (r.get("info") or {}).get("callee_contracts", []) for r in results)})
    iface_used = sorted({"iface:" + k for k in reg.iface})
    ev = {
        "property_id": prop, "tier": tier, "seed": seed, "level": level, "wall_s": round(wall, 2), "violations": n_viol,
        "coverage": {
            "obligations": n_obl, "discharged": n_dis,
            "checker_cmd": f"python3-vt checks/check.py {prop} --tier {tier}",
            "trusted_base": ["pyvc symbolic executor (/verif/pyvc) and its encoding of the Python subset", "z3 5.1 / cvc5 1.0.3 / z3 4.8.12",
                             "assumed library and interface contracts listed under assumptions"],
            "explanation": explain or "contract-based deductive verification, see DESIGN.md",
            "functions_under_contract": functions,
            "backends": backends, "solver_time_s": round(solver_time, 3),
            "lemmas": lemma_results,
            "bounded": [{k: v for k, v in b.items() if k != "violations"} for b in bounded],
            "undecided": undecided, "checker_problems": problems,
            "assumed_contracts_used": assumed,
            "samples": samples or [{"note": "no discharged sample"}],
            "known_findings_reported": [l for l in lines if l.startswith("KNOWN-FINDING")],
        },
        "assumptions": assumptions,
    }
    if bounded:
        ev["coverage"]["evaluations"] = sum(b.get("evaluations", 0) for b in bounded)
        ev["coverage"]["distinct_nontrivial"] = sum(b.get("distinct_nontrivial", 0) for b in bounded)
        ev["coverage"]["rule"] = "; ".join(b.get("rule", "") for b in bounded)
    if not os.environ.get("VERIF_NO_EVIDENCE"):  # mutation self-test runs must not overwrite evidence
        os.makedirs(os.path.join(ROOT, "evidence"), exist_ok=True)
        with open(os.path.join(ROOT, "evidence", f"{prop}.json"), "w") as f:
            json.dump(ev, f, indent=1, default=str)

    print(f"[{prop}] tier={tier} units={len(units)} lemmas={len(lemmas)} obligations={n_obl} discharged={n_dis} "
          f"undecided={len(undecided)} problems={len(problems)} violations={n_viol} wall={wall:.1f}s")
    if a.verbose:
        for r in results:
            for ob in r["obls"]:
                print("  ", r.get("self_cls"), ob["name"], ob["status"], ob["backend"], ob["time"])
    for u in undecided:
        print("UNDECIDED", u)
    for p in problems:
        print("CHECKER-PROBLEM", p)
    for l in lines:
        print(l)
    return exit_code


def _kind_class(kind):
    """stable class of an obligation kind: clause numbers (post.3, inv-preserved.2:L1) are dropped"""
    head, _, rest = kind.partition(":")
    if "[" not in head:
        head = head.split(".")[0]
    return head + (":" + rest if rest else "")


def safe_name(s):
    return "".join(ch if ch.isalnum() or ch in "-_." else "_" for ch in s)[:150]


def load_known(prop):
    fn = os.path.join(ROOT, "known_findings.json")
    if not os.path.exists(fn):
        return []
    with open(fn) as f:
        data = json.load(f)
    # a finding tied to a verification unit or to the exact case text of a bounded stand-in is the same finding in every property whose
    # check includes that unit / runs that stand-in
    return [k for k in data.get("findings", []) if k.get("status") == "open" and (k.get("property") == prop or k.get("function") or k.get("bounded"))]


def match_known(findings, r, ob):
    for k in findings:
        if r is not None and k.get("function") == r["unit"] and k.get("self_cls") == r["self_cls"] \
                and k.get("kind") == ob["kind"] and (not k.get("unit") or k["unit"] == r.get("name")) \
                and (not k.get("line_text") or line_text(r, ob) == k["line_text"]):
            return k
        if r is None and k.get("bounded") == ob["name"] and k.get("case") == (ob.get("witness") or {}).get("case"):
            return k
    return None


def line_text(r, ob):
    try:
        with open(r["info"]["file"]) as f:
            return f.read().splitlines()[ob["line"] - 1].strip()
    except Exception:
        return None


def native_replay(prop, r, ob, rep):
    """run the replay driver of the function family (real finam under /venv/bin/python)"""
    import contracts.all as call

    drvs = call.REPLAY.get((r["unit"], r["self_cls"])) or call.REPLAY.get(r["unit"])
    if drvs is None:
        return False, "no replay driver for this function: counterexample not replayed"
    if isinstance(drvs, str):
        drvs = [drvs]
    tmp = os.path.join(ROOT, "replay", prop, f".witness.{os.getpid()}.json")
    with open(tmp, "w") as f:
        json.dump(rep, f, default=str)
    details = []
    try:
        for drv in drvs:
            # drivers that search on their own (they do not read the witness) are run once per check
            key = (drv, "generic") if drv.startswith(("seq_", "bnd_", "units_", "grid_")) else None
            if key is not None and key in _REPLAY_CACHE:
                ok, txt = _REPLAY_CACHE[key]
            else:
                try:
                    out = subprocess.run([VENV_PY, os.path.join(ROOT, "replay", "drivers", drv), tmp], capture_output=True, text=True,
                                         timeout=600, env={**os.environ, "PYTHONPATH": os.path.join(os.environ.get("VERIF_REPO", "/repo"), "src")})
                    lines = [l for l in out.stdout.splitlines() if l.startswith(("CONFIRMED", "NOT-CONFIRMED"))]
                    ok = bool(lines) and lines[-1].startswith("CONFIRMED")
                    txt = (lines[-1] if lines else (out.stdout + out.stderr)[-1500:])
                except subprocess.TimeoutExpired:
                    ok, txt = False, "replay driver timed out"
                if key is not None:
                    _REPLAY_CACHE[key] = (ok, txt)
            details.append(f"{drv}: {txt}")
            if ok:
                return True, " | ".join(details)
        return False, " | ".join(details)
    finally:
        if os.path.exists(tmp):
            os.unlink(tmp)


_REPLAY_CACHE = {}


def _finam_crash(stderr):
    """text of an uncaught exception whose innermost frame is finam source (None otherwise)"""
    import re
    frames = re.findall(r'File "([^"]+)", line (\d+), in (\S+)', stderr or "")
    if not frames or "Traceback (most recent call last)" not in stderr:
        return None
    fn, line, func = frames[-1]
    if "/src/finam/" not in fn:
        return None
    lines = [l for l in stderr.strip().splitlines() if l and not l.startswith(" ")]
    exc = lines[-1] if lines else "exception"
    drv = [f for f in frames if "/replay/drivers/" in f[0]]
    where = f" (driver line {drv[-1][1]} in {drv[-1][2]})" if drv else ""
    return f"unexpected {exc[:200]} raised in finam/{fn.split('/src/finam/')[1]}:{func}{where}"


def run_bounded(b, tier, seed):
    cmd = [VENV_PY, os.path.join(ROOT, b["script"]), "--tier", tier, "--seed", str(seed)] + b.get("args", [])
    try:
        # (on the unchanged tree every stand-in finishes within a minute in the quick tier: a change that makes the real code loop
        # must not hold the check for an hour)
        out = subprocess.run(cmd, capture_output=True, text=True, timeout=min(b.get("timeout", 3000), 900 if tier == "quick" else 3000),
                             env={**os.environ, "PYTHONPATH": os.path.join(os.environ.get("VERIF_REPO", "/repo"), "src")})
    except subprocess.TimeoutExpired:
        return {"name": b["name"], "error": "timeout"}
    last = out.stdout.strip().splitlines()[-1] if out.stdout.strip() else ""
    try:
        res = json.loads(last)
    except Exception:
        crash = _finam_crash(out.stderr)
        if crash is not None:
            # the stand-in only feeds inputs the property quantifies over and catches the refusals it expects: an exception that
            # escapes from finam's own code is a failing input, not a problem of the checker
            return {"name": b["name"], "label": "bounded (never counted as proved)", "evaluations": 0, "distinct_nontrivial": 0,
                    "violations": [{"case": crash}], "rule": "the stand-in's run on the real code ended with an exception raised inside finam"}
        return {"name": b["name"], "error": f"exit {out.returncode}: {(out.stdout + out.stderr)[-1500:]}"}
    res["name"] = b["name"]
    res["label"] = "bounded (never counted as proved)"
    return res


def do_replay(prop, path):
    with open(path) as f:
        rep = json.load(f)
    print(json.dumps(rep, indent=1)[:4000])
    r = {"unit": rep.get("function"), "self_cls": rep.get("self_cls")}
    if r["unit"]:
        ok, detail = native_replay(prop, r, {"full": rep["obligation"]}, rep)
        print(detail)
        return 1 if ok else 0
    return 0


if __name__ == "__main__":
    sys.exit(main())
