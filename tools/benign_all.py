#!/usr/bin/env python3
"""Evaluate the behaviour-preserving edits under /verif/seeded_benign (produced by independent sub-agents): apply each to a scratch
copy of /repo/src (outside /repo and /verif, removed afterwards) and run the check of its property - and of every other property
listed in meta.json["also"] - against it.  Expected: no VIOLATION (exit 0; exit 2 / 3 = the check cannot decide the edited code, which
is not an alarm but is recorded).  usage: benign_all.py [dir-name ...]"""
import concurrent.futures as cf
import json
import os
import shutil
import subprocess
import sys
import tempfile

ROOT = os.path.dirname(os.path.dirname(os.path.abspath(__file__)))
DIR = os.path.join(ROOT, "seeded_benign")


def run(name):
    sd = os.path.join(DIR, name)
    meta = json.load(open(os.path.join(sd, "meta.json")))
    d = tempfile.mkdtemp(prefix="verif_benign_")
    try:
        shutil.copytree("/repo/src", os.path.join(d, "src"))
        p = subprocess.run(["patch", "-p1", "-s", "-i", os.path.join(sd, "patch.diff")], cwd=d, capture_output=True, text=True)
        if p.returncode != 0:
            return name, meta, None
        out = {}
        for prop in [meta["property"]] + meta.get("also", []):
            env = dict(os.environ, VERIF_REPO=d, VERIF_NO_EVIDENCE="1")
            r = subprocess.run(["python3-vt", os.path.join(ROOT, "checks", "check.py"), prop], capture_output=True, text=True, env=env, cwd=ROOT)
            lines = [l for l in r.stdout.splitlines() if l.startswith(("VIOLATION", "CHECKER-PROBLEM", "UNDECIDED"))]
            out[prop] = (r.returncode, [l[:260] for l in lines[:4]])
        return name, meta, out
    finally:
        shutil.rmtree(d, ignore_errors=True)


def main():
    names = sys.argv[1:] or sorted(n for n in os.listdir(DIR) if os.path.isdir(os.path.join(DIR, n)))
    rows = []
    with cf.ThreadPoolExecutor(max_workers=int(os.environ.get("SEED_JOBS", "4"))) as pool:
        for name, meta, out in pool.map(run, names):
            if out is None:
                meta["result"] = "patch no longer applies"
                rows.append((name, "-", "patch does not apply"))
            else:
                meta["result"] = {p: f"exit {rc}" for p, (rc, _l) in out.items()}
                worst = max(rc for rc, _l in out.values())
                rows.append((name, " ".join(f"{p}:{rc}" for p, (rc, _l) in out.items()),
                             "quiet" if worst == 0 else "FALSE ALARM" if any(rc == 1 for rc, _ in out.values()) else "not decided (no alarm)"))
                for p, (rc, lines) in out.items():
                    for l in lines:
                        print("    ", p, l)
            json.dump(meta, open(os.path.join(DIR, name, "meta.json"), "w"), indent=1)
            print(rows[-1], flush=True)
    if not sys.argv[1:]:
        with open(os.path.join(DIR, "RESULTS.md"), "w") as f:
            f.write("# Behaviour-preserving edits (independent sub-agents): the checks must stay quiet\n\n| edit | checks (property:exit) | verdict |\n|---|---|---|\n")
            for r in rows:
                f.write("| " + " | ".join(r) + " |\n")


if __name__ == "__main__":
    main()
