#!/bin/bash
# margin test of the solver budgets on the unchanged tree: all 20 checks at once (16 worker processes each) with every budget cut
# to $1 (default 0.3).  Any exit code other than 0 means a verdict depends on the speed of the machine.
cd /verif
S=${1:-0.3}
T=$(mktemp -d /tmp/verif_margin.XXXXXX)
for p in $(python3 -c "import json;print(' '.join(c['property_id'] for c in json.load(open('MANIFEST.json'))['checks']))"); do
  (VERIF_BUDGET_SCALE=$S VERIF_NO_EVIDENCE=1 python3-vt checks/check.py $p > $T/$p.log 2>&1; echo "$p rc=$?" >> $T/rc.txt) &
done 2>/dev/null
wait 2>/dev/null
sort $T/rc.txt | tr '\n' ' '; echo
grep -h "^VIOLATION\|^UNDECIDED\|^CHECKER" $T/*.log | cut -c1-200
bad=$(grep -vc "rc=0" $T/rc.txt)
rm -rf $T
exit $bad
