#!/bin/bash
# usage: seed_eval.sh <dir with patch.diff and demo.py> <prop> [more props]
# confirms the seeded change (demo passes on /repo, fails with the patch), then runs the checks against the patched tree
S=$1; shift
D=$(mktemp -d /tmp/seedeval.XXXXXX)
cp -r /repo/src $D/src
( cd $D && patch -p1 -s < $S/patch.diff ) || { echo "patch does not apply"; rm -rf $D; exit 9; }
PYTHONPATH=/repo/src /venv/bin/python $S/demo.py >/dev/null 2>&1; echo "demo on /repo: exit $? (want 0)"
PYTHONPATH=$D/src /venv/bin/python $S/demo.py >/dev/null 2>&1; echo "demo on patched: exit $? (want !=0)"
for P in "$@"; do
  ( cd /verif && VERIF_REPO=$D VERIF_NO_EVIDENCE=1 python3-vt checks/check.py $P | grep -v "^   " | cut -c1-220 ; echo "check $P exit=${PIPESTATUS[0]}" )
done
rm -rf $D
