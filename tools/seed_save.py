#!/usr/bin/env python3
"""seed_save.py <Cnn> <slug> <change> <needs>: store a round-2 seeded change from /tmp/seed2_<Cnn> and evaluate it"""
import json, os, shutil, subprocess, sys
pid, slug, change, needs = sys.argv[1:5]
src = f"/tmp/seed2_{pid}"
dst = f"/verif/seeded/{pid}-r2-{slug}"
os.makedirs(dst, exist_ok=True)
shutil.copy(f"{src}/patch.diff", dst)
shutil.copy(f"{src}/demo.py", dst)
json.dump({"property": pid, "source": "independent sub-agent, round 2 (property text + scratch worktree only; asked for a different mechanism than round 1)",
           "change": change, "needs": needs, "confirmed": "pending", "detected_by": "pending"}, open(f"{dst}/meta.json", "w"), indent=1)
subprocess.run(["python3", "/verif/tools/seed_all.py", os.path.basename(dst)])
