#!/usr/bin/env python3
"""seed_save.py <Cnn> <slug> <change> <needs>: store a round-2 seeded change from /tmp/seed2_<Cnn> and evaluate it"""
import json, os, shutil, subprocess, sys
pid, slug, change, needs = sys.argv[1:5]
rnd = sys.argv[5] if len(sys.argv) > 5 else "2"
src = f"/tmp/seed{rnd}_{pid}"
dst = f"/verif/seeded/{pid}-r{rnd}-{slug}"
os.makedirs(dst, exist_ok=True)
shutil.copy(f"{src}/patch.diff", dst)
shutil.copy(f"{src}/demo.py", dst)
json.dump({"property": pid, "source": "independent sub-agent, later round (property text + scratch worktree only; asked for a different mechanism than the earlier rounds)",
           "change": change, "needs": needs, "confirmed": "pending", "detected_by": "pending"}, open(f"{dst}/meta.json", "w"), indent=1)
subprocess.run(["python3", "/verif/tools/seed_all.py", os.path.basename(dst)])
