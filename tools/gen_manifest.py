#!/usr/bin/env python3
"""Writes MANIFEST.json from the table below (claimed properties) + properties.jsonl (the rest -> not_applicable)."""
import json
import os

ROOT = os.path.dirname(os.path.dirname(os.path.abspath(__file__)))
TB = ("pyvc (own VC generator: symbolic execution of the real finam AST, heap/list/dict encodings, Python semantics as stated in "
      "DESIGN.md 2.4), z3/cvc5, the assumed library and interface contracts listed in the evidence file")

CLAIMS = {
 "C09": dict(cat="proof", ref="4/C09", tech="contract-based deductive verification: VCs generated from the real AST of Output.pinged/_clear_data/get_data/_interpolate and TimeCachingAdapter._clear_cached_data/_get_data against sidecar contracts (OutInv, suffix-of-history), discharged by z3",
   text="Unbounded: for every history, every consumer map and every request the retained buffer is a suffix of the full publication history that still contains everything a consumer may request, each pull returns a nearest entry of the *full* history, and after all consumers pulled the second retained entry is newer than the slowest request (length bound). Loop invariants for the eviction loops; counter-models are replayed by a native event-sequence search on real Output/Input objects.",
   note="Assumed: requests per consumer are non-decreasing and targets were registered by ping (property domain); containers are owned by their object; iface contract for notification targets. " + TB),
 "C11": dict(cat="proof", ref="4/C11", tech="contract-based deductive verification: VCs from the real _interpolate of NextTime/PreviousTime/LinearTime/StepTime, TimeCachingAdapter._get_data/_clear_cached_data, discharged by z3 (interpolation formulas as defined spec functions)",
   text="Unbounded: each of the four _interpolate bodies is proved against its mathematical definition over the buffered history (loop invariant, exact result at publication times, unreachable trailing raise), _get_data is proved against the same definition over the *full* notification history (eviction lemma through the suffix invariant), time errors exactly outside the published range.",
   note="Payload arithmetic over the reals (numpy applies the same expression element-wise, floats not modelled); requests non-decreasing; " + TB),
 "C13": dict(cat="proof", ref="4/C13", tech="contract-based deductive verification: VCs from the real with_delay/_pulled/_source_updated of the three delay adapters and TimeDelayAdapter.get_data (ghost pull log), discharged by z3",
   text="Unbounded: with_delay of DelayFixed/DelayToPush/DelayToPull equals max(t-delay,start) / min(t,newest push) / max(n-th previous request - extra, start); _pulled keeps exactly the last `steps` original request times; TimeDelayAdapter.get_data sends exactly one request, for the shifted time, to its source and remembers the original time.",
   note="Input.pull_data and tools.prepare enter through their contracts (pull_data decided in C08, prepare assumed); the link to the scheduler's view (delays add up) is decided in C02; " + TB),
 "C01": dict(cat="proof", ref="4/C01", tech="contract-based deductive verification: VCs from the real _find_dependencies (nested loop invariants over the Req walk) and Composition._update_recursive (recursion contract with the Ready predicate), Output.push_data/notify_targets, discharged by z3",
   text="Unbounded over all link graphs, adapter chains and times: _find_dependencies records, for every input, the root output and the time that will really be requested (delays accumulate, dependency-breaking adapters end the dependency, nothing upstream of a buffering adapter is credited); _update_recursive only calls update() on a component u when Ready(u, u.next_time) holds in that state (every input's source has published up to the requested time, recursively through pull-based components); publications notify every target with the publication time.",
   note="Ready is defined by spec axioms over the heap; assumed: well-formed finite link graph (decided in C19), with_delay monotone, user components pull at the announced time and publish once per update (interface contract), consumer side served when the requirement is met (C08/C09/C11 contracts). " + TB),
 "C02": dict(cat="proof", ref="4/C02", tech="contract-based deductive verification: exactness post of _find_dependencies, OnChain post of _update_recursive, call-site obligation in Composition.run (least advanced component), TimeDelayAdapter.get_data pull log, discharged by z3",
   text="Unbounded: every recorded dependency is the need of some input with exactly its accumulated request time (no over-/under-requirement); the component updated by _update_recursive is the argument or lies upstream of it along links whose source still lags (OnChain, established by the recursion contract); Composition.run hands the component with the smallest time to the recursion (list.sort model) and only while some component has not reached the end time; the time checked equals the time requested from the source (C13.2).",
   note="list.sort(key) is modelled as a sorted permutation; OnChain is the least relation closed under the two lagging-link rules (only introduction rules are used); " + TB),
 "C03": dict(cat="other", ref="4/C03", tech="contract-based deductive verification of Composition.run (loop invariants, loop-exit obligation), _check_status, _finalize_components (ghost finalize log); termination of run is NOT decided",
   text="Proved (unbounded): when run leaves its loop no time component is unfinished and before end_time; an update is only started while some component is before end_time; each component is finalized once, in order, ends FINALIZED, every collected adapter is finalized exactly once (set iteration); status checks raise exactly on unexpected states. Not decided: termination of the whole run (liveness over user step sequences) and the connect-phase part of the life cycle.",
   note="termination (C03.5) and strict monotonicity of component times are interface assumptions on user components (update advances time); connect() life-cycle calls are covered in C06; " + TB),
 "C04": dict(cat="proof", ref="4/C04", tech="contract-based deductive verification of Composition._update_recursive: must-raise/raises clauses for FinamCircularCouplingError, implicit-exception safety of the message construction, chain = recursion stack post, discharged by z3",
   text="Unbounded: FinamCircularCouplingError is raised exactly when the component is already on the active chain, no other exception type escapes (in particular none from building the message), a pull-based component that was served is taken off the chain (DAGs that reach it twice are not reported). With C01.1/C13 (delays accumulate, wherever they sit among pass-through adapters) a revisit needs lagging links all around the cycle.",
   note="the telescoping lemma (sum of delays >= sum of steps => no revisit) and the connect-phase stall report (_connect_components) are not yet mechanised; a delay adapter upstream of a buffering adapter gives no credit by design (see DESIGN 5, F01); " + TB),
 "C12": dict(cat="proof", ref="4/C12", tech="contract-based deductive verification: VCs from the real SumOverTime/AvgOverTime._interpolate (loop invariant sum = Area(i)) and TimeIntegrationAdapter._get_data; Area is a recursive spec function; induction lemmas and QF_NRA piece lemmas discharged by z3",
   text="Unbounded: for linear and every step position in [0,1], per-time and absolute sums, the value accumulated by the real loop equals the exact integral (sum of closed-form pieces) of the interpolant over [prev pull, this pull]; the average divides it by the elapsed time; _get_data advances the window and keeps the bracketing entry. Lemmas: intervals after the window add nothing (induction), additivity over adjacent windows, mean-value bound, step weights = measure of the overlap below/above the step position.",
   note="reals for floats; pint unit algebra not modelled in the arithmetic (Unit('s') = 1); windows p0 < p1 inside the published range (property domain); degenerate initial branch and _get_info covered by the native stand-in only; " + TB),
 "C05": dict(cat="other", ref="4/C05", tech="contract-based deductive verification of the two mechanisms the property rests on (failure frames of the exchange functions, progress accounting of ConnectHelper); the quantifier over listing/linking permutations itself is only covered by a bounded native stand-in",
   text="Proved (unbounded): an exchange attempt that raises FinamNoDataError leaves every object unchanged (Output.get_data/push_data/get_info, Input.exchange_info via its source, the helper's attempts), so retries in any order reach the same state; ConnectHelper.connect/_push/_exchange_in_infos report progress exactly when something new was exchanged (the mechanism that makes the driver loop order independent). Bounded, never counted as proved: random compositions are run under 3 listing orders each and outcome class + every consumer's series are compared.",
   note="the relational statement over all permutations is not a per-function contract; interface contracts of user slots/components are assumed to have the same empty failure frame; " + TB),
 "C06": dict(cat="other", ref="4/C06", tech="contract-based deductive verification of ConnectHelper.connect/_push/_push_data/_exchange_in_infos/_check_names and Composition._connect_components (progress measure); convergence for acyclic dependencies is a liveness statement covered only by the bounded stand-in",
   text="Proved (unbounded): connect() returns CONNECTED iff no declared exchange is outstanding, CONNECTING iff something new was exchanged in this call, CONNECTING_IDLE otherwise; all book-keeping maps are monotone; initial data is published once for the composition start and once (a distinct copy) for the producer's own start when they differ; the driver loop exits only with every component CONNECTED, raises the circular-coupling error only after a sweep without progress, and every completed sweep strictly advances a ghost progress counter. Not decided: convergence (that acyclic dependencies always end connected).",
   note="info transfer rules (_apply_*_rules) and Info.copy_with enter as assumed contracts; slot methods follow the interface contract (succeed or raise FinamNoDataError with empty frame); " + TB),
 "C07": dict(cat="proof", ref="4/C07", tech="contract-based deductive verification of Info.accepts, Output.get_info (loop invariant for the monotone metadata fill), Input.exchange_info, Adapter.exchange_info/get_info, TimeDelayAdapter.get_info, discharged by z3",
   text="Unbounded over all field states: accepts answers exactly the documented rule for grid/mask/units (with the downstream exception); Output.get_info raises FinamNoDataError iff no info, FinamMetaDataError iff not accepted or a field is unset on both sides, otherwise fills only unset fields from the request (set fields never change) and counts the exchange; Input.exchange_info ends with an info without unset fields that keeps every requested value (including a mask fixed by the consumer) and a transform taken from the two grids; adapters forward and store.",
   note="grid/unit/mask relations enter as uninterpreted relations with reflexivity/symmetry (decided in C15/C17/C18); Info.copy_with is an assumed constructor contract; Info is treated as a closed class; metadata-rewriting adapters (_get_info overrides) are not yet under contract; " + TB),
 "C08": dict(cat="proof", ref="4/C08", tech="contract-based deductive verification of Output._interpolate/get_data/push_data/notify_targets/_unpack and Input.pull_data/_convert_and_check; prepare() only through an assumed value function plus an exhaustive bounded stand-in",
   text="Unbounded over all histories and requests: a pull returns the value of a publication nearest to t in the full history, time errors exactly outside [oldest, newest]; push_data refuses when infos are not exchanged (nothing changed), refuses an array sharing memory with the previous publication, otherwise appends (t, prepare(data)), sets the output time and notifies every target with t; an input sends exactly one request (time, target or itself) and applies the stored grid transform, then the unit conversion; a static input fetches once.",
   note="tools.prepare/to_units/check are assumed value functions here (shape/unit/mask algebra of prepare: bounded stand-in over 828 payload x grid x unit x mask cases on real numpy/pint); payload = real number; " + TB),
 "C10": dict(cat="proof", ref="4/C10", tech="contract-based deductive verification with a ghost file store (existing files, file contents): _pack/_unpack/_clear_data/finalize of Output and of the time caching adapters, every read path stated over Val(entry)",
   text="Unbounded: _pack dumps exactly when 0 <= limit < total + nbytes, to a fresh file below the configured location, leaving every other file untouched; every read path (nearest, next/previous/linear/step, sum/average) is stated over the value an entry stands for, in RAM or on disk, so results do not depend on the limit; evicted and finalized entries have their files removed, nothing else is removed. Masked payloads and unit re-labelling are covered by the native adapter-history stand-in (limit 0 vs none, plain vs masked).",
   note="np.save/np.load/os.remove/os.path.join are assumed library contracts over the ghost store (np.save refuses masked arrays); file names of different slots are distinct (id prefix); Composition handing limits to slots is not yet under contract; " + TB),
 "C20": dict(cat="proof", ref="4/C20", tech="contract-based deductive verification: static units of Output.push_data/get_data and Input.pull_data, CallbackOutput.get_data (ghost provider-call log), Composition._update_recursive through pull-based components, WeightedSum._get_data (effectful comprehension as cut loop, recursive weighted-sum spec function)",
   text="Unbounded: a static output stores exactly one publication with time None, refuses a second one without changing anything, serves it for every request time and evicts nothing; a static input fetches once and then serves its cache without touching the source; CallbackOutput invokes its provider exactly once per pull with exactly the requested time; the recursion reaches pull-based components with the delay-adjusted time of the consumer; WeightedSum pulls every input for exactly the requested time and returns the sum of value x weight over its pairs.",
   note="payload identity (shared memory) is not modelled deductively: the memo path of WeightedSum and multi-consumer compositions are covered by the bounded stand-in bnd_c20.py; one open known finding F20a (consumers with different steps behind one pull-based component); unit algebra of pint assumed; " + TB),
}


def main():
    props = [json.loads(l) for l in open(os.path.join(ROOT, "properties.jsonl"))]
    checks, na = [], []
    for p in props:
        pid = p["id"]
        c = CLAIMS.get(pid)
        if c is None:
            na.append({"property_id": pid, "reason": "not built yet (see DESIGN.md build order); claimed once its core obligations are generated from the real source and discharged"})
            continue
        checks.append({
            "property_id": pid,
            "quick_cmd": f"python3-vt checks/check.py {pid} --tier quick",
            "thorough_cmd": f"python3-vt checks/check.py {pid} --tier thorough",
            "evidence_file": f"evidence/{pid}.json",
            "replay_cmd_template": f"python3-vt checks/check.py {pid} --replay {{path}}",
            "engine": "pyvc",
            "level_claimed": {"category": c["cat"], "text": c["text"], "design_ref": c["ref"]},
            "level_note": c["note"],
            "technique": c["tech"],
        })
    m = {
        "version": 1,
        "setup_cmd": "python3-vt -c 'import z3; print(z3.get_version_string())' && /usr/bin/cvc5 --version | head -1 && /venv/bin/python -c 'import finam'",
        "hooks": {"guard": "FINAM_VERIF", "enable": "no hooks: contracts are sidecars under /verif/contracts; the source under /repo is parsed on every run, never patched",
                  "baseline_off_cmd": "cd /repo && /venv/bin/python -m pytest -ra -q -p no:cacheprovider --timeout=900 --continue-on-collection-errors",
                  "source_commits": [], "add_only": True},
        "engines": [{"name": "pyvc", "path": "pyvc", "serves_properties": sorted(CLAIMS),
                     "kind_free_text": "verification-condition generator: path-wise symbolic execution of the real finam source (ast) against sidecar contracts (pre/post, loop invariants, frames, ghost state); obligations discharged by z3 5.1, cvc5 and z3 4.8 as fall-backs"}],
        "checks": checks,
        "notes": "Every check re-parses /repo/src on each run (VERIF_REPO overrides the tree for the mutation self-test). Exit 0 held / 1 violation / 2 undecided / 3 checker problem. fix: commits in /repo are listed in known_findings.json.",
        "not_applicable": na,
    }
    json.dump(m, open(os.path.join(ROOT, "MANIFEST.json"), "w"), indent=1)


if __name__ == "__main__":
    main()
