#!/usr/bin/env python3-vt
"""fragile.py: robustness report of the solver portfolio on the unchanged tree.  For every quantified obligation of every unit, each
configuration of the short seeded attempts is run on its own (same forked-child state as in check.py) and the number of configurations
that prove it within the budget is counted.  Obligations proved by fewer than 2 of them depend on luck and are listed."""
import multiprocessing as mp
import os
import sys
import time

if os.environ.get("PYTHONHASHSEED") != "0":
    os.environ["PYTHONHASHSEED"] = "0"
    os.execv(sys.executable, [sys.executable] + sys.argv)
ROOT = os.path.dirname(os.path.dirname(os.path.abspath(__file__)))
sys.path.insert(0, ROOT)
import z3  # noqa: E402
from checks import check  # noqa: E402
from pyvc import solve  # noqa: E402
from pyvc.path import is_quantified  # noqa: E402

CONFIGS = ((0, True), (1, True), (2, False), (3, True), (4, False))
_G = {}


def work(i):
    reg, ex = _G["reg"], _G["ex"]
    c = reg.units[i]
    out = []
    try:
        obls, _info = ex.verify(c)
    except Exception as e:  # noqa
        return [(c.name, c.self_cls, "ERR", str(e)[:80], [])]
    for ob in obls:
        if ob.expect_sat or z3.is_true(ob.goal):
            continue
        q = ob.hyps + [z3.Not(ob.goal)]
        if not any(is_quantified(f) for f in q):
            continue
        res = []
        for seed, mbqi in CONFIGS:
            t0 = time.process_time()
            st, _m, _s = solve._check(q, 1200, seed=seed, mbqi=mbqi)
            res.append((st, round(time.process_time() - t0, 2)))
        out.append((c.name, c.self_cls, ob.name, ob.kind, res))
    return out


def main():
    repo, reg, ex = check.build()
    _G["reg"], _G["ex"] = reg, ex
    only = sys.argv[1] if len(sys.argv) > 1 else None
    units = [i for i, c in enumerate(reg.units) if c.verify and (only is None or only in c.name)]
    ctx = mp.get_context("fork")
    rows = []
    with ctx.Pool(processes=16, maxtasksperchild=1) as pool:
        for r in pool.imap_unordered(work, units):
            rows += r
    n = len(rows)
    weak = [r for r in rows if sum(1 for st, _t in r[4] if st == "unsat") < 2 and not any(st == "sat" for st, _t in r[4])]
    print(f"{n} quantified obligations; {len(weak)} proved by fewer than 2 of the {len(CONFIGS)} short attempts:")
    for name, cls, ob, kind, res in sorted(weak):
        print(f"  {name}[{cls}] {ob}: " + " ".join(f"{st}/{t}" for st, t in res))


if __name__ == "__main__":
    main()
