#!/usr/bin/env python3
"""print a python source file (or the named functions of it) without docstrings"""
import ast, sys
src = open(sys.argv[1]).read()
t = ast.parse(src)
for n in ast.walk(t):
    if isinstance(n, (ast.FunctionDef, ast.ClassDef, ast.Module)) and n.body and isinstance(n.body[0], ast.Expr) and isinstance(getattr(n.body[0], "value", None), ast.Constant) and isinstance(n.body[0].value.value, str):
        n.body = n.body[1:] or [ast.Pass()]
names = set(sys.argv[2:])
for n in t.body:
    if not names or getattr(n, "name", None) in names:
        print(f"# L{n.lineno}")
        print(ast.unparse(n))
