#!/usr/bin/env python3
"""Evaluate every seeded change under /verif/seeded: confirm it (demo passes on /repo, fails with the patch), run the check of
its property against the patched scratch copy (outside /repo and /verif, removed afterwards), and record the outcome in meta.json
and seeded/RESULTS.md.  usage: seed_all.py [seed-dir-name ...]"""
import concurrent.futures as cf
import json
import os
import shutil
import subprocess
import sys
import tempfile

ROOT = os.path.dirname(os.path.dirname(os.path.abspath(__file__)))
SEEDS = os.path.join(ROOT, "seeded")


def run(name):
    sd = os.path.join(SEEDS, name)
    meta = json.load(open(os.path.join(sd, "meta.json")))
    prop = meta["property"]
    d = tempfile.mkdtemp(prefix="verif_seed_")
    try:
        shutil.copytree("/repo/src", os.path.join(d, "src"))
        p = subprocess.run(["patch", "-p1", "-s", "-i", os.path.join(sd, "patch.diff")], cwd=d, capture_output=True, text=True)
        if p.returncode != 0:
            return name, meta, {"applies": False, "detail": (p.stdout + p.stderr)[-300:]}
        env0 = dict(os.environ, PYTHONPATH="/repo/src")
        env1 = dict(os.environ, PYTHONPATH=os.path.join(d, "src"))
        demo = os.path.join(sd, "demo.py")
        r0 = subprocess.run(["/venv/bin/python", demo], capture_output=True, text=True, env=env0, cwd=d).returncode
        r1 = subprocess.run(["/venv/bin/python", demo], capture_output=True, text=True, env=env1, cwd=d).returncode
        env = dict(os.environ, VERIF_REPO=d, VERIF_NO_EVIDENCE="1")
        out = subprocess.run(["python3-vt", os.path.join(ROOT, "checks", "check.py"), prop], capture_output=True, text=True, env=env, cwd=ROOT)
        viol = [l for l in out.stdout.splitlines() if l.startswith("VIOLATION")]
        ded = [l for l in viol if "_bounded_" not in l]
        bnd = [l for l in viol if "_bounded_" in l]
        return name, meta, {"applies": True, "demo_repo": r0, "demo_patched": r1, "exit": out.returncode,
                            "deductive": len(ded), "bounded": len(bnd),
                            "first": (ded or bnd or [""])[0].split("replay=")[-1].split("/")[-1][:110]}
    finally:
        shutil.rmtree(d, ignore_errors=True)


def main():
    names = sys.argv[1:] or sorted(n for n in os.listdir(SEEDS) if os.path.isdir(os.path.join(SEEDS, n)))
    rows = []
    with cf.ThreadPoolExecutor(max_workers=int(os.environ.get("SEED_JOBS", "4"))) as pool:
        for name, meta, r in pool.map(run, names):
            if not r["applies"]:
                meta["confirmed"] = "patch no longer applies to the current tree"
                meta["detected_by"] = "not evaluated"
                rows.append((name, meta["property"], "patch does not apply", "-", "-"))
            else:
                ok = r["demo_repo"] == 0 and r["demo_patched"] != 0
                meta["confirmed"] = (f"yes: demo.py exits {r['demo_repo']} on /repo and {r['demo_patched']} on the patched tree" if ok
                                     else f"NOT confirmed: demo exits {r['demo_repo']} on /repo, {r['demo_patched']} patched")
                if r["exit"] == 1:
                    parts = []
                    if r["deductive"]:
                        parts.append(f"{r['deductive']} failed obligation(s) of the contracts")
                    if r["bounded"]:
                        parts.append("the bounded native stand-in")
                    meta["detected_by"] = f"check.py {meta['property']} exits 1: " + " and ".join(parts) + f" (first: {r['first']})"
                else:
                    meta["detected_by"] = f"MISSED: check.py {meta['property']} exits {r['exit']}"
                rows.append((name, meta["property"], "confirmed" if ok else "not confirmed", f"exit {r['exit']}",
                             f"{r['deductive']} deductive / {r['bounded']} bounded"))
            with open(os.path.join(SEEDS, name, "meta.json"), "w") as f:
                json.dump(meta, f, indent=1)
            print(rows[-1])
    if not sys.argv[1:]:
        with open(os.path.join(SEEDS, "RESULTS.md"), "w") as f:
            f.write("# Seeded property-breaking changes (independent sub-agents) and what catches them\n\n")
            f.write("| seed | property | demo | check | violations reported |\n|---|---|---|---|---|\n")
            for r in rows:
                f.write("| " + " | ".join(r) + " |\n")
    return 0


if __name__ == "__main__":
    sys.exit(main())
