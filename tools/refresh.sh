#!/bin/bash
# regenerate MANIFEST, baselines and evidence for every claimed property (run on the unchanged tree before committing)
cd /verif
python3 tools/gen_manifest.py
rc=0
for p in $(python3 -c "import json;print(' '.join(c['property_id'] for c in json.load(open('MANIFEST.json'))['checks']))") "$@"; do
  python3-vt checks/check.py $p --write-baseline | grep -v "^   " | tail -3
  [ ${PIPESTATUS[0]} -ne 0 ] && rc=1
done
python3-vt - <<'PY'
import json, jsonschema, glob
m = json.load(open('/verif/MANIFEST.json'))
jsonschema.validate(m, json.load(open('/root/.vp/MANIFEST.schema.json')))
es = json.load(open('/root/.vp/EVIDENCE.schema.json'))
for c in m['checks']:
    e = json.load(open('/verif/' + c['evidence_file']))
    jsonschema.validate(e, es)
    cov = e['coverage']
    assert cov['obligations'] == cov['discharged'] and cov['obligations'] > 0, (c['property_id'], cov['obligations'], cov['discharged'])
print("manifest + evidence valid for", [c['property_id'] for c in m['checks']])
PY
exit $rc
