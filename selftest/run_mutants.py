#!/usr/bin/env python3
"""Mutation corpus: every entry is applied to a scratch copy of /repo/src (outside /repo and /verif,
removed afterwards) and the property check is run against it with VERIF_REPO.  expect=1: the check must
report a VIOLATION; expect=0 (benign edit): it must exit 0."""
import concurrent.futures as cf
import json
import os
import shutil
import subprocess
import sys
import tempfile

ROOT = os.path.dirname(os.path.dirname(os.path.abspath(__file__)))


def run(m):
    d = tempfile.mkdtemp(prefix="verif_mut_")
    try:
        shutil.copytree("/repo/src/finam", os.path.join(d, "src", "finam"))
        p = os.path.join(d, "src", m["file"])
        s = open(p).read()
        if m["old"] not in s:
            return m, "stale", "pattern not found in current source"
        open(p, "w").write(s.replace(m["old"], m["new"], 1))
        env = dict(os.environ, VERIF_REPO=d, VERIF_NO_EVIDENCE="1")
        out = subprocess.run(["python3-vt", os.path.join(ROOT, "checks", "check.py"), m["prop"]], capture_output=True, text=True, env=env, cwd=ROOT)
        viol = "VIOLATION" in out.stdout
        ok = (out.returncode == 1 and viol) if m["expect"] else out.returncode == 0
        return m, "ok" if ok else "MISSED" if m["expect"] else "FALSE-ALARM", f"exit {out.returncode}"
    finally:
        shutil.rmtree(d, ignore_errors=True)


def main():
    ms = json.load(open(os.path.join(ROOT, "selftest", "mutants.json")))
    if len(sys.argv) > 1:
        ms = [m for m in ms if m["prop"] in sys.argv[1:]]
    bad = 0
    with cf.ThreadPoolExecutor(max_workers=4) as pool:
        for m, verdict, info in pool.map(run, ms):
            print(f"{verdict:12s} {m['prop']} expect={m['expect']} {info}  {m['why']}")
            bad += verdict not in ("ok",)
    print(f"{len(ms)} mutants, {bad} not as expected")
    return 1 if bad else 0


if __name__ == "__main__":
    sys.exit(main())
