"""debug helper: python3-vt tools_dbg.py <unit name> <obligation substring> [self_cls]"""
import sys, time
sys.path.insert(0, "/verif")
import z3
from checks import check
from pyvc import solve
repo, reg, ex = check.build()
uname, sub = sys.argv[1], sys.argv[2]
pos = [a for a in sys.argv[1:] if not a.startswith("--")]
scls = pos[2] if len(pos) > 2 else None
for c in reg.units:
    if c.name == uname and (scls is None or c.self_cls == scls):
        obls, info = ex.verify(c)
        for ob in obls:
            if sub in ob.name:
                q = ob.hyps + [z3.Not(ob.goal)]
                print("==", ob.name, "hyps", len(ob.hyps))
                for cfg in [dict(), {"smt.mbqi": False}, {"smt.mbqi": False, "smt.qi.eager_threshold": 100.0}]:
                    s = z3.Solver()
                    s.set("timeout", 8000)
                    for k, v in cfg.items():
                        s.set(k, v)
                    s.add(*q)
                    t0 = time.time()
                    r = s.check()
                    print("  ", cfg, r, round(time.time() - t0, 2), s.reason_unknown() if r == z3.unknown else "")
                if "--dump" in sys.argv:
                    s = z3.Solver(); s.add(*q); open("/tmp/q.smt2", "w").write(s.to_smt2())
                if "--hyps" in sys.argv:
                    for h in ob.hyps: print("   H:", str(h)[:6000])
                    print("   G:", str(ob.goal)[:1500])
