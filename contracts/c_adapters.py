"""Contracts for the simple pass-through adapters (finam.adapters.base) and the generic Adapter.get_data wrapper (C08, C09, C07)."""
import z3

from pyvc import sv
from pyvc.contract import Contract
from pyvc.sv import And, Or, Not, Implies, If, Time, Pay, Real, TRef, TOpt, TObj
from .base import WORLD, TimeOpt, RETENTION_FIELDS, PREP, SRCVAL, pull_log, log_appended, is_none, strip_none

B = "finam.adapters.base"
AD = "finam.sdk.adapter.Adapter"
CBV = z3.Function("adapter_callback_value", sv.OpaqueS, sv.RealS, sv.IntS, sv.RealS)   # callback(data, time) of a Callback adapter


def register(reg):
    reg.field("scale", Real)
    MOD = lambda ctx: [(None, f) for f in RETENTION_FIELDS] + [(WORLD, "$pull_log")]
    RAISES = {"FinamTimeError": lambda ctx: z3.BoolVal(True), "FinamNoDataError": lambda ctx: z3.BoolVal(True),
              "FinamDataError": lambda ctx: z3.BoolVal(True)}

    def pre(ctx):
        s = ctx.self
        return And(Not(is_none(ctx.get(s, "_source"))), Not(ctx.get(s, "_static").e), Not(is_none(ctx.get(s, "_input_info"))))

    def one_pull(ctx):
        """exactly one request reaches the source: for the requested time and on behalf of the requesting end consumer"""
        s = ctx.self
        src = ctx.old.get(s, "_source")
        tgt = ctx.target
        eff = sv.ite(ctx.ex.truthy(tgt, ctx.path), tgt, s)
        return log_appended(ctx, src, ctx.time, eff)

    def pulled(ctx):
        return SRCVAL(ctx.self.e, pull_log(ctx.old).n)      # what Input.pull_data delivered for this (the next logged) request

    # ---- Scale._get_data: the pulled value times the factor
    reg.add(Contract(
        f"{B}.Scale._get_data", self_cls="Scale", props=["C08.6", "C09.6", "C05.6"], params={"time": TimeOpt, "target": TOpt(TRef("IInput"))}, result=Pay,
        requires=pre, modifies=MOD, raises=RAISES,
        ensures=lambda ctx, r: {"one request upstream, same time, same end consumer": one_pull(ctx),
                                "value times the scale": r.e == pulled(ctx) * ctx.get(ctx.self, "scale").e},
    ))

    # ---- Callback._get_data: the user function applied to the pulled value and the requested time
    reg.add(Contract(
        f"{B}.Callback._get_data", self_cls="Callback", props=["C08.6", "C09.6"], params={"time": TimeOpt, "target": TOpt(TRef("IInput"))}, result=Pay,
        requires=pre, modifies=MOD, raises=RAISES,
        ensures=lambda ctx, r: {"one request upstream, same time, same end consumer": one_pull(ctx),
                                "callback(pulled value, requested time)": r.e == CBV(ctx.get(ctx.self, "callback").e, pulled(ctx), tkey(ctx.time))},
    ))
    register_linking(reg)


def tkey(t):
    return strip_none(t).e if not isinstance(t, sv.SNone) else z3.IntVal(-1)


def install(ex):
    def call_cb(ex, fn, args, kwargs, path, node):
        c = ex.cur_contract
        if isinstance(fn, sv.SObj) and fn.okind == "callback" and c is not None and c.target.endswith("Callback._get_data") and len(args) == 2:
            d = ex.expect(args[0], sv.SPay, path, node)
            return sv.SPay(CBV(fn.e, d.e, tkey(args[1])))
        return None

    ex.hooks.setdefault("call_value", []).insert(0, call_cb)


# =================================================================================================
# linking: Output.add_target / chain, Input.source (setter), Input.ping, Adapter.pinged (C19.7: the links that exist are the
# links that were created; C09: who is registered as consumer)
# =================================================================================================
def register_linking(reg):
    from .c_schedule import isa
    OUT, INP = "finam.sdk.output.Output", "finam.sdk.input.Input"

    def appended(ctx, x):
        t0, t1 = ctx.old.get(ctx.self, "_targets"), ctx.get(ctx.self, "_targets")
        i = z3.Int("lk_i")
        return And(t1.n == t0.n + 1, t1.at(t0.n).e == x.e, z3.ForAll([i], Implies(And(0 <= i, i < t0.n), t1.at(i).e == t0.at(i).e)))

    reg.add(Contract(
        f"{OUT}.add_target", self_cls="Output", props=["C19.7", "C09.7"], params={"target": TRef(None)},
        requires=lambda ctx: ctx.target.e > 0, modifies=lambda ctx: [(ctx.self, "_targets")], raise_frame_empty=True,
        raises={"ValueError": lambda ctx: Not(isa("IInput", ctx.target.e))}, must_raise={"ValueError": lambda ctx: Not(isa("IInput", ctx.target.e))},
        ensures=lambda ctx, r: {"the target is appended, the other targets are kept": appended(ctx, ctx.target)},
    ))

    reg.add(Contract(
        f"{INP}.source.setter", self_cls="Input", props=["C19.7"], params={"source": TRef(None)},
        requires=lambda ctx: ctx.source.e > 0, modifies=lambda ctx: [(ctx.self, "_source")], raise_frame_empty=True,
        raises={"ValueError": lambda ctx: Or(Not(is_none(ctx.old.get(ctx.self, "_source"))), Not(isa("IOutput", ctx.source.e)))},
        must_raise={"ValueError": lambda ctx: Or(Not(is_none(ctx.get(ctx.self, "_source"))), Not(isa("IOutput", ctx.source.e)))},
        ensures=lambda ctx, r: {"the source is set": And(Not(is_none(ctx.get(ctx.self, "_source"))), strip_none(ctx.get(ctx.self, "_source")).e == ctx.source.e)},
    ))

    # Input.ping registers the input itself at its source
    reg.add(Contract("iface:IOutput.pinged", params={"source": TRef("IInput")}, note="method", verify=False,
                     modifies=lambda ctx: [(None, "_connected_inputs"), (WORLD, "$pinged")],
                     ensures=lambda ctx, r: And(ctx.get(WORLD, "$pinged").items[0].e == ctx.self.e, ctx.get(WORLD, "$pinged").items[1].e == ctx.source.e),
                     raises={"ValueError": lambda ctx: z3.BoolVal(True)}))
    from pyvc.sv import TTup
    reg.field("$pinged", TTup(TRef(None), TRef(None)))     # ghost: (output, registered consumer) of the last pinged() call
    reg.add(Contract(
        f"{INP}.ping", self_cls="Input", props=["C09.7", "C19.7"], params={}, modifies=lambda ctx: [(None, "_connected_inputs"), (WORLD, "$pinged")],
        requires=lambda ctx: Not(is_none(ctx.get(ctx.self, "_source"))), raises={"ValueError": lambda ctx: z3.BoolVal(True)},
        ensures=lambda ctx, r: {"the input registers itself at its own source":
                                And(ctx.get(WORLD, "$pinged").items[0].e == strip_none(ctx.old.get(ctx.self, "_source")).e,
                                    ctx.get(WORLD, "$pinged").items[1].e == ctx.self.e)},
    ))
    # Adapter.pinged: pass-through adapters forward the end consumer, push-based ones register themselves
    for cls, push in (("Scale", False), ("LinearTime", True), ("DelayFixed", False)):
        reg.add(Contract(
            "finam.sdk.adapter.Adapter.pinged", self_cls=cls, props=["C09.7", "C19.7"], params={"source": TRef("IInput")},
            modifies=lambda ctx: [(None, "_connected_inputs"), (WORLD, "$pinged")],
            requires=lambda ctx: Not(is_none(ctx.get(ctx.self, "_source"))), raises={"ValueError": lambda ctx: z3.BoolVal(True)},
            ensures=lambda ctx, r, push=push: {"registered upstream: the adapter itself if it buffers, else the end consumer":
                                               And(ctx.get(WORLD, "$pinged").items[0].e == strip_none(ctx.old.get(ctx.self, "_source")).e,
                                                   ctx.get(WORLD, "$pinged").items[1].e == (ctx.self.e if push else ctx.source.e))},
            name=f"pinged<{cls}>", primary=False,
        ))
