"""Contracts for finam.data.tools.mask (C18): mask rules during connect, compression round trip.

The dynamic kind of a mask argument (None, Mask.FLEX, Mask.NONE, numpy.ma.nomask, boolean array of rank 1..2)
is fixed per verification unit (exhaustive case split on the kind), sizes and contents of arrays stay symbolic.
"""
import z3

from pyvc import sv, arr
from pyvc.arr import SArr
from pyvc.contract import Contract
from pyvc.path import Unsupported
from pyvc.sv import And, Or, Not, Implies, If, Bool, Int, Real, Str, TRef, TOpt, TList, TTup, TObj

M = "finam.data.tools.mask"
NOMASK = sv.SPy("ext", "numpy.ma.nomask")
FLEX = sv.SInt(z3.IntVal(0))    # Mask.FLEX (enum members are numbered in definition order)
NONE_ = sv.SInt(z3.IntVal(1))   # Mask.NONE

MASK_RANKS = (1, 2)


def kinds(tag):
    """name -> fresh value of that kind"""
    out = {"None": sv.NONE, "FLEX": FLEX, "NONE": NONE_, "nomask": NOMASK}
    for r in MASK_RANKS:
        out[f"arr{r}"] = arr.fresh_arr(f"{tag}{r}", r, "bool")
    return out


def is_arr(v):
    return isinstance(v, SArr)


def specified(v):
    """mask_specified: anything but the two Mask members"""
    return not (v is FLEX or v is NONE_)


def any_true(a):
    return Not(arr.all_true(arr.logical_not(a)))


# ---- the grids that accompany array masks: None or a StructuredGrid whose data shape is the mask's shape
def grid_cases(m):
    if not is_arr(m):
        return ["none"]
    return ["none", "grid"]


def canon_mask_eq(ctx, a, ga, b, gb, d):
    """the two masks mark the same physical locations: canonical forms have equal shape and equal entries"""
    from .c_grid import canon_shape, layout_index
    c = [z3.Int(f"mc{k}") for k in range(d)]
    csa, csb = canon_shape(ctx, ga, d), canon_shape(ctx, gb, d)
    ja, jb = layout_index(ctx, ga, d, c), layout_index(ctx, gb, d, c)
    return And(*[csa[k] == csb[k] for k in range(d)],
               z3.ForAll(c, Implies(arr.in_box(csa, c), a.at(tuple(ja)) == b.at(tuple(jb)))))


def direct_mask_eq(a, b):
    return arr.eq_everywhere(a, b)


def equal_spec(ctx, a, ga, b, gb):
    """C18.3: masks_equal as a z3 Bool for concrete kinds (ga / gb: SRef or sv.NONE)"""
    if a is sv.NONE and b is sv.NONE:
        return z3.BoolVal(True)
    if not specified(a) and not specified(b):
        return z3.BoolVal(a is b)
    if a is sv.NONE or b is sv.NONE or not specified(a) or not specified(b):
        return z3.BoolVal(False)
    if a is NOMASK and b is NOMASK:
        return z3.BoolVal(True)
    if a is NOMASK:
        return Not(any_true(b))
    if b is NOMASK:
        return Not(any_true(a))
    if a.rank != b.rank:
        return z3.BoolVal(False)
    if isinstance(ga, sv.SRef) and isinstance(gb, sv.SRef):
        return canon_mask_eq(ctx, a, ga, b, gb, a.rank)
    # no layout information for one side: the arrays are compared as they are
    return direct_mask_eq(a, b)


def compatible_spec(ctx, up, gup, down, gdown):
    """C18.3: a producer mask `up` is acceptable for a consumer mask `down`"""
    if up is sv.NONE:
        return z3.BoolVal(False)          # the producer has not declared anything yet
    if down is FLEX:
        return z3.BoolVal(True)           # flexible consumer accepts any producer
    if down is NONE_:
        return z3.BoolVal(up is NONE_)    # unmasked consumer: only unmasked producers
    if not specified(up):
        return z3.BoolVal(False)          # fixed-mask consumer, producer without a fixed mask
    return equal_spec(ctx, down, gdown, up, gup)


def grid_pre(ctx, m, g):
    """Info invariant: a mask array has the data shape of its grid"""
    from .c_grid import data_shape_spec, gdim, grid_wf
    if not (is_arr(m) and isinstance(g, sv.SRef)):
        return z3.BoolVal(True)
    d = m.rank
    ds = data_shape_spec(ctx, g, d)
    return And(g.e > 0, grid_wf(ctx, g, d), *[m.shape[k] == ds[k] for k in range(d)])


BOUNDED = {"C18": [{"name": "mask-rules-and-round-trip", "script": "replay/drivers/bnd_masks.py", "args": ["--json"], "timeout": 600},
                   {"name": "prepare-applies-mask", "script": "replay/drivers/bnd_prepare.py", "args": ["--json", "--masked"], "timeout": 600},
                   {"name": "metadata-products", "script": "replay/drivers/bnd_info.py", "args": ["--json"], "timeout": 600}]}
REPLAY = {f"{M}.{fn}": "bnd_masks.py" for fn in ("mask_specified", "masks_equal", "masks_compatible", "to_compressed", "from_compressed")}
EXPLAIN = {"C18": "VCs from the real mask_specified / masks_equal / masks_compatible (exhaustive case split on the kind of each mask argument: None, "
                  "Mask.FLEX, Mask.NONE, nomask, boolean array of rank 1-2, with / without grid) and to_compressed / from_compressed (rank 1-3, both orders, "
                  "mask argument / masked input / no mask); round trip as a lemma over the two contracts; prepare's mask branch by the bounded stand-in"}


def register(reg):
    # ------------------------------------------------------------------ mask_specified
    for kn, v in kinds("MS").items():
        reg.add(Contract(f"{M}.mask_specified", props=["C18.3"], params={"mask": v}, result=Bool, pure=True, modifies=lambda ctx: [],
                         ensures=lambda ctx, r, v=v: r.e == z3.BoolVal(specified(v)),
                         name=f"mask_specified<{kn}>", primary=False, inline_calls=[f"{M}.mask_specified"]))

    # ------------------------------------------------------------------ masks_equal
    KA, KB = kinds("MA"), kinds("MB")
    for ka, a in KA.items():
        for kb, b in KB.items():
            for gca in grid_cases(a):
                for gcb in grid_cases(b):
                    ga = sv.SRef(z3.Int("ga"), "StructuredGrid") if gca == "grid" else sv.NONE
                    gb = sv.SRef(z3.Int("gb"), "StructuredGrid") if gcb == "grid" else sv.NONE
                    tag = f"<{ka},{kb};{gca},{gcb}>"
                    reg.add(Contract(
                        f"{M}.masks_equal", props=["C18.3"], params={"this": a, "other": b, "this_grid": ga, "other_grid": gb},
                        result=Bool, pure=True, modifies=lambda ctx: [],
                        requires=lambda ctx, a=a, b=b, ga=ga, gb=gb: And(grid_pre(ctx, a, ga), grid_pre(ctx, b, gb)),
                        ensures=lambda ctx, r, a=a, b=b, ga=ga, gb=gb: r.e == equal_spec(ctx, a, ga, b, gb),
                        name=f"masks_equal{tag}", primary=False, inline_calls=[f"{M}.mask_specified"],
                    ))

    # ------------------------------------------------------------------ masks_compatible
    for ka, a in KA.items():
        for kb, b in KB.items():
            for gca in grid_cases(a):
                for gcb in grid_cases(b):
                    ga = sv.SRef(z3.Int("ga"), "StructuredGrid") if gca == "grid" else sv.NONE
                    gb = sv.SRef(z3.Int("gb"), "StructuredGrid") if gcb == "grid" else sv.NONE
                    tag = f"<{ka},{kb};{gca},{gcb}>"

                    def post(ctx, r, a=a, b=b, ga=ga, gb=gb):
                        down = ctx.incoming_donwstream.e
                        # incoming is downstream: this is the producer; else this is the consumer
                        return r.e == If(down, compatible_spec(ctx, a, ga, b, gb), compatible_spec(ctx, b, gb, a, ga))

                    reg.add(Contract(
                        f"{M}.masks_compatible", props=["C18.3"],
                        params={"this": a, "incoming": b, "incoming_donwstream": Bool, "this_grid": ga, "incoming_grid": gb},
                        result=Bool, pure=True, modifies=lambda ctx: [],
                        requires=lambda ctx, a=a, b=b, ga=ga, gb=gb: And(grid_pre(ctx, a, ga), grid_pre(ctx, b, gb)),
                        ensures=post, name=f"masks_compatible{tag}", primary=False,
                        inline_calls=[f"{M}.mask_specified", f"{M}.masks_equal"],
                    ))

    register_compress(reg)

    # ------------------------------------------------------------------ is_sub_mask (C16.3: "everything outside the hull is masked")
    def sub_spec(a, b):
        """is_sub_mask(a, b): b masks (at least) every location that a masks"""
        ismask = lambda v: is_arr(v) or v is NOMASK
        if not ismask(a) or not ismask(b):
            return z3.BoolVal(False)
        if a is NOMASK:
            return z3.BoolVal(True)
        if b is NOMASK:
            return Not(any_true(a))
        if a.rank != b.rank:
            return z3.BoolVal(False)
        # stated over the flattened positions p (unravel_C is a bijection of [0, N) onto the index box: assumed law of pyvc/arr.py)
        p_ = z3.Int("smp")
        fa, fb = arr.ravel_arr(a, "C"), arr.ravel_arr(SArr(a.shape, b.at, "bool", ident=b.ident), "C")
        return And(*[x == y for x, y in zip(a.shape, b.shape)],
                   z3.ForAll([p_], Implies(And(0 <= p_, p_ < fa.shape[0], fa.at((p_,))), fb.at((p_,)))))

    for ka, a in KA.items():
        for kb, b in KB.items():
            reg.add(Contract(
                f"{M}.is_sub_mask", props=["C16.3", "C18.3"], params={"mask": a, "submask": b}, result=Bool, pure=True, modifies=lambda ctx: [],
                requires=lambda ctx, a=a, b=b: And(*[n >= 0 for v in (a, b) if is_arr(v) for n in v.shape]),
                ensures=lambda ctx, r, a=a, b=b: {"sub-mask <=> covers every masked location": r.e == sub_spec(a, b)},
                axioms=lambda ctx, a=a: (arr.sel_axioms(arr.ravel_arr(a, "C")) if is_arr(a) else []) + arr.ravel_axioms(),
                name=f"is_sub_mask<{ka},{kb}>", primary=False,
            ))


# =================================================================================================
# to_compressed / from_compressed (C18.1)
# =================================================================================================
COMP_RANKS = (1, 2, 3)


def unmasked_vec(Mk, order):
    """the boolean vector 'not ravel_order(mask)' as the code must build it (identity fixes its selection functions)"""
    return arr.logical_not(arr.ravel_arr(Mk, order))


def tc_formula(A, Mk, order, R):
    """R = to_compressed(A, order, mask=Mk): the unmasked entries of A in memory order `order`"""
    b = unmasked_vec(Mk, order)
    sel, _rnk, cnt = arr.sel_fns(b.ident)
    k = z3.Int("tk")
    return And(z3.BoolVal(isinstance(R, SArr) and R.rank == 1), R.shape[0] == cnt,
               z3.ForAll([k], Implies(And(0 <= k, k < cnt), R.at((k,)) == A.at(arr.unravel(order, A.shape, sel(k))))))


def fc_formula(X, Mk, shape, order, R):
    """R = from_compressed(X, shape, order, mask=Mk): unmasked positions filled in memory order, mask attached"""
    b = unmasked_vec(Mk, order)
    _sel, rnk, _cnt = arr.sel_fns(b.ident)
    d = len(shape)
    idx = [z3.Int(f"fi{k}") for k in range(d)]
    ok = isinstance(R, SArr) and R.rank == d and isinstance(R.mask, SArr)
    if not ok:
        return z3.BoolVal(False)
    return And(*[R.shape[k] == shape[k] for k in range(d)], arr.eq_everywhere(R.mask, Mk),
               z3.ForAll(idx, Implies(And(arr.in_box(shape, idx), Not(Mk.at(tuple(idx)))),
                                      R.at(tuple(idx)) == X.at((rnk(arr.ravel(order, shape, idx)),)))))


def sel_defs(Mk, order):
    return arr.sel_axioms(unmasked_vec(Mk, order))


def default_of(repo, qual, param):
    """source text of the default value of a parameter (None if it has none)"""
    import ast
    fi = repo.func(qual)
    a = fi.node.args
    pos = a.posonlyargs + a.args
    for p_, d in zip(reversed(pos), reversed(a.defaults)):
        if p_.arg == param:
            return ast.unparse(d)
    for p_, d in zip(a.kwonlyargs, a.kw_defaults):
        if p_.arg == param and d is not None:
            return ast.unparse(d)
    return None


def register_default_facts(reg):
    """the round trip is usually written with the default memory order on both sides: the two defaults must agree (and be C, as documented)"""
    repo = getattr(reg, "repo", None)
    if repo is None:
        return
    d1, d2 = default_of(repo, f"{M}.to_compressed", "order"), default_of(repo, f"{M}.from_compressed", "order")
    reg.facts.append(("defaults<to_compressed.order,from_compressed.order>", ["C18.1", "C16.1"], d1 == d2 == "'C'",
                      f"default memory order of to_compressed is {d1}, of from_compressed {d2}: both must be 'C' (a round trip written with defaults must be the identity)"))


def register_compress(reg):
    register_default_facts(reg)
    for d in COMP_RANKS:
        for order in ("C", "F"):
            A = arr.fresh_arr(f"XA{d}", d, "real")
            Mk = arr.fresh_arr(f"XM{d}", d, "bool", shape=A.shape)
            Am = SArr(A.shape, A.at, "real", ident=A.ident, masked=Mk)
            shape_ok = And(*[n >= 0 for n in A.shape])
            for variant, xd, mk in (("mask-arg", A, Mk), ("masked-input", Am, sv.NONE)):
                reg.add(Contract(
                    f"{M}.to_compressed", props=["C18.1"], params={"xdata": xd, "order": order_const(order), "mask": mk},
                    pure=True, modifies=lambda ctx: [], requires=lambda ctx, shape_ok=shape_ok: shape_ok,
                    ensures=lambda ctx, r, A=A, Mk=Mk, order=order: tc_formula(A, Mk, order, r),
                    axioms=lambda ctx, Mk=Mk, order=order: sel_defs(Mk, order) + arr.ravel_axioms(),
                    name=f"to_compressed<d={d},{order},{variant}>", primary=False,
                    inline_calls=[f"{M}.mask_specified", f"{M}.is_masked_array"],
                ))
            # unmasked input: plain flattening in the requested order
            for variant, mk in (("no-mask", sv.NONE), ("Mask.NONE", NONE_), ("Mask.FLEX", FLEX)):
                def flat_post(ctx, r, A=A, order=order, d=d):
                    i = [z3.Int(f"pi{k}") for k in range(d)]
                    return And(z3.BoolVal(isinstance(r, SArr) and r.rank == 1), r.shape[0] == arr.size_of(A.shape),
                               z3.ForAll(i, Implies(arr.in_box(A.shape, i), r.at((arr.ravel(order, A.shape, i),)) == A.at(tuple(i)))))
                reg.add(Contract(
                    f"{M}.to_compressed", props=["C18.1"], params={"xdata": A, "order": order_const(order), "mask": mk},
                    pure=True, modifies=lambda ctx: [], requires=lambda ctx, shape_ok=shape_ok: shape_ok, ensures=flat_post,
                    axioms=lambda ctx: arr.ravel_axioms(),
                    name=f"to_compressed<d={d},{order},{variant}>", primary=False,
                    inline_calls=[f"{M}.mask_specified", f"{M}.is_masked_array"],
                ))
            # ---- from_compressed with a mask array
            X = arr.fresh_arr(f"XC{d}", 1, "real")
            shp = sv.STup([sv.SInt(n) for n in A.shape]) if d > 1 else sv.STup([sv.SInt(A.shape[0])])

            def fc_pre(ctx, X=X, Mk=Mk, order=order, shape_ok=shape_ok):
                _s, _r, cnt = arr.sel_fns(unmasked_vec(Mk, order).ident)
                return And(shape_ok, X.shape[0] == cnt)

            reg.add(Contract(
                f"{M}.from_compressed", props=["C18.1"], params={"xdata": X, "shape": shp, "order": order_const(order), "mask": Mk},
                pure=True, modifies=lambda ctx: [], requires=fc_pre,
                ensures=lambda ctx, r, X=X, Mk=Mk, A=A, order=order: fc_formula(X, Mk, list(A.shape), order, r),
                axioms=lambda ctx, Mk=Mk, order=order: sel_defs(Mk, order) + arr.ravel_axioms(),
                name=f"from_compressed<d={d},{order},mask>", primary=False,
                inline_calls=[f"{M}.mask_specified", f"{M}.is_masked_array", f"{M}.to_masked"],
            ))

            # ---- round trip (lemma over the two contracts)
            def lemma(A=A, Mk=Mk, order=order, d=d):
                X2 = arr.fresh_arr(f"LX{d}{order}", 1, "real")
                R2 = arr.fresh_arr(f"LR{d}{order}", d, "real", shape=A.shape)
                R2.mask = arr.fresh_arr(f"LRM{d}{order}", d, "bool", shape=A.shape)
                hyps = [And(*[n >= 0 for n in A.shape]), tc_formula(A, Mk, order, X2), fc_formula(X2, Mk, list(A.shape), order, R2)] \
                    + sel_defs(Mk, order) + arr.ravel_axioms()
                idx = [z3.Int(f"li{k}") for k in range(d)]
                goal = Implies(And(arr.in_box(A.shape, idx), Not(Mk.at(tuple(idx)))), R2.at(tuple(idx)) == A.at(tuple(idx)))
                return hyps, goal

            reg.lemma(f"round-trip<d={d},{order}>", ["C18.1"], lemma)


def order_const(order):
    return sv.SStr(z3.StringVal(order), order)


def install(ex):
    def wrap(name, fn):
        old = ex.ext_models.get(name)

        def model(ex, path, args, kwargs, node):
            r = fn(ex, path, args, kwargs, node)
            if r is NotImplemented:
                if old is None:
                    raise Unsupported(f"call of external function {name} on {args}", node)
                return old(ex, path, args, kwargs, node)
            return r

        ex.ext_models[name] = model

    def is_mask(ex, path, args, kwargs, node):
        # numpy.ma.is_mask: an ndarray of dtype bool (nomask included); Mask members and None are not
        a = args[0]
        if isinstance(a, SArr):
            return sv.SBool(z3.BoolVal(a.dtype == "bool"))
        if a is NOMASK or (isinstance(a, sv.SPy) and a.what == "ext" and a.payload == "numpy.ma.nomask"):
            return sv.SBool(z3.BoolVal(True))
        if isinstance(a, (sv.SNone, sv.SInt)):
            return sv.SBool(z3.BoolVal(False))
        return NotImplemented

    wrap("numpy.ma.is_mask", is_mask)
    ex.pure_ext.add("np.ma.is_mask")

    def np_ndim(ex, path, args, kwargs, node):
        a = args[0]
        if isinstance(a, SArr):
            return sv.SInt(z3.IntVal(a.rank))
        return NotImplemented

    wrap("numpy.ndim", np_ndim)

    # ---- numpy on the array embedding (index-map laws of pyvc/arr.py)
    def order_of(v, node, path=None):
        if isinstance(v, sv.SStr) and v.py in ("C", "F"):
            return v.py
        if isinstance(v, sv.SStr) and path is not None:
            # symbolic order: numpy accepts 'C' / 'F' here (ValueError otherwise); case split
            c, f = ex.const("C").e, ex.const("F").e     # (registers the two literals: distinct strings)
            ex.safe(path, "memory-order", Or(v.e == c, v.e == f), node)
            k = ex.choose(path, [v.e == c, v.e == f])
            return "CF"[k]
        raise Unsupported(f"memory order {v}", node)

    def np_ravel(ex, path, args, kwargs, node):
        a = args[0]
        if not isinstance(a, SArr):
            return NotImplemented
        o = order_of(kwargs.get("order") or (args[1] if len(args) > 1 else order_const("C")), node, path)
        for ax in arr.ravel_axioms():
            path.assume(ax)
        return arr.ravel_arr(SArr(a.shape, a.at, a.dtype, ident=a.ident, units=a.units), o)

    wrap("numpy.ravel", np_ravel)

    def np_reshape(ex, path, args, kwargs, node):
        a = args[0]
        if not isinstance(a, SArr):
            return NotImplemented
        shp = args[1] if len(args) > 1 else kwargs.get("shape") or kwargs.get("newshape")
        o = order_of(kwargs.get("order") or order_const("C"), node, path)
        for ax in arr.ravel_axioms():
            path.assume(ax)
        flat = arr.ravel_arr(a, o)
        if isinstance(shp, sv.SInt):
            if sv.simp(shp.e).eq(z3.IntVal(-1)):
                return flat
            shp = sv.STup([shp])
        if not isinstance(shp, sv.STup):
            raise Unsupported(f"np.reshape to {shp}", node)
        dims = [x.e for x in shp.items]
        # ValueError: cannot reshape array of size N into shape ...
        ex.safe(path, "reshape-size", arr.size_of(dims) == flat.shape[0], node)
        if len(dims) == 1:
            return SArr((dims[0],), flat.at, flat.dtype, ident=flat.ident, masked=flat.mask, units=flat.units)
        return arr.reshape_from_flat(flat, dims, o)

    wrap("numpy.reshape", np_reshape)

    def np_logical_not(ex, path, args, kwargs, node):
        a = args[0]
        if isinstance(a, SArr) and a.dtype == "bool":
            return arr.logical_not(a)
        return NotImplemented

    wrap("numpy.logical_not", np_logical_not)

    def np_prod(ex, path, args, kwargs, node):
        a = args[0]
        if isinstance(a, sv.STup) and all(isinstance(x, sv.SInt) for x in a.items):
            return sv.SInt(arr.size_of([x.e for x in a.items]))
        return NotImplemented

    wrap("numpy.prod", np_prod)

    def np_empty_like(ex, path, args, kwargs, node):
        a = args[0]
        shp = kwargs.get("shape")
        if isinstance(a, SArr) and isinstance(shp, sv.SInt):
            ex.safe(path, "negative-size", shp.e >= 0, node)
            return arr.fresh_arr(sv.uid("EMPTY"), 1, a.dtype, shape=(shp.e,))
        return NotImplemented

    wrap("numpy.empty_like", np_empty_like)

    def ma_array(ex, path, args, kwargs, node):
        a = args[0]
        if not isinstance(a, SArr):
            return NotImplemented
        extra = set(kwargs) - {"mask"}
        if extra:
            raise Unsupported(f"np.ma.array with {sorted(extra)}", node)
        mk = kwargs.get("mask")
        if mk is None or (isinstance(mk, sv.SPy) and mk.payload == "numpy.ma.nomask"):
            return SArr(a.shape, a.at, a.dtype, ident=a.ident, masked=a.mask if a.mask is not None else "nomask", units=a.units)
        if isinstance(mk, SArr) and mk.dtype == "bool" and mk.rank == a.rank:
            # numpy: MaskError if mask and data have different sizes
            ex.safe(path, "mask-shape", And(*[x == y for x, y in zip(a.shape, mk.shape)]), node)
            if a.mask is not None and a.mask != "nomask":
                raise Unsupported("np.ma.array of an already masked array with a new mask", node)
            return SArr(a.shape, a.at, a.dtype, ident=a.ident, masked=mk, units=a.units)
        raise Unsupported(f"np.ma.array(mask={mk})", node)

    wrap("numpy.ma.array", ma_array)

    def ma_is_masked_array(ex, path, args, kwargs, node):
        a = args[0]
        if isinstance(a, SArr):
            return sv.SBool(z3.BoolVal(a.mask is not None))
        return NotImplemented

    wrap("numpy.ma.isMaskedArray", ma_is_masked_array)

    def isinst(ex, path, v, cname, node):
        if isinstance(v, SArr):
            if cname == "Quantity":
                return z3.BoolVal(v.units is not None)
            if cname == "ndarray":
                return z3.BoolVal(v.units is None)
            if cname == "MaskedArray":
                return z3.BoolVal(v.units is None and v.mask is not None)
            return z3.BoolVal(False)
        return None

    ex.hooks.setdefault("isinstance", []).append(isinst)

    def arr_attr(ex, base, attr, path, node):
        if not isinstance(base, SArr):
            return None
        if attr == "shape":
            return sv.STup([sv.SInt(n) for n in base.shape])
        if attr == "ndim":
            return sv.SInt(z3.IntVal(base.rank))
        if attr == "size":
            return sv.SInt(arr.size_of(base.shape))
        if attr == "data" and base.mask is not None and base.units is None:
            return SArr(base.shape, base.at, base.dtype, ident=base.ident)
        if attr == "mask" and base.mask is not None and base.units is None:
            return NOMASK if base.mask == "nomask" else base.mask
        if attr == "ravel":
            return sv.SPy("libfn", lambda ex, path, args, kwargs, node, base=base: np_ravel(ex, path, [base] + list(args), kwargs, node))
        if attr == "compress" and base.units is None:
            def compress(ex, path, args, kwargs, node, base=base):
                cond = args[0]
                if not (isinstance(cond, SArr) and cond.dtype == "bool" and cond.rank == 1 and base.rank == 1):
                    raise Unsupported(f"compress({cond}) of {base}", node)
                # numpy: the condition may be shorter than the array, never longer
                ex.safe(path, "compress-length", cond.shape[0] <= base.shape[0], node)
                return arr.compress(cond, base, path)
            return sv.SPy("libfn", compress)
        return None

    ex.hooks.setdefault("getattr", []).append(arr_attr)

    def arr_setitem(ex, base, idx, val, path, node):
        """data[b] = x for rank-1 arrays: returns the new array value"""
        if isinstance(base, SArr) and isinstance(idx, SArr) and idx.dtype == "bool" and base.rank == 1 and idx.rank == 1 and isinstance(val, SArr) and val.rank == 1:
            ex.safe(path, "bool-index-length", idx.shape[0] == base.shape[0], node)   # IndexError otherwise
            out, cnt = arr.bool_assign(base, idx, val, path)
            ex.safe(path, "bool-assign-count", val.shape[0] == cnt, node)             # ValueError: cannot assign N values to M outputs
            return out
        return None

    ex.hooks.setdefault("setitem", []).append(arr_setitem)

    def arr_subscript(ex, base, idx, path, node):
        # rows of a 2-D array selected by a boolean vector: pts[b][k, c] = pts[sel_b(k), c]
        if isinstance(base, SArr) and base.rank == 2 and isinstance(idx, SArr) and idx.dtype == "bool" and idx.rank == 1:
            if idx.ident is None:
                raise Unsupported("boolean row selection without identity", node)
            ex.safe(path, "bool-index-length", idx.shape[0] == base.shape[0], node)    # IndexError otherwise
            sel, _rnk, cnt = arr.sel_fns(idx.ident)
            for ax in arr.sel_axioms(idx):
                path.assume(ax)
            return SArr((cnt, base.shape[1]), lambda i, base=base, sel=sel: base.at((sel(i[0]), i[1])), base.dtype,
                        ident=f"rows[{idx.ident}]({base.ident})" if base.ident else None)
        return None

    def arr_bool_select(ex, base, idx, path, node):
        # a[b] for a boolean array b of a's shape: the entries of a at the True positions of b, in C order
        if isinstance(base, SArr) and isinstance(idx, SArr) and idx.dtype == "bool" and idx.rank == base.rank and not (base.rank == 2 and idx.rank == 1):
            ex.safe(path, "bool-index-shape", And(*[x == y for x, y in zip(base.shape, idx.shape)]), node)
            flat_b = arr.ravel_arr(idx, "C")
            flat_a = arr.ravel_arr(base, "C")
            for ax in arr.ravel_axioms():
                path.assume(ax)
            if flat_b.ident is None:
                raise Unsupported("boolean selection without identity", node)
            sel, _rnk, cnt = arr.sel_fns(flat_b.ident)
            for ax in arr.sel_axioms(flat_b):
                path.assume(ax)
            return SArr((cnt,), lambda i, flat_a=flat_a, sel=sel: flat_a.at((sel(i[0]),)), base.dtype, ident=None)
        return None

    ex.hooks.setdefault("subscript", []).append(arr_subscript)
    ex.hooks.setdefault("subscript", []).append(arr_bool_select)

    def arr_cmp(ex, op, a, b, path, node):
        # element-wise comparison of two arrays of equal shape (broadcasting is not modelled: shapes must agree)
        import ast as _ast
        if isinstance(a, SArr) and isinstance(b, SArr) and isinstance(op, (_ast.Eq, _ast.NotEq)):
            if a.rank != b.rank:
                raise Unsupported("comparison of arrays of different rank", node)
            ex.safe(path, "broadcast", And(*[x == y for x, y in zip(a.shape, b.shape)]), node)
            neg = isinstance(op, _ast.NotEq)
            return SArr(a.shape, lambda idx, a=a, b=b, neg=neg: (a.at(idx) != b.at(idx)) if neg else (a.at(idx) == b.at(idx)), "bool")
        return None

    ex.hooks.setdefault("compare_value", []).append(arr_cmp)
