"""Contracts for finam.adapters.time_integration (C12): the sum/average adapters against the exact
integral of the linear / step interpolant.

Spec (taken from the property, not from the code).  For a sorted history (T_k, V_k) and a window [p0, p1]:
  piece_k = integral over [p0,p1] n [T_k,T_k+1] of the interpolant on that interval
            linear:  f(s) = V_k + (s-T_k)/(T_k+1-T_k) (V_k+1 - V_k)      -> (b-a) (f(a)+f(b)) / 2
            step(sigma): V_k while (s-T_k)/(T_k+1-T_k) <= sigma, then V_k+1
  Area(i) = sum_{k<i} piece_k  (recursive spec function, unfolded by its defining axiom)
Seconds are microseconds / 1e6; payloads are reals.
"""
import z3

from pyvc import sv
from pyvc.contract import Contract
from pyvc.sv import And, Or, Not, Implies, If, Time, Pay, TRef, TOpt, Real
from .base import (WORLD, TimeOpt, entry_is_str, fexists, is_none, sorted_strict, strip_none, suffix_of, times_set, tm, val_in)
from .c_output import files_ok, removed_dropped, only_removed
from .c_time import MOD_BUF, out_info_set, res_e, is_payload

TI = "finam.adapters.time_integration"
US = z3.RealVal(1000000)


def rmax(a, b):
    return If(a >= b, a, b)


def rmin(a, b):
    return If(a <= b, a, b)


def piece(t0, t1, v0, v1, p0, p1, step, per_time):
    """exact contribution of the interval [t0,t1] (integer microseconds) to the window [p0,p1];
    step: None (linear) or a real term sigma"""
    R = z3.ToReal(t1 - t0)
    a = rmax(z3.ToReal(p0), z3.ToReal(t0))
    b = rmin(z3.ToReal(p1), z3.ToReal(t1))
    x0 = (a - z3.ToReal(t0)) / R  # relative positions of the overlap in the interval
    x1 = (b - z3.ToReal(t0)) / R
    if step is None:
        fa = v0 + x0 * (v1 - v0)
        fb = v0 + x1 * (v1 - v0)
        w = (x1 - x0) * 0.5 * (fa + fb)  # integral in units of the interval length
    else:
        old_w = If(x1 <= step, x1 - x0, If(x0 >= step, z3.RealVal(0), step - x0))  # part of [x0,x1] at or below sigma
        w = old_w * v0 + ((x1 - x0) - old_w) * v1
    if per_time:
        w = w * (R / US)
    return If(Or(p0 >= t1, p1 <= t0), z3.RealVal(0), w)


AREA = z3.Function("Area", sv.IntS, sv.RealS)  # Area(i) for the state of the unit under verification


def area_axioms(ctx, step_mode, per_time):
    """Area(0) = 0, Area(k+1) = Area(k) + piece_k over the buffer and the window [_prev_time, time]"""
    a = ctx.self
    d = ctx.get(a, "data")
    p0 = strip_none(ctx.get(a, "_prev_time")).e
    p1 = ctx.time.e
    k = z3.Int("ax_k")
    st = strip_none(ctx.get(a, "_step")).e if step_mode else None
    pk = piece(tm(d, k), tm(d, k + 1), val_in(ctx, d.at(k).items[1]), val_in(ctx, d.at(k + 1).items[1]), p0, p1, st, per_time)
    return [AREA(0) == 0,
            z3.ForAll([k], Implies(And(0 <= k, k + 1 < d.n), AREA(k + 1) == AREA(k) + pk), patterns=[AREA(k + 1)])]


def register(reg):
    for cls in ("SumOverTime", "AvgOverTime"):
        for step_mode in (False, True):
            for per_time in ((True, False) if cls == "SumOverTime" else (True,)):
                _register_interp(reg, cls, step_mode, per_time)


def _register_interp(reg, cls, step_mode, per_time):
    tag = f"{'step' if step_mode else 'linear'}{'' if per_time else ',absolute'}"

    def pre(ctx):
        a = ctx.self
        d = ctx.get(a, "data")
        p0 = ctx.get(a, "_prev_time")
        stp = ctx.get(a, "_step")
        c = And(d.n >= 1, times_set(d), sorted_strict(d), files_ok(ctx, d), out_info_set(ctx, a), Not(is_none(p0)),
                tm(d, z3.IntVal(0)) <= strip_none(p0).e, strip_none(p0).e < ctx.time.e, ctx.time.e <= tm(d, d.n - 1))
        if step_mode:
            c = And(c, Not(is_none(stp)), strip_none(stp).e >= 0, strip_none(stp).e <= 1)
        else:
            c = And(c, is_none(stp))
        if cls == "SumOverTime":
            c = And(c, ctx.get(a, "_per_time").e == z3.BoolVal(per_time))
        return c

    def post(ctx, r):
        a = ctx.self
        d = ctx.get(a, "data")
        p0 = strip_none(ctx.get(a, "_prev_time")).e
        total = AREA(d.n - 1)
        if cls == "AvgOverTime":
            want = total / (z3.ToReal(ctx.time.e - p0) / US)
        else:
            want = total
        return And(is_payload(r), res_e(r) == want)

    def inv(ctx):
        a = ctx.self
        d = ctx.get(a, "data")
        p0 = strip_none(ctx.get(a, "_prev_time")).e
        sumv = ctx.local("sum_value")
        t_old = ctx.local("t_old")
        v_old = ctx.local("v_old")
        k = ctx.k
        s_none = is_none(sumv)
        s_val = strip_none(sumv).e if not isinstance(sumv, sv.SNone) else z3.RealVal(0)
        return And(Not(is_none(t_old)), strip_none(t_old).e == tm(d, k), res_e(v_old) == val_in(ctx, d.at(k).items[1]), is_payload(v_old),
                   If(s_none, AREA(k) == 0, s_val == AREA(k)),
                   Implies(s_none, p0 >= tm(d, k)))

    reg.add(Contract(
        f"{TI}.{cls}._interpolate", self_cls=cls, props=["C12.2" if cls == "SumOverTime" else "C12.3", "C10.3"],
        params={"time": Time}, result=Pay, requires=pre, ensures=post, modifies=lambda ctx: [],
        raises={}, loops={1: dict(invariant=inv, locals={"sum_value": TOpt(Pay), "v_old": Pay, "t_old": Time})}, axioms=lambda ctx: area_axioms(ctx, step_mode, per_time),
        name=f"_interpolate<{tag}>", primary=(not step_mode and per_time),
    ))
