"""Contracts for finam.adapters.time_integration (C12): the sum/average adapters against the exact
integral of the linear / step interpolant.

Spec (taken from the property, not from the code).  For a sorted history (T_k, V_k) and a window [p0, p1]:
  piece_k = integral over [p0,p1] n [T_k,T_k+1] of the interpolant on that interval
            linear:  f(s) = V_k + (s-T_k)/(T_k+1-T_k) (V_k+1 - V_k)      -> (b-a) (f(a)+f(b)) / 2
            step(sigma): V_k while (s-T_k)/(T_k+1-T_k) <= sigma, then V_k+1
  Area(i) = sum_{k<i} piece_k  (recursive spec function, unfolded by its defining axiom)
Seconds are microseconds / 1e6; payloads are reals.
"""
import z3

from pyvc import sv
from pyvc.contract import Contract
from pyvc.sv import And, Or, Not, Implies, If, Time, Pay, TRef, TOpt, Real
from .base import (WORLD, TimeOpt, entry_is_str, fexists, is_none, sorted_strict, strip_none, suffix_of, times_set, tm, val_in)
from .c_output import files_ok, removed_dropped, only_removed
from .c_time import MOD_BUF, out_info_set, res_e, is_payload

TI = "finam.adapters.time_integration"
US = z3.RealVal(1000000)


def rmax(a, b):
    return If(a >= b, a, b)


def rmin(a, b):
    return If(a <= b, a, b)


def piece(t0, t1, v0, v1, p0, p1, step, per_time, div=None):
    """exact contribution of the interval [t0,t1] (integer microseconds) to the window [p0,p1];
    step: None (linear) or a real term sigma"""
    R = z3.ToReal(t1 - t0)
    # relative positions (in [0,1]) of the overlap [max(p0,t0), min(p1,t1)] within the interval
    div = div or sv.rdiv
    x0 = rmax(div(z3.ToReal(p0 - t0), R), z3.RealVal(0))
    x1 = rmin(div(z3.ToReal(p1 - t0), R), z3.RealVal(1))
    if step is None:
        fa = v0 + x0 * (v1 - v0)
        fb = v0 + x1 * (v1 - v0)
        w = (x1 - x0) * 0.5 * (fa + fb)  # integral in units of the interval length
    else:
        # lengths of [x0,x1] n (-inf,sigma] and [x0,x1] n [sigma,inf)  (lemma C12.Lw ties them to the case form)
        old_w = rmin(step, x1) - rmin(x0, step)
        new_w = rmax(step, x1) - rmax(step, x0)
        w = old_w * v0 + new_w * v1
    if per_time:
        w = w * (R / US)
    return If(Or(p0 >= t1, p1 <= t0), z3.RealVal(0), w)


AREA = z3.Function("Area", sv.IntS, sv.RealS)  # Area(i) for the state of the unit under verification


def area_axioms(ctx, step_mode, per_time):
    """Area(0) = 0, Area(k+1) = Area(k) + piece_k over the buffer and the window [_prev_time, time]"""
    a = ctx.self
    d = ctx.get(a, "data")
    p0 = strip_none(ctx.get(a, "_prev_time")).e
    p1 = ctx.time.e
    k = z3.Int("ax_k")
    st = strip_none(ctx.get(a, "_step")).e if step_mode else None
    pk = piece(tm(d, k), tm(d, k + 1), val_in(ctx, d.at(k).items[1]), val_in(ctx, d.at(k + 1).items[1]), p0, p1, st, per_time)
    i, m = z3.Ints("ax_i ax_m")
    return [AREA(0) == 0,
            z3.ForAll([k], Implies(And(0 <= k, k + 1 < d.n), AREA(k + 1) == AREA(k) + pk), patterns=[AREA(k + 1)]),
            # lemma C12.L0 (proved by induction, see lemmas below): intervals at or after the window's end add nothing
            z3.ForAll([i, m], Implies(And(0 <= i, i <= m, m < d.n, p1 <= tm(d, i)), AREA(m) == AREA(i)),
                      patterns=[z3.MultiPattern(AREA(m), AREA(i))])]


# ------------------------------------------------------------------------------------------------ lemmas
def _generic(step_mode, per_time, suffix=""):
    """a generic sorted history as uninterpreted sequences, with Area over a window [p0,p1]"""
    Tf = z3.Function("LT" + suffix, sv.IntS, sv.IntS)
    Vf = z3.Function("LV" + suffix, sv.IntS, sv.RealS)
    n = z3.Int("Ln" + suffix)
    st = z3.Real("Lstep") if step_mode else None
    i, j = z3.Ints("Li Lj")
    hyps = [n >= 1, z3.ForAll([i, j], Implies(And(0 <= i, i < j, j < n), Tf(i) < Tf(j)))]
    if step_mode:
        hyps += [st >= 0, st <= 1]
    return Tf, Vf, n, st, hyps


def _area_def(A, Tf, Vf, n, st, p0, p1, per_time):
    k = z3.Int("Lk")
    pk = piece(Tf(k), Tf(k + 1), Vf(k), Vf(k + 1), p0, p1, st, per_time)
    return [A(0) == 0, z3.ForAll([k], Implies(And(0 <= k, k + 1 < n), A(k + 1) == A(k) + pk), patterns=[A(k + 1)])]


def lemma_weights():
    """C12.Lw: for x0 <= x1 the min/max form of the step weights is the piecewise definition of the
    step interpolant (old value while position <= sigma): pure linear arithmetic"""
    x0, x1, s = z3.Reals("Lx0 Lx1 Ls")
    old_w = rmin(s, x1) - rmin(x0, s)
    new_w = rmax(s, x1) - rmax(s, x0)
    case_old = If(x1 <= s, x1 - x0, If(x0 >= s, z3.RealVal(0), s - x0))
    return [x0 <= x1], And(old_w == case_old, new_w == (x1 - x0) - case_old, old_w >= 0, new_w >= 0)


def _true_div(a, b):
    return a / b


def lemma_piece_additive(step_mode, per_time):
    """C12.L1a: on one interval the contributions of [a,b] and [b,c] add up to that of [a,c] (real arithmetic)"""
    def fn():
        t0, t1, a, b, c = z3.Ints("Lt0 Lt1 La Lb Lc")
        v0, v1, st = z3.Reals("Lv0 Lv1 Lst")
        s_ = st if step_mode else None
        hyps = [t0 < t1, a <= b, b <= c] + ([st >= 0, st <= 1] if step_mode else [])
        P = lambda x, y: piece(t0, t1, v0, v1, x, y, s_, per_time, div=_true_div)
        return hyps, P(a, b) + P(b, c) == P(a, c)
    return fn


def lemma_sum_additive():
    """C12.L1b (induction step): if every piece is additive, so are the sums  Area_ab + Area_bc = Area_ac"""
    Aab, Abc, Aac = [z3.Function(n, sv.IntS, sv.RealS) for n in ("LAab", "LAbc", "LAac")]
    Pab, Pbc, Pac = [z3.Function(n, sv.IntS, sv.RealS) for n in ("LPab", "LPbc", "LPac")]
    m, k = z3.Ints("Lm Lk")
    hyps = [z3.ForAll([k], Pab(k) + Pbc(k) == Pac(k))]
    for A, P in ((Aab, Pab), (Abc, Pbc), (Aac, Pac)):
        hyps += [A(0) == 0, z3.ForAll([k], Implies(k >= 0, A(k + 1) == A(k) + P(k)), patterns=[A(k + 1)])]
    hyps += [m >= 0, Aab(m) + Abc(m) == Aac(m)]
    return hyps, Aab(m + 1) + Abc(m + 1) == Aac(m + 1)


def lemma_piece_bounds(step_mode):
    """C12.L2a: a per-time piece lies between min and max of the contributing values times the overlap length"""
    def fn():
        t0, t1, a, b = z3.Ints("Lt0 Lt1 La Lb")
        v0, v1, st = z3.Reals("Lv0 Lv1 Lst")
        s_ = st if step_mode else None
        hyps = [t0 < t1, a < b] + ([st >= 0, st <= 1] if step_mode else [])
        pc = piece(t0, t1, v0, v1, a, b, s_, True, div=_true_div)
        lo, hi = rmin(v0, v1), rmax(v0, v1)
        ov = rmax(z3.RealVal(0), rmin(z3.ToReal(b), z3.ToReal(t1)) - rmax(z3.ToReal(a), z3.ToReal(t0))) / US  # overlap in seconds
        return hyps, And(lo * ov <= pc, pc <= hi * ov)
    return fn


def lemma_overlap_telescopes():
    """C12.L2b (induction step): overlap lengths of consecutive intervals sum to the window part covered so far"""
    Tf = z3.Function("LT", sv.IntS, sv.IntS)
    L = z3.Function("LL", sv.IntS, sv.RealS)
    p0, p1, m, n, i, j, k = z3.Ints("Lp0 Lp1 Lm Ln Li Lj Lk")
    ov = lambda q: rmax(z3.RealVal(0), rmin(z3.ToReal(p1), z3.ToReal(Tf(q + 1))) - rmax(z3.ToReal(p0), z3.ToReal(Tf(q))))
    claim = lambda q: L(q) == rmax(z3.RealVal(0), rmin(z3.ToReal(p1), z3.ToReal(Tf(q))) - z3.ToReal(p0))
    hyps = [z3.ForAll([i, j], Implies(And(0 <= i, i < j, j < n), Tf(i) < Tf(j))), Tf(0) <= p0, p0 <= p1,
            L(0) == 0, z3.ForAll([k], Implies(And(0 <= k, k + 1 < n), L(k + 1) == L(k) + ov(k)), patterns=[L(k + 1)]),
            0 <= m, m + 1 < n, claim(m)]
    return hyps, And(claim(z3.IntVal(0)), claim(m + 1))


def lemma_mean_step():
    """C12.L2c (induction step): lo*L(m) <= Area(m) <= hi*L(m) is preserved when each piece is bounded"""
    A, L, P, O = [z3.Function(n, sv.IntS, sv.RealS) for n in ("LA", "LL", "LP", "LO")]
    lo, hi = z3.Reals("Llo Lhi")
    m, k = z3.Ints("Lm Lk")
    hyps = [z3.ForAll([k], And(lo * O(k) <= P(k), P(k) <= hi * O(k), O(k) >= 0)),
            z3.ForAll([k], Implies(k >= 0, And(A(k + 1) == A(k) + P(k), L(k + 1) == L(k) + O(k))), patterns=[A(k + 1)]),
            m >= 0, lo * L(m) <= A(m), A(m) <= hi * L(m)]
    return hyps, And(lo * L(m + 1) <= A(m + 1), A(m + 1) <= hi * L(m + 1))


def lemma_tail(step_mode, per_time):
    """induction step of L0: Area(m) == Area(i) and p1 <= T(i) <= ... ==> Area(m+1) == Area(i)"""
    def fn():
        Tf, Vf, n, st, hyps = _generic(step_mode, per_time)
        A = z3.Function("LA", sv.IntS, sv.RealS)
        p0, p1, i, m = z3.Ints("Lp0 Lp1 Li0 Lm")
        hyps = hyps + _area_def(A, Tf, Vf, n, st, p0, p1, per_time) + [0 <= i, i <= m, m + 1 < n, p1 <= Tf(i), A(m) == A(i)]
        return hyps, A(m + 1) == A(i)
    return fn


def register(reg):
    for step_mode in (False, True):
        for per_time in (True, False):
            tag = f"{'step' if step_mode else 'linear'}{'' if per_time else ',absolute'}"
            reg.lemma(f"C12.L0 tail-adds-nothing (induction step) <{tag}>", ["C12.L0"], lemma_tail(step_mode, per_time))
    for step_mode in (False, True):
        for per_time in (True, False):
            tag = f"{'step' if step_mode else 'linear'}{'' if per_time else ',absolute'}"
            reg.lemma(f"C12.L1a piece additivity over adjacent windows <{tag}>", ["C12.L1"], lemma_piece_additive(step_mode, per_time))
        reg.lemma(f"C12.L2a piece within [min,max] x overlap <{'step' if step_mode else 'linear'}>", ["C12.L2"], lemma_piece_bounds(step_mode))
    reg.lemma("C12.L1b sums of additive pieces are additive (induction step)", ["C12.L1"], lemma_sum_additive)
    reg.lemma("C12.L2b overlap lengths telescope to the window length (induction step)", ["C12.L2"], lemma_overlap_telescopes)
    reg.lemma("C12.L2c mean-value bound is preserved by adding a bounded piece (induction step)", ["C12.L2"], lemma_mean_step)
    reg.lemma("C12.Lw step weights = measure of the overlap below/above the step position", ["C12.Lw"], lemma_weights)
    for cls in ("SumOverTime", "AvgOverTime"):
        _register_interp_degenerate(reg, cls)
        for step_mode in (False, True):
            for per_time in ((True, False) if cls == "SumOverTime" else (True,)):
                _register_interp(reg, cls, step_mode, per_time)
    register_getdata(reg)
    register_sum_info(reg)


def _register_interp_degenerate(reg, cls):
    """requests at / before the oldest buffered entry (and single-entry buffers): the oldest value itself, unpacked (C10.3 / C12)"""
    def pre(ctx):
        a = ctx.self
        d = ctx.get(a, "data")
        return And(d.n >= 1, times_set(d), sorted_strict(d), files_ok(ctx, d), out_info_set(ctx, a),
                   Or(d.n == 1, ctx.time.e <= tm(d, z3.IntVal(0))))

    def post(ctx, r):
        d = ctx.get(ctx.self, "data")
        v0 = val_in(ctx, d.at(z3.IntVal(0)).items[1])
        want = v0
        if cls == "SumOverTime":
            # per-time sums: the oldest value counts for the configured initial interval
            want = If(ctx.get(ctx.self, "_per_time").e, v0 * (z3.ToReal(ctx.get(ctx.self, "_initial_interval").e) / US), v0)
        return {"a payload, not a spill file name": is_payload(r), "the oldest buffered value": res_e(r) == want}

    reg.add(Contract(
        f"{TI}.{cls}._interpolate", self_cls=cls, props=["C12.2" if cls == "SumOverTime" else "C12.3", "C10.3"],
        params={"time": Time}, result=Pay, requires=pre, ensures=post, modifies=lambda ctx: [], raises={},
        name="_interpolate<at-or-before-oldest>", primary=False,
    ))


def _register_interp(reg, cls, step_mode, per_time):
    tag = f"{'step' if step_mode else 'linear'}{'' if per_time else ',absolute'}"

    def pre(ctx):
        a = ctx.self
        d = ctx.get(a, "data")
        p0 = ctx.get(a, "_prev_time")
        stp = ctx.get(a, "_step")
        c = And(d.n >= 1, times_set(d), sorted_strict(d), files_ok(ctx, d), out_info_set(ctx, a), Not(is_none(p0)),
                tm(d, z3.IntVal(0)) <= strip_none(p0).e, strip_none(p0).e < ctx.time.e, ctx.time.e <= tm(d, d.n - 1))
        if step_mode:
            c = And(c, Not(is_none(stp)), strip_none(stp).e >= 0, strip_none(stp).e <= 1)
        else:
            c = And(c, is_none(stp))
        if cls == "SumOverTime":
            c = And(c, ctx.get(a, "_per_time").e == z3.BoolVal(per_time))
        return c

    def post(ctx, r):
        a = ctx.self
        d = ctx.get(a, "data")
        p0 = strip_none(ctx.get(a, "_prev_time")).e
        total = AREA(d.n - 1)
        if cls == "AvgOverTime":
            want = sv.rdiv(total, z3.ToReal(ctx.time.e - p0) / US)
        else:
            want = total
        return And(is_payload(r), res_e(r) == want)

    def inv(ctx):
        a = ctx.self
        d = ctx.get(a, "data")
        p0 = strip_none(ctx.get(a, "_prev_time")).e
        sumv = ctx.local("sum_value")
        t_old = ctx.local("t_old")
        v_old = ctx.local("v_old")
        k = ctx.k
        s_none = is_none(sumv)
        s_val = strip_none(sumv).e if not isinstance(sumv, sv.SNone) else z3.RealVal(0)
        return And(Not(is_none(t_old)), strip_none(t_old).e == tm(d, k), res_e(v_old) == val_in(ctx, d.at(k).items[1]), is_payload(v_old),
                   If(s_none, AREA(k) == 0, s_val == AREA(k)),
                   Implies(s_none, p0 >= tm(d, k)))

    reg.add(Contract(
        f"{TI}.{cls}._interpolate", self_cls=cls, props=["C12.2" if cls == "SumOverTime" else "C12.3", "C10.3"],
        params={"time": Time}, result=Pay, requires=pre, ensures=post, modifies=lambda ctx: [],
        raises={}, loops={1: dict(invariant=inv, locals={"sum_value": TOpt(Pay), "v_old": Pay, "t_old": Time})}, axioms=lambda ctx: area_axioms(ctx, step_mode, per_time),
        name=f"_interpolate<{tag}>", primary=False,
    ))


# =================================================================================================
# _get_data of the integration adapters (C12.1), degenerate/initial branch, _source_updated
# =================================================================================================
INTEGF = z3.Function("IntegResult", sv.IntS, sv.IntS, sv.IntS, sv.IntS, sv.IntS, sv.RealS)


def integ_term(ctx, a, t):
    d = ctx.get(a, "data")
    return INTEGF(a.e, t, strip_none(ctx.get(a, "_prev_time")).e, d.n, tm(d, z3.IntVal(0)))


def register_getdata(reg):
    from .c_time import buf_inv

    for cls in ("SumOverTime", "AvgOverTime"):
        # caller-facing abstraction of _interpolate: a function of (adapter, request, window start, buffer extent);
        # its meaning is fixed by the mode-specific units above
        reg.add(Contract(
            f"{TI}.{cls}._interpolate", self_cls=cls, params={"time": Time}, result=Pay, verify=False, pure=True,
            requires=lambda ctx: And(ctx.get(ctx.self, "data").n >= 1, Not(is_none(ctx.get(ctx.self, "_prev_time")))),
            ensures=lambda ctx, r: r.e == integ_term(ctx, ctx.self, ctx.time.e),
            raises={"FinamTimeError": lambda ctx: strip_none(ctx.get(ctx.self, "_prev_time")).e >= ctx.time.e} if cls == "AvgOverTime" else {},
            note="abstract view used by _get_data; verified per mode as _interpolate<linear|step[,absolute]>",
        ))

        def gd_nodata(ctx):
            return ctx.old.get(ctx.self, "data").n == 0

        def gd_timeerr(ctx):
            d = ctx.old.get(ctx.self, "data")
            t = ctx.time.e
            return And(d.n > 0, Or(t < tm(d, z3.IntVal(0)), t > tm(d, d.n - 1)))

        def gd_pre(ctx):
            a = ctx.self
            d = ctx.get(a, "data")
            p0 = ctx.get(a, "_prev_time")
            return And(buf_inv(ctx, a), Implies(d.n >= 1, And(Not(is_none(p0)), tm(d, z3.IntVal(0)) <= strip_none(p0).e)))

        def gd_post(ctx, r):
            a = ctx.self
            d0, d1 = ctx.old.get(a, "data"), ctx.get(a, "data")
            p0 = strip_none(ctx.old.get(a, "_prev_time")).e
            p1 = ctx.get(a, "_prev_time")
            return And(is_payload(r), res_e(r) == integ_term(ctx.old, a, ctx.time.e),
                       Not(is_none(p1)), strip_none(p1).e == ctx.time.e,
                       buf_inv(ctx, a), d1.n >= 1, suffix_of(d1, d0),
                       # the entry bracketing the new window start `time` is kept: the next window [time, .] is covered
                       Implies(p0 <= ctx.time.e, tm(d1, z3.IntVal(0)) <= ctx.time.e),
                       removed_dropped(ctx, d0, d1), only_removed(ctx, d0))

        raises = {"FinamNoDataError": gd_nodata, "FinamTimeError": lambda ctx: z3.BoolVal(True)}
        reg.add(Contract(
            f"{TI}.TimeIntegrationAdapter._get_data", self_cls=cls, props=["C12.1", "C10.4"],
            params={"time": Time, "_target": TOpt(TRef("IInput"))}, result=Pay,
            requires=gd_pre, ensures=gd_post, modifies=lambda ctx: MOD_BUF(ctx) + [(ctx.self, "_prev_time")],
            raises=raises, must_raise={"FinamNoDataError": gd_nodata, "FinamTimeError": gd_timeerr},
            name="_get_data",
        ))


# =================================================================================================
# SumOverTime._get_info (C12.4): the announced output units
# =================================================================================================
UMUL = z3.Function("unit_product", sv.OpaqueS, sv.OpaqueS, sv.OpaqueS)
UREDUCED = z3.Function("unit_reduced", sv.OpaqueS, sv.OpaqueS)       # units of (1 * u).to_reduced_units()
USEC = z3.Const("unit:second", sv.OpaqueS)


def register_sum_info(reg):
    from .c_info import meta_of
    from pyvc.sv import TObj

    def units_of_info(ctx, i):
        m = meta_of(ctx, i)
        return m.val(sv.const_str("units").e)

    def post(ctx, r, per_time):
        a = ctx.self
        in_i = strip_none(ctx.get(a, "_input_info")).e
        uin = units_of_info(ctx, in_i)
        uout = units_of_info(ctx, r.e)
        ue = lambda v: strip_none(v).e if not isinstance(v, sv.SNone) else z3.Const("units:none", sv.OpaqueS)
        if per_time:
            return {"per-time sums: input units times seconds, in reduced form (e.g. mm/d -> mm)":
                    And(Not(is_none(uout)), ue(uout) == UREDUCED(UMUL(ue(uin), USEC)))}
        return {"absolute sums keep the input units": sv.value_eq(uout, uin)}

    for per_time in (True, False):
        reg.add(Contract(
            f"{TI}.SumOverTime._get_info", self_cls="SumOverTime", props=["C12.4", "C07.4"], params={"info": TRef("Info")}, result=TRef("Info"),
            requires=lambda ctx, per_time=per_time: And(ctx.info.e > 0, ctx.get(ctx.self, "_per_time").e == z3.BoolVal(per_time),
                                                        Not(is_none(ctx.get(ctx.self, "_source")))),
            ensures=lambda ctx, r, per_time=per_time: post(ctx, r, per_time), modifies=None,
            raises={"FinamNoDataError": lambda ctx: z3.BoolVal(True), "FinamMetaDataError": lambda ctx: z3.BoolVal(True)},
            name=f"_get_info<per_time={per_time}>", primary=False, tags=["unit-algebra"],
            fields={"meta": sv.TDict(sv.Str, TOpt(TObj("units")))},
        ))


def install(ex):
    def is_unit(v):
        return isinstance(v, sv.SObj) and v.okind == "units"

    def tagged():
        c = ex.cur_contract
        return c is not None and "unit-algebra" in c.tags

    old_unit = ex.ext_models.get("pint.application_registry.Unit")

    def unit_ctor(ex, path, args, kwargs, node):
        if tagged() and args and isinstance(args[0], sv.SStr) and args[0].py == "s":
            return sv.SObj(USEC, "units")
        if tagged() and args and isinstance(args[0], sv.SStr) and args[0].py is not None:
            # any other literal unit: an unspecified unit of its own (nothing relates it to the second)
            return sv.SObj(z3.Const("unit:" + args[0].py, sv.OpaqueS), "units")
        return old_unit(ex, path, args, kwargs, node)

    ex.ext_models["pint.application_registry.Unit"] = unit_ctor

    def binop(ex, op, a, b, path, node):
        import ast
        if not tagged() or not isinstance(op, ast.Mult):
            return None
        if isinstance(a, sv.SUnion):
            a = ex.expect(a, sv.SObj, path, node, what="none")
        if is_unit(a) and is_unit(b):
            return sv.SObj(UMUL(a.e, b.e), "units")
        if isinstance(a, (sv.SReal, sv.SInt)) and is_unit(b):
            return sv.SPay(sv.to_real(a.e), b)
        if isinstance(b, (sv.SReal, sv.SInt)) and is_unit(a):
            return sv.SPay(sv.to_real(b.e), a)
        return None

    ex.hooks.setdefault("binop", []).insert(0, binop)

    def attr(ex, base, a, path, node):
        if tagged() and isinstance(base, sv.SPay) and is_unit(getattr(base, "units", None)):
            if a == "to_reduced_units":
                return sv.SPy("libfn", lambda ex, p, args, k, n, base=base: sv.SPay(z3.Function("reduced_magnitude", sv.RealS, sv.OpaqueS, sv.RealS)(base.e, base.units.e),
                                                                                    sv.SObj(UREDUCED(base.units.e), "units")))
            if a == "units":
                return base.units
        return None

    ex.hooks.setdefault("getattr", []).insert(0, attr)
