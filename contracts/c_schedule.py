"""Contracts for finam.schedule: dependency analysis and the recursive update (C01, C02, C04, C20.3),
validation walkers (C19), life cycle (C03)."""
import z3

from pyvc import sv
from pyvc.contract import Contract
from pyvc.sv import And, Or, Not, Implies, If, Time, Bool, Int, Str, TRef, TOpt, TDict, TTup, TList, TSet
from .base import WORLD, TimeOpt, is_none, strip_none

S = "finam.schedule"
IntS, BoolS = sv.IntS, sv.BoolS

# ------------------------------------------------------------------------------------------------
# spec vocabulary over the link graph (property level, see DESIGN 3: Req / Ready)
# ------------------------------------------------------------------------------------------------
CLSOF = z3.Function("clsof", IntS, IntS)


def isa(cname, x):
    return z3.Function(f"isa_{cname}", IntS, BoolS)(CLSOF(x))


SRC = lambda ctx, x: strip_none(ctx.get(x, "_source")).e          # source of an input element
WD = z3.Function("with_delay", IntS, IntS, IntS)                    # with_delay of a delay adapter (pure view)
NEEDS_PUSH = lambda ctx, x: ctx.get(x, "$needs_push").e
# result of continuing the upstream walk from element x with accumulated request time t
WR = z3.Function("Req.root", IntS, IntS, IntS)
WT = z3.Function("Req.time", IntS, IntS, IntS)
WN = z3.Function("Req.nodep", IntS, IntS, BoolS)
ROOTOF = z3.Function("rootof", IntS, IntS)
DEPTH = z3.Function("chain.depth", IntS, IntS)


def graph_classes(ex, path):
    for c in ("IInput", "IOutput", "IAdapter", "NoDependencyAdapter", "ITimeDelayAdapter", "ITimeComponent", "IComponent"):
        ex.cls_preds.add(c)


def walk_axioms(ctx):
    """definition of Req (DESIGN 3) as axioms over the current heap:
       walking upstream from an input, delays accumulate; a dependency-breaking adapter ends the
       dependency; from the first push-based (buffering) adapter on, only the root matters: the buffer is
       filled by notifications that carry the publication time, so delays further upstream give no credit"""
    x, t = z3.Ints("ax_x ax_t")
    s = SRC(ctx, x)
    inp = isa("IInput", x)
    nodep = isa("NoDependencyAdapter", s)
    delay = isa("ITimeDelayAdapter", s)
    t2 = If(delay, WD(s, t), t)
    pushb = And(isa("IAdapter", s), NEEDS_PUSH(ctx, s))
    pat = [WR(x, t)]
    # recursive cases unfold only at elements whose source was actually read (no matching loops)
    rpat = [z3.MultiPattern(WR(x, t), s)]
    return [
        z3.ForAll([x], Implies(Not(isa("IInput", x)), ROOTOF(x) == x), patterns=[ROOTOF(x)]),
        z3.ForAll([x], Implies(isa("IInput", x), ROOTOF(x) == ROOTOF(s)), patterns=[z3.MultiPattern(ROOTOF(x), s)]),
        z3.ForAll([x, t], Implies(Not(inp), And(WR(x, t) == x, WT(x, t) == t, Not(WN(x, t)))), patterns=pat),
        z3.ForAll([x, t], Implies(And(inp, nodep), And(WR(x, t) == s, WT(x, t) == t, WN(x, t))), patterns=rpat),
        z3.ForAll([x, t], Implies(And(inp, Not(nodep), pushb), And(WR(x, t) == ROOTOF(s), WT(x, t) == t2, Not(WN(x, t)))), patterns=rpat),
        z3.ForAll([x, t], Implies(And(inp, Not(nodep), Not(pushb)),
                                  And(WR(x, t) == WR(s, t2), WT(x, t) == WT(s, t2), WN(x, t) == WN(s, t2))), patterns=rpat),
        # well-formed link graph (established by linking + validation, C19): chains are finite
        z3.ForAll([x], Implies(isa("IInput", x), And(DEPTH(x) > DEPTH(s), DEPTH(s) >= 0)), patterns=[z3.MultiPattern(DEPTH(x), s)]),
    ]


def wf_graph(ctx):
    x = z3.Int("wf_x")
    return z3.ForAll([x], Implies(isa("IInput", x), And(Not(is_none(ctx.get(x, "_source"))), SRC(ctx, x) > 0)))


DepsT = TDict(TRef("IOutput"), TTup(Time, Bool))
OwnersT = TDict(TRef("IOutput"), TRef("IComponent"))


def dep_time(deps, r):
    v = deps.val(r)
    if isinstance(v, sv.SUnion):
        for _g, x in v.alts:
            if isinstance(x, sv.STup):
                v = x
                break
    if isinstance(v, sv.STup):
        return strip_none(v.items[0]).e
    return z3.Int("nodeps!dummy")  # the empty dict: never used (dom is false)


def inputs_of(ctx, c):
    return ctx.get(c, "$inputs")


def lagging(ctx, owners, r, t_req):
    """the root output r cannot serve a request for t_req yet"""
    o = owners.val(r).e
    return Or(Not(isa("ITimeComponent", o)), strip_none(ctx.get(r, "_time")).e < t_req)


def register(reg):
    reg.field("$inputs", TDict(Str, TRef("IInput")))
    reg.field("$outputs", TDict(Str, TRef("IOutput")))
    reg.field("$status", Int)
    reg.field("$ctime", TimeOpt)
    reg.field("$next_time", TimeOpt)
    reg.field("$updates", TList(TRef("IComponent")))

    from pyvc.contract import Contract as C
    reg.add(C("iface:IComponent.inputs", pure=True, verify=False, result_fn=lambda ctx: ctx.get(ctx.self, "$inputs")))
    reg.add(C("iface:IComponent.outputs", pure=True, verify=False, result_fn=lambda ctx: ctx.get(ctx.self, "$outputs")))
    reg.add(C("iface:IComponent.status", pure=True, verify=False, result_fn=lambda ctx: ctx.get(ctx.self, "$status")))
    reg.add(C("iface:ITimeComponent.time", pure=True, verify=False, result_fn=lambda ctx: ctx.get(ctx.self, "$ctime")))
    reg.add(C("iface:ITimeComponent.next_time", pure=True, verify=False, result_fn=lambda ctx: ctx.get(ctx.self, "$next_time")))
    reg.add(C("iface:IOutput.time", pure=True, verify=False, result_fn=lambda ctx: ctx.get(ctx.self, "_time")))
    reg.add(C("iface:ITimeDelayAdapter.with_delay", params={"time": Time}, note="method", pure=True, verify=False,
              result_fn=lambda ctx: sv.STime(WD(ctx.self.e, ctx.time.e)),
              requires=lambda ctx: z3.BoolVal(True)))

    # ------------------------------------------------------------------ _find_dependencies (C01.1, C02.1, C13.L)
    def fd_pre(ctx):
        comp = ctx.component
        owners = ctx.output_owners
        ins = inputs_of(ctx, comp)
        j = z3.Int("pre_j")
        t = ctx.target_time.e
        xj = ins.val(ins.keys.at(j).e).e
        r = WR(xj, t)
        roots_known = z3.ForAll([j], Implies(And(0 <= j, j < ins.keys.n),
                                             And(xj > 0, isa("IInput", xj),
                                                 Implies(Not(WN(xj, t)),
                                                         And(r > 0, Not(isa("IInput", r)), isa("IOutput", r), Not(isa("NoDependencyAdapter", r)),
                                                             Implies(Not(ctx.get(r, "$is_static").e),
                                                                     And(owners.dom(r), Not(is_none(ctx.get(r, "_time"))))))))))
        return And(wf_graph(ctx), roots_known)

    def covered(ctx, deps, owners, xj, t):
        """C01.1: what input xj needs is recorded (at least that late) unless it is already served"""
        r, tr = WR(xj, t), WT(xj, t)
        need = And(Not(WN(xj, t)), Not(ctx.get(r, "$is_static").e), lagging(ctx, owners, r, tr))
        return Implies(need, And(deps.dom(r), dep_time(deps, r) >= tr))

    def justified(ctx, deps, owners, ins, upto, t, r):
        """C02.1: a recorded dependency is the need of some input: same root, exactly its request time"""
        j = z3.Int("j!just")
        xj = ins.val(ins.keys.at(j).e).e
        return z3.Exists([j], And(0 <= j, j < upto, WR(xj, t) == r, Not(WN(xj, t)), Not(ctx.get(r, "$is_static").e),
                                  lagging(ctx, owners, r, WT(xj, t)), dep_time(deps, r) == WT(xj, t)))

    def fd_post(ctx, result):
        comp, owners = ctx.component, ctx.output_owners
        ins = inputs_of(ctx, comp)
        t = ctx.target_time.e
        j = z3.Int("post_j")
        r = z3.Int("post_r")
        xj = ins.val(ins.keys.at(j).e).e
        return And(z3.ForAll([j], Implies(And(0 <= j, j < ins.keys.n), covered(ctx, result, owners, xj, t))),
                   z3.ForAll([r], Implies(result.dom(r), justified(ctx, result, owners, ins, ins.keys.n, t, r))))

    def outer_inv(ctx):
        comp, owners = ctx.component, ctx.output_owners
        ins = inputs_of(ctx, comp)
        t = ctx.target_time.e
        deps = ctx.local("deps")
        j = z3.Int("inv_j")
        r = z3.Int("inv_r")
        xj = ins.val(ins.keys.at(j).e).e
        return And(z3.ForAll([j], Implies(And(0 <= j, j < ctx.k), covered(ctx, deps, owners, xj, t))),
                   z3.ForAll([r], Implies(deps.dom(r), justified(ctx, deps, owners, ins, ctx.k, t, r))))

    def inner_inv(ctx):
        comp = ctx.component
        ins = inputs_of(ctx, comp)
        t = ctx.target_time.e
        k_outer = ctx.ks[-2]
        x0 = ins.val(ins.keys.at(k_outer).e).e
        inp = ctx.local("inp")
        lt = ctx.local("local_time")
        e = strip_none(inp).e
        buffered = ctx.locals.get("buffered")
        walking = And(WR(e, lt.e) == WR(x0, t), WT(e, lt.e) == WT(x0, t), WN(e, lt.e) == WN(x0, t))
        if buffered is not None:
            # behind a push-based adapter only the root is still looked for
            frozen = And(ROOTOF(e) == WR(x0, t), lt.e == WT(x0, t), Not(WN(x0, t)))
            walking = If(buffered.e, frozen, walking)
        return And(Not(is_none(inp)), e > 0, walking, outer_inv_at(ctx, k_outer))

    def outer_inv_at(ctx, k):
        c2 = ctx
        saved = c2.k
        c2.k = k
        try:
            return outer_inv(c2)
        finally:
            c2.k = saved

    reg.add(Contract(
        f"{S}._find_dependencies", props=["C01.1", "C02.1", "C13.L", "C04.3", "C03.5", "C05.5", "C20.5"],
        params={"component": TRef("IComponent"), "output_owners": OwnersT, "target_time": Time},
        result=DepsT, requires=fd_pre, ensures=fd_post, modifies=lambda ctx: [], axioms=walk_axioms,
        loops={1: dict(invariant=outer_inv, locals={"deps": DepsT, "inp": TRef(None), "local_time": Time, "delayed": Bool, "buffered": Bool}),
               2: dict(invariant=inner_inv, decreases=lambda ctx: DEPTH(strip_none(ctx.local("inp")).e),
                       locals={"inp": TRef(None), "local_time": Time, "delayed": Bool, "buffered": Bool})},
    ))


_register_base = register


def register(reg):  # noqa: F811
    _register_base(reg)
    register_update(reg)
    register_validation(reg)
    register_run(reg)
    register_run2(reg)
    register_connect(reg)
    register_branching(reg)


ASSUMPTIONS = {"C01": ["link graph is well formed: every chain of inputs/adapters is finite and ends in an output (established by linking and Composition._validate_composition, decided in C19)",
                       "with_delay is seen as a pure function of (adapter, time) by the scheduler contract (DelayToPull's lazy initialisation keeps its effective history, C13.1)"]}
ASSUMPTIONS["C02"] = ASSUMPTIONS["C01"]


# =================================================================================================
# Composition._update_recursive (C01.2, C02.2, C04.1, C20.3)
# =================================================================================================
READY = z3.Function("Ready", IntS, IntS, BoolS)        # Ready(component, time) in the entry heap (DESIGN 3)
RJ = z3.Function("Ready.witness", IntS, IntS, IntS)    # skolem: an input that is not servable when not Ready
ONCHAIN = z3.Function("OnChain", IntS, IntS, IntS, BoolS)  # OnChain(c, t, u): u is c or upstream of c along lagging links
ChainT = TDict(TRef("IComponent"), TTup(TOpt(sv.Delta), Bool))
SCHED_FIELDS = ["_time", "$ctime", "$next_time", "$status"]


def owners_of(ctx):
    return ctx.get(ctx.self, "_output_owners")


def in_at(ctx, c, j):
    ins = ctx.get(c, "$inputs")
    return ins.val(ins.keys.at(j).e).e


def n_in(ctx, c):
    return ctx.get(c, "$inputs").keys.n


def next_t(ctx, c):
    return strip_none(ctx.get(c, "$next_time")).e


def ok_input(ctx, owners, c, j, t):
    """input j of component c can be served for a pull at t (one step of the definition of Ready)"""
    x = in_at(ctx, c, j)
    r, tr = WR(x, t), WT(x, t)
    o = owners.val(r).e
    return Or(WN(x, t), ctx.get(r, "$is_static").e,
              And(isa("ITimeComponent", o), strip_none(ctx.get(r, "_time")).e >= tr),
              And(Not(isa("ITimeComponent", o)), READY(o, tr)))


def ready_axioms(ctx):
    owners = owners_of(ctx)
    c, t, t2, j, u = z3.Ints("rx_c rx_t rx_t2 rx_j rx_u")
    x = in_at(ctx, c, j)
    r, tr = WR(x, t), WT(x, t)
    o = owners.val(r).e
    lag_link = And(0 <= j, j < n_in(ctx, c), Not(WN(x, t)), Not(ctx.get(r, "$is_static").e))
    return walk_axioms(ctx) + [
        # Ready(c,t) holds as soon as every input is servable (introduction; witness function for the converse)
        z3.ForAll([c, t], Or(READY(c, t), And(0 <= RJ(c, t), RJ(c, t) < n_in(ctx, c), Not(ok_input(ctx, owners, c, RJ(c, t), t)))),
                  patterns=[READY(c, t)]),
        # assumed (monotone with_delay): being ready for a later pull implies being ready for an earlier one
        z3.ForAll([c, t, t2], Implies(And(READY(c, t2), t <= t2), READY(c, t)), patterns=[z3.MultiPattern(READY(c, t2), READY(c, t))]),
        # OnChain: least relation closed under these rules (only the rules are needed to establish it)
        z3.ForAll([c, t], ONCHAIN(c, t, c), patterns=[ONCHAIN(c, t, c)]),
        z3.ForAll([c, t, j, u], Implies(And(lag_link, isa("ITimeComponent", o), strip_none(ctx.get(r, "_time")).e < tr,
                                           ONCHAIN(o, next_t(ctx, o), u)), ONCHAIN(c, t, u)),
                  patterns=[z3.MultiPattern(ONCHAIN(c, t, u), WR(x, t))]),
        z3.ForAll([c, t, j, u], Implies(And(lag_link, Not(isa("ITimeComponent", o)), ONCHAIN(o, tr, u)), ONCHAIN(c, t, u)),
                  patterns=[z3.MultiPattern(ONCHAIN(c, t, u), WR(x, t))]),
    ]


def sched_unchanged(ctx):
    o = z3.Int(sv.uid("uo"))
    parts = []
    for f in SCHED_FIELDS:
        parts.append(z3.ForAll([o], sv.value_eq(ctx.get(o, f), ctx.old.get(o, f))))
    return And(*parts)


def updates(ctx):
    return ctx.get(WORLD, "$updates")


def updates_same(ctx):
    u0, u1 = updates(ctx.old), updates(ctx)
    i = z3.Int(sv.uid("ui"))
    return And(u1.n == u0.n, z3.ForAll([i], Implies(And(0 <= i, i < u0.n), u1.at(i).e == u0.at(i).e)))


def updates_plus(ctx, comp_e):
    u0, u1 = updates(ctx.old), updates(ctx)
    i = z3.Int(sv.uid("ui"))
    return And(u1.n == u0.n + 1, u1.at(u0.n).e == comp_e,
               z3.ForAll([i], Implies(And(0 <= i, i < u0.n), u1.at(i).e == u0.at(i).e)))


def times_kept(ctx):
    """state invariant of connected components (interface contract): time components always have a time and a
    next time; an output that has published keeps a publication time, which never decreases"""
    c, o = z3.Ints("tk_c tk_o")
    t0, t1 = ctx.old.get(o, "_time"), ctx.get(o, "_time")
    return And(
        z3.ForAll([c], Implies(isa("ITimeComponent", c), And(Not(is_none(ctx.get(c, "$ctime"))), Not(is_none(ctx.get(c, "$next_time")))))),
        z3.ForAll([o], Implies(Not(is_none(t0)), And(Not(is_none(t1)), strip_none(t1).e >= strip_none(t0).e))))


def register_update(reg):
    from .base import RETENTION_FIELDS

    reg.field("_output_owners", OwnersT)
    reg.field("$exam", TimeOpt)

    # IComponent.update(): the only way state advances; graph structure is not touched
    def upd_mod(ctx):
        return [(None, f) for f in SCHED_FIELDS + RETENTION_FIELDS] + [(WORLD, "$updates"), (WORLD, "$pull_log"), (WORLD, "$notify_log")]

    reg.add(Contract("iface:IComponent.update", params={}, note="method", verify=False, modifies=upd_mod,
                     ensures=lambda ctx, r: And(updates_plus(ctx, ctx.self.e), times_kept(ctx))))

    def in_chain(ctx):
        ch = ctx.chain
        parts = [And(g, x.dom(ctx.comp.e)) for g, x in sv.alts_of(ch) if isinstance(x, sv.SDict)]
        return Or(*parts)

    def ur_pre(ctx):
        s = ctx.self
        owners = owners_of(ctx)
        comp = ctx.comp
        c, j, t = z3.Ints("pq_c pq_j pq_t")
        x = in_at(ctx, c, j)
        r = WR(x, t)
        # every component met: inputs are inputs, needed roots are owned outputs that have published
        graph_ok = z3.ForAll([c, j, t], Implies(
            And(isa("IComponent", c), 0 <= j, j < n_in(ctx, c)),
            And(x > 0, isa("IInput", x),
                Implies(Not(WN(x, t)),
                        And(r > 0, Not(isa("IInput", r)), isa("IOutput", r), Not(isa("NoDependencyAdapter", r)),
                            Implies(Not(ctx.get(r, "$is_static").e),
                                    And(owners.dom(r), owners.val(r).e > 0, isa("IComponent", owners.val(r).e),
                                        Not(is_none(ctx.get(r, "_time"))))))))),
            patterns=[WR(x, t)])
        times_known = z3.ForAll([c], Implies(isa("ITimeComponent", c), And(Not(is_none(ctx.get(c, "$next_time"))), Not(is_none(ctx.get(c, "$ctime"))))))
        return And(wf_graph(ctx), graph_ok, times_known, isa("IComponent", comp.e),
                   Or(isa("ITimeComponent", comp.e), Not(is_none(ctx.target_time))))

    def eff_time(ctx):
        comp = ctx.comp.e
        return If(isa("ITimeComponent", comp), next_t(ctx.old, comp), strip_none(ctx.target_time).e)

    def chain_post(ctx):
        return ctx.post_arg("chain")

    def ur_post(ctx, result):
        comp = ctx.comp.e
        c0 = ctx.old
        tt = eff_time(ctx)
        none = is_none(result)
        res = strip_none(result).e
        ch1 = chain_post(ctx)
        ch0 = ctx.pre_arg("chain")
        k = z3.Int(sv.uid("ck"))
        dom0 = lambda e: Or(*[And(g, x.dom(e)) for g, x in sv.alts_of(ch0) if isinstance(x, sv.SDict)])
        dom1 = lambda e: Or(*[And(g, x.dom(e)) for g, x in sv.alts_of(ch1) if isinstance(x, sv.SDict)])
        returned_none = And(
            Not(isa("ITimeComponent", comp)), READY(comp, tt), updates_same(ctx), sched_unchanged(ctx),
            # the active chain is the recursion stack: a pull-based component that was served is no longer on it
            z3.ForAll([k], dom1(k) == dom0(k)),
        )
        returned_comp = And(res > 0, isa("ITimeComponent", res), updates_plus(ctx, res),
                            READY(res, next_t(c0, res)), ONCHAIN(comp, tt, res))
        return And(If(none, returned_none, returned_comp), times_kept(ctx))

    def ur_mod(ctx):
        return [(None, f) for f in SCHED_FIELDS + RETENTION_FIELDS] + \
               [(WORLD, "$updates"), (WORLD, "$pull_log"), (WORLD, "$notify_log"), ("arg", "chain")]

    def ur_inv(ctx):
        comp = ctx.comp.e
        owners = owners_of(ctx)
        deps = ctx.local("deps")
        j = z3.Int(sv.uid("dj"))
        dj = deps.keys.at(j).e
        ltj = dep_time(deps, dj)
        oj = owners.val(dj).e
        done = z3.ForAll([j], Implies(And(0 <= j, j < ctx.k),
                                      If(isa("ITimeComponent", oj), strip_none(ctx.get(dj, "_time")).e >= ltj,
                                         READY(oj, ltj))))
        ch = ctx.local("chain")
        ch0 = ctx.chain
        k = z3.Int(sv.uid("ck"))
        dom0 = lambda e: Or(*[And(g, x.dom(e)) for g, x in sv.alts_of(ch0) if isinstance(x, sv.SDict)])
        dom1 = lambda e: Or(*[And(g, x.dom(e)) for g, x in sv.alts_of(ch) if isinstance(x, sv.SDict)])
        return And(updates_same(ctx), sched_unchanged(ctx), done,
                   z3.ForAll([k], dom1(k) == Or(k == comp, dom0(k))))

    global UR_PRE_FULL
    UR_PRE_FULL = ur_pre

    reg.add(Contract(
        f"{S}.Composition._update_recursive", self_cls="Composition", props=["C01.2", "C02.2", "C04.1", "C20.3", "C03.5", "C05.5"],
        params={"comp": TRef("IComponent"), "chain": TOpt(ChainT), "target_time": TimeOpt},
        result=TOpt(TRef("IComponent")), requires=ur_pre, ensures=ur_post, modifies=ur_mod, axioms=ready_axioms,
        raises={"FinamCircularCouplingError": lambda ctx: z3.BoolVal(True),
                "FinamTimeError": lambda ctx: z3.BoolVal(True)},
        must_raise={"FinamCircularCouplingError": in_chain},
        loops={1: dict(invariant=ur_inv, locals={"chain": ChainT, "updated": TOpt(TRef("IComponent")), "c": TRef("IComponent"),
                                                  "dep": TRef("IOutput"), "local_time": Time, "delayed": Bool})},
    ))


# =================================================================================================
# validation walkers (C19)
# =================================================================================================
CONN = z3.Function("Connected", IntS, BoolS)          # the upstream walk from x never meets a missing source
ROOT2 = z3.Function("Root", IntS, IntS)                # the output it ends in (if connected)


def src_opt(ctx, x):
    return ctx.get(x, "_source")


def conn_axioms(ctx):
    x = z3.Int("cx_x")
    so = src_opt(ctx, x)
    s = strip_none(so).e
    inp = isa("IInput", x)
    trig = lambda f: [z3.MultiPattern(f, s)]
    return [
        z3.ForAll([x], Implies(Not(inp), And(CONN(x), ROOT2(x) == x)), patterns=[CONN(x)]),
        z3.ForAll([x], Implies(And(inp, is_none(so)), Not(CONN(x))), patterns=[CONN(x)]),
        z3.ForAll([x], Implies(And(inp, Not(is_none(so))), And(CONN(x) == CONN(s), ROOT2(x) == ROOT2(s))), patterns=trig(CONN(x))),
        # chains are finite (no adapter-only cycles: stated assumption)
        z3.ForAll([x], Implies(And(inp, Not(is_none(so))), And(DEPTH(x) > DEPTH(s), DEPTH(s) >= 0, s > 0)), patterns=trig(DEPTH(x))),
        z3.ForAll([x], DEPTH(x) >= 0, patterns=[DEPTH(x)]),
    ]


def static_of(ctx, x):
    return ctx.get(x, "$is_static").e


CHAIN_ELEM = z3.Function("chain.elem", IntS, IntS, IntS)   # i-th element of the upstream walk from x0 (0 = the input)
CHAIN_LEN = z3.Function("chain.len", IntS, IntS)          # number of elements, the last one is the output


def unconnected_or_static_mismatch(ctx, x0):
    """C19 rules 1+2 for the input x0: its chain ends at a missing source, or it is static and its output is not"""
    return Or(Not(CONN(x0)), And(static_of(ctx, x0), Not(static_of(ctx, ROOT2(x0)))))


def dead_link(ctx, x0):
    """C19 rule 5 for the (connected) input x0: a pull-only element lies upstream of one that must be notified by pushes"""
    n = CHAIN_LEN(x0)
    a, b = z3.Ints("ds_a ds_b")
    pull = lambda x: ctx.get(x, "$needs_pull").e
    push = lambda x: ctx.get(x, "$needs_push").e
    return z3.Exists([a, b], And(0 <= a, a < b, b < n, pull(CHAIN_ELEM(x0, n - 1 - a)), push(CHAIN_ELEM(x0, n - 1 - b))))


def register_validation(reg):
    # ------------------------------------------------------------------ _check_input_connected (C19.1)
    def cic_bad(ctx):
        return unconnected_or_static_mismatch(ctx.old, ctx.inp.e)

    def cic_inv(ctx):
        x0 = ctx.inp.e
        cur = ctx.local("inp")
        e = strip_none(cur).e
        return And(Not(is_none(cur)), e > 0, CONN(e) == CONN(x0), ROOT2(e) == ROOT2(x0),
                   ctx.local("static").e == static_of(ctx, x0))

    reg.add(Contract(
        f"{S}._check_input_connected", props=["C19.1", "C05.4"], params={"comp": TRef("IComponent"), "inp": TRef("IInput")},
        requires=lambda ctx: And(isa("IInput", ctx.inp.e),
                                 Implies(CONN(ctx.inp.e), Or(isa("IOutput", ROOT2(ctx.inp.e)), isa("IInput", ROOT2(ctx.inp.e))))),
        ensures=lambda ctx, r: Not(cic_bad(ctx)), modifies=lambda ctx: [], axioms=conn_axioms,
        raises={"FinamConnectError": cic_bad}, must_raise={"FinamConnectError": cic_bad}, raise_frame_empty=True,
        loops={1: dict(invariant=cic_inv, decreases=lambda ctx: DEPTH(strip_none(ctx.local("inp")).e),
                       locals={"inp": TRef(None)})},
    ))

    # ------------------------------------------------------------------ _check_dead_links (C19.2)
    def chain_list(ctx):
        return ctx.local("chain")

    def cdl_inv1(ctx):
        ch = chain_list(ctx)
        cur = ctx.local("inp")
        e = strip_none(cur).e
        i = z3.Int(sv.uid("ci"))
        x0 = ctx.inp.e
        return And(Not(is_none(cur)), e > 0, CONN(e), ch.n >= 1, ch.n <= CLEN(x0), e == ELEM(x0, ch.n - 1),
                   z3.ForAll([i], Implies(And(0 <= i, i < ch.n), And(Not(is_none(ch.at(i))), strip_none(ch.at(i)).e == ELEM(x0, i)))))

    def rev(ctx, k):
        ch = chain_list(ctx)
        return strip_none(ch.at(ch.n - 1 - k)).e

    def pull(ctx, x):
        return ctx.get(x, "$needs_pull").e

    def push(ctx, x):
        return ctx.get(x, "$needs_push").e

    def dead_upto(ctx, k):
        a, b = z3.Ints("dl_a dl_b")
        return z3.Exists([a, b], And(0 <= a, a < b, b < k, pull(ctx, rev(ctx, a)), push(ctx, rev(ctx, b))))

    def cdl_inv2(ctx):
        ch = chain_list(ctx)
        fi = ctx.local("first_index").e
        a = z3.Int("dl_q")
        x0 = ctx.inp.e
        i = z3.Int(sv.uid("ci"))
        return And(ch.n == CLEN(x0),
                   z3.ForAll([i], Implies(And(0 <= i, i < ch.n), And(Not(is_none(ch.at(i))), strip_none(ch.at(i)).e == ELEM(x0, i)))),
                   ctx.k <= ch.n, Not(dead_upto(ctx, ctx.k)), fi >= -1, fi < ctx.k,
                   Implies(fi >= 0, pull(ctx, rev(ctx, fi))),
                   z3.ForAll([a], Implies(And(0 <= a, a < ctx.k, pull(ctx, rev(ctx, a))), fi >= 0)))

    ELEM, CLEN = CHAIN_ELEM, CHAIN_LEN

    def elem_axioms(ctx):
        x0, i = z3.Ints("el_x el_i")
        e = ELEM(x0, i)
        return walk_axioms(ctx) + [
            z3.ForAll([x0], ELEM(x0, 0) == x0, patterns=[ELEM(x0, 0)]),
            z3.ForAll([x0, i], Implies(And(0 <= i, isa("IInput", e)), ELEM(x0, i + 1) == SRC(ctx, e)), patterns=[z3.MultiPattern(e, SRC(ctx, e))]),
            z3.ForAll([x0], And(CLEN(x0) >= 1, Not(isa("IInput", ELEM(x0, CLEN(x0) - 1)))), patterns=[CLEN(x0)]),
            z3.ForAll([x0, i], Implies(And(0 <= i, i < CLEN(x0) - 1), isa("IInput", e)), patterns=[z3.MultiPattern(e, CLEN(x0))]),
            z3.ForAll([x], DEPTH(x) >= 0, patterns=[DEPTH(x)]) if False else z3.BoolVal(True),
        ]

    def dead_spec(ctx):
        return dead_link(ctx.old, ctx.inp.e)

    reg.add(Contract(
        f"{S}._check_dead_links", props=["C19.2", "C05.4"], params={"comp": TRef("IComponent"), "inp": TRef("IInput")},
        # only this input's chain has to be connected (_check_input_connected ran before): no global assumption
        requires=lambda ctx: And(isa("IInput", ctx.inp.e), CONN(ctx.inp.e), ctx.inp.e > 0),
        modifies=lambda ctx: [], axioms=lambda ctx: elem_axioms(ctx) + conn_axioms(ctx),
        raises={"FinamConnectError": dead_spec}, must_raise={"FinamConnectError": dead_spec}, raise_frame_empty=True,
        loops={1: dict(invariant=cdl_inv1, decreases=lambda ctx: DEPTH(strip_none(ctx.local("inp")).e),
                       locals={"inp": TRef(None), "chain": TList(TOpt(TRef(None)))}),
               2: dict(invariant=cdl_inv2, locals={"first_index": Int})},
        ensures=lambda ctx, r: z3.BoolVal(True),
    ))


# =================================================================================================
# Composition.run / _check_status / _finalize_components (C02.3, C03)
# =================================================================================================
STATUS = ["CREATED", "INITIALIZED", "CONNECTING", "CONNECTING_IDLE", "CONNECTED", "VALIDATED", "UPDATED", "FINISHED",
          "FINALIZED", "FAILED"]


def st(name):
    return z3.IntVal(STATUS.index(name))


def status_of(ctx, c):
    return ctx.get(c, "$status").e


def ctime(ctx, c):
    return strip_none(ctx.get(c, "$ctime")).e


def register_run(reg):
    from .base import RETENTION_FIELDS

    reg.field("_components", TList(TRef("IComponent")))
    reg.field("_adapters", TSet(TRef("IAdapter")))
    reg.field("_is_connected", Bool)
    reg.field("_time_frame", TTup(TimeOpt, TimeOpt))
    reg.field("_logger_name", Str)
    reg.field("$finalized", TList(TRef(None)))   # ghost: objects whose finalize() was called, in order

    # the order of ComponentStatus members in the source is what the enum model relies on
    def status_enum_ok(ex):
        ci = ex.repo.cls("ComponentStatus")
        names = [n for n in ci.consts]
        if names != STATUS:
            from pyvc.path import BindingError
            raise BindingError(f"ComponentStatus members changed: {names}")

    reg.post_install = getattr(reg, "post_install", []) + [status_enum_ok]

    reg.add(Contract("iface:*.logger", pure=True, verify=False, result_fn=lambda ctx: sv.SPy("logger")))

    # ------------------------------------------------------------------ _check_status
    def cs_bad(ctx):
        lst = ctx.desired_list
        s0 = status_of(ctx.old, ctx.comp.e)
        j = z3.Int(sv.uid("cj"))
        items = getattr(lst, "items", None)
        if items is not None:
            return Not(Or(*[s0 == x.e for x in items]))
        return Not(z3.Exists([j], And(0 <= j, j < lst.n, lst.at(j).e == s0)))

    reg.add(Contract(
        f"{S}.Composition._check_status", self_cls="Composition", props=["C03.1"],
        params={"comp": TRef("IComponent"), "desired_list": TList(Int)},
        ensures=lambda ctx, r: Not(cs_bad(ctx)), modifies=lambda ctx: [], pure=True,
        raises={"FinamStatusError": cs_bad}, must_raise={"FinamStatusError": cs_bad}, raise_frame_empty=True,
    ))

    # ------------------------------------------------------------------ finalize interfaces + _finalize_components
    def fin_mod(ctx):
        return [(None, f) for f in ["$status"] + RETENTION_FIELDS] + [(WORLD, "$finalized")]

    def fin_logged(ctx, obj):
        f0, f1 = ctx.old.get(WORLD, "$finalized"), ctx.get(WORLD, "$finalized")
        i = z3.Int(sv.uid("fi"))
        return And(f1.n == f0.n + 1, f1.at(f0.n).e == obj, z3.ForAll([i], Implies(And(0 <= i, i < f0.n), f1.at(i).e == f0.at(i).e)))

    reg.add(Contract("iface:IComponent.finalize", params={}, note="method", verify=False, modifies=fin_mod,
                     requires=lambda ctx: Or(*[status_of(ctx, ctx.self.e) == st(n) for n in ("VALIDATED", "UPDATED", "FINISHED")]),
                     ensures=lambda ctx, r: And(fin_logged(ctx, ctx.self.e),
                                                z3.ForAll([z3.Int("fo")], Implies(z3.Int("fo") != ctx.self.e,
                                                                                   status_of(ctx, z3.Int("fo")) == status_of(ctx.old, z3.Int("fo")))))))
    reg.add(Contract("iface:IAdapter.finalize", params={}, note="method", verify=False,
                     modifies=lambda ctx: [(None, f) for f in RETENTION_FIELDS] + [(WORLD, "$finalized")],
                     ensures=lambda ctx, r: fin_logged(ctx, ctx.self.e)))

    def count_in(lst, upto, x, tag):
        """x occurs in lst[:upto] exactly once, stated with a witness position"""
        i, j = z3.Int(sv.uid(tag + "i")), z3.Int(sv.uid(tag + "j"))
        return z3.Exists([i], And(0 <= i, i < upto, lst.at(i).e == x,
                                  z3.ForAll([j], Implies(And(0 <= j, j < upto, lst.at(j).e == x), j == i))))

    def fc_pre(ctx):
        s = ctx.self
        comps = ctx.get(s, "_components")
        i, j = z3.Ints("fc_i fc_j")
        distinct = z3.ForAll([i, j], Implies(And(0 <= i, i < j, j < comps.n), comps.at(i).e != comps.at(j).e))
        a = z3.Int("fc_a")
        disjoint = z3.ForAll([a, i], Implies(And(ctx.get(s, "_adapters").dom(a), 0 <= i, i < comps.n), comps.at(i).e != a))
        okst = z3.ForAll([i], Implies(And(0 <= i, i < comps.n), comps.at(i).e > 0))
        return And(distinct, disjoint, okst, ctx.get(WORLD, "$finalized").n == 0)

    def fc_post(ctx, r):
        s = ctx.self
        comps = ctx.old.get(s, "_components")
        ads = ctx.old.get(s, "_adapters")
        fin = ctx.get(WORLD, "$finalized")
        i = z3.Int("fcp_i")
        a = z3.Int("fcp_a")
        q = z3.Int("fcp_q")
        each_comp = z3.ForAll([i], Implies(And(0 <= i, i < comps.n),
                                           And(fin.at(i).e == comps.at(i).e, status_of(ctx, comps.at(i).e) == st("FINALIZED"))))
        each_adapter_once = z3.ForAll([a], Implies(ads.dom(a), count_in_from(fin, comps.n, fin.n, a)))
        nothing_else = z3.ForAll([q], Implies(And(comps.n <= q, q < fin.n), ads.dom(fin.at(q).e)))
        return And(fin.n >= comps.n, each_comp, each_adapter_once, nothing_else)

    def count_in_from(lst, lo, hi, x):
        i, j = z3.Int(sv.uid("ci")), z3.Int(sv.uid("cj"))
        return z3.Exists([i], And(lo <= i, i < hi, lst.at(i).e == x,
                                  z3.ForAll([j], Implies(And(lo <= j, j < hi, lst.at(j).e == x), j == i))))

    def fc_inv1(ctx):
        s = ctx.self
        comps = ctx.get(s, "_components")
        fin = ctx.get(WORLD, "$finalized")
        i = z3.Int("fci_i")
        return And(fin.n == ctx.k,
                   z3.ForAll([i], Implies(And(0 <= i, i < ctx.k),
                                          And(fin.at(i).e == comps.at(i).e, status_of(ctx, comps.at(i).e) == st("FINALIZED")))),
                   z3.ForAll([i], Implies(And(ctx.k <= i, i < comps.n), status_of(ctx, comps.at(i).e) == status_of(ctx.old, comps.at(i).e))))

    def fc_inv2(ctx):
        s = ctx.self
        comps = ctx.get(s, "_components")
        fin = ctx.get(WORLD, "$finalized")
        i = z3.Int("fcj_i")
        return And(fin.n == comps.n + ctx.k,
                   z3.ForAll([i], Implies(And(0 <= i, i < comps.n),
                                          And(fin.at(i).e == comps.at(i).e, status_of(ctx, comps.at(i).e) == st("FINALIZED")))),
                   z3.ForAll([i], Implies(And(0 <= i, i < ctx.k), fin.at(comps.n + i).e == ctx.seq.at(i).e)))

    global FC_PRE_FULL
    FC_PRE_FULL = fc_pre

    reg.add(Contract(
        f"{S}.Composition._finalize_components", self_cls="Composition", props=["C03.1"], params={},
        requires=fc_pre, ensures=fc_post, modifies=lambda ctx: fin_mod(ctx),
        raises={"FinamStatusError": lambda ctx: z3.BoolVal(True)},
        loops={1: dict(invariant=fc_inv1), 2: dict(invariant=fc_inv2)},
    ))


UR_PRE_FULL = FC_PRE_FULL = None


def UR_PRE(ctx):
    """the graph part of the precondition of _update_recursive (everything but the argument-specific clauses)"""
    class _A:
        pass
    import copy
    c2 = copy.copy(ctx)
    c2.args = dict(ctx.args)
    dummy = sv.SRef(z3.Int("ur_any_comp"), "IComponent")
    c2.args.update({"comp": dummy, "chain": sv.NONE, "target_time": sv.STime(z3.Int("ur_any_t"))})
    full = UR_PRE_FULL(c2)
    from pyvc.expr import _flat_and
    keep = [c for c in _flat_and(full) if "ur_any_comp" not in str(c) and "ur_any_t" not in str(c)]
    return And(*keep)


def FC_PRE(ctx):
    return FC_PRE_FULL(ctx)


def register_run2(reg):
    from .base import RETENTION_FIELDS

    reg.add(Contract(f"{S}.Composition._finalize_composition", self_cls="Composition", params={}, verify=False, pure=True,
                     note="assumed: removes and closes the log handlers of the composition logger, no other effect"))

    def tcs(ctx):
        return ctx.local("time_components")

    def running(ctx, c, end):
        return And(status_of(ctx, c) != st("FINISHED"), ctime(ctx, c) < end)

    def is_tc_everywhere(ctx, lst):
        i = z3.Int(sv.uid("ti"))
        return z3.ForAll([i], Implies(And(0 <= i, i < lst.n),
                                      And(lst.at(i).e > 0, isa("ITimeComponent", lst.at(i).e), isa("IComponent", lst.at(i).e),
                                          Not(is_none(ctx.get(lst.at(i).e, "$ctime"))), Not(is_none(ctx.get(lst.at(i).e, "$next_time"))))))

    def run_pre(ctx):
        s = ctx.self
        comps = ctx.get(s, "_components")
        i = z3.Int("rp_i")
        c = z3.Int("rp_c")
        end = strip_none(ctx.end_time).e
        some_running = z3.Exists([i], And(0 <= i, i < comps.n, isa("ITimeComponent", comps.at(i).e), running(ctx, comps.at(i).e, end)))
        tc_ok = z3.ForAll([c], Implies(isa("ITimeComponent", c), And(Not(is_none(ctx.get(c, "$ctime"))), Not(is_none(ctx.get(c, "$next_time"))))))
        return And(ctx.get(s, "_is_connected").e, Not(is_none(ctx.end_time)), some_running, tc_ok,
                   z3.ForAll([i], Implies(And(0 <= i, i < comps.n), And(comps.at(i).e > 0, isa("IComponent", comps.at(i).e)))),
                   UR_PRE(ctx), FC_PRE(ctx))

    def some_running_tc(ctx):
        lst = tcs(ctx)
        i = z3.Int("sr_i")
        end = strip_none(ctx.end_time).e
        return z3.Exists([i], And(0 <= i, i < lst.n, running(ctx, lst.at(i).e, end)))

    def all_done(ctx):
        lst = tcs(ctx)
        i = z3.Int("ad_i")
        end = strip_none(ctx.end_time).e
        return z3.ForAll([i], Implies(And(0 <= i, i < lst.n), Not(running(ctx, lst.at(i).e, end))))

    def graph_unchanged_pre(ctx):
        return UR_PRE(ctx)

    def while_inv(ctx):
        return And(some_running_tc(ctx), is_tc_everywhere(ctx, tcs(ctx)), UR_PRE(ctx), FC_PRE(ctx), tcs(ctx).n >= 1)

    def scan_inv(ctx):
        lst = tcs(ctx)
        i = z3.Int("sc_i")
        end = strip_none(ctx.end_time).e
        return And(Not(ctx.local("any_running").e),
                   z3.ForAll([i], Implies(And(0 <= i, i < ctx.k), Not(running(ctx, lst.at(i).e, end)))),
                   is_tc_everywhere(ctx, lst), UR_PRE(ctx), FC_PRE(ctx), lst.n >= 1)

    def least_advanced(ctx, argmap):
        """C02.3: the component handed to the recursive update has the smallest time of all time components;
        C03.3: and an update is still due (some time component has not reached the end time)"""
        lst = tcs(ctx)
        i = z3.Int("la_i")
        c = argmap["comp"].e
        return And(z3.ForAll([i], Implies(And(0 <= i, i < lst.n), ctime(ctx, c) <= ctime(ctx, lst.at(i).e))),
                   z3.Exists([i], And(0 <= i, i < lst.n, lst.at(i).e == c)),
                   some_running_tc(ctx))

    reg.add(Contract(
        f"{S}.Composition.run", self_cls="Composition", props=["C02.3", "C03.3", "C03.1"],
        params={"start_time": TimeOpt, "end_time": TimeOpt},
        requires=run_pre, modifies=lambda ctx: [(None, f) for f in SCHED_FIELDS + RETENTION_FIELDS] +
        [(WORLD, "$updates"), (WORLD, "$pull_log"), (WORLD, "$notify_log"), (WORLD, "$finalized"), (ctx.self, "_time_frame")],
        raises={"FinamCircularCouplingError": lambda ctx: z3.BoolVal(True), "FinamTimeError": lambda ctx: z3.BoolVal(True),
                "FinamStatusError": lambda ctx: z3.BoolVal(True)},
        call_checks={"_update_recursive": least_advanced},
        loops={1: dict(invariant=while_inv, at_exit=all_done,
                       locals={"sort_components": TList(TRef("ITimeComponent")), "to_update": TRef("ITimeComponent"),
                               "updated": TOpt(TRef("IComponent")), "any_running": Bool, "comp": TRef("ITimeComponent")}),
               2: dict(invariant=scan_inv, locals={"any_running": Bool, "comp": TRef("ITimeComponent")})},
        ensures=lambda ctx, r: z3.BoolVal(True),
    ))


_MON = {"name": "run-monitor", "script": "replay/drivers/seq_sched.py", "args": ["--json"], "timeout": 3000}
BOUNDED = {p: [_MON] for p in ("C01", "C02", "C03", "C04", "C05")}
_VAL = {"name": "validation-topologies", "script": "replay/drivers/bnd_validate.py", "args": ["--json"], "timeout": 1200}
BOUNDED["C19"] = [_VAL]
_COMP = {"name": "finam-components-pull-at-announced-time", "script": "replay/drivers/bnd_components.py", "args": ["--json"], "timeout": 600}
_DEL = {"name": "calendar-delays", "script": "replay/drivers/bnd_delays.py", "args": ["--json"], "timeout": 600}
BOUNDED["C01"] = [_MON, _COMP, _DEL]
BOUNDED["C13"] = [_DEL]
BOUNDED["C02"] = [_MON, _COMP]
BOUNDED["C05"] = [_MON, _VAL]     # the validation outcome must not depend on the order of linking / listing
REPLAY = {
    f"{S}._check_input_connected": "bnd_validate.py", f"{S}._check_dead_links": "bnd_validate.py", f"{S}._check_branching": "bnd_validate.py",
    f"{S}._check_missing_components": "bnd_validate.py", f"{S}._collect_inputs_outputs": "bnd_validate.py",
    f"{S}.Composition._validate_composition": "bnd_validate.py",
    f"{S}._find_dependencies": "seq_sched.py", f"{S}.Composition._update_recursive": "seq_sched.py",
    f"{S}.Composition.run": "seq_sched.py", f"{S}.Composition._finalize_components": "seq_sched.py",
    f"{S}.Composition._check_status": "seq_sched.py",
}


# =================================================================================================
# Composition.__init__ / connect / _connect_components (C10.5, C19.5, C04.2, C06.5, C03.1)
# =================================================================================================
VALIDATED_OK = z3.Bool("topology_validated")   # rigid: "_validate_composition accepted the topology" (defined in its unit)


def register_connect(reg):
    from .base import RETENTION_FIELDS

    reg.field("_slot_memory_limit", TOpt(Int))
    reg.field("_slot_memory_location", TOpt(Str))
    reg.field("_dependencies", TOpt(TRef(None)))
    reg.field("_input_owners", TDict(TRef("IInput"), TRef("IComponent")))
    reg.field("$exchange_started", Bool)  # ghost: some component's connect() (info/data exchange) was called
    reg.field("$progress", Int)  # ghost: number of connect() calls that reported progress (CONNECTING or CONNECTED)

    lim = lambda ctx, o: ctx.get(o, "_mem_limit")
    loc = lambda ctx, o: ctx.get(o, "_mem_location")
    reg.attr_fields.update({"memory_limit": ["_mem_limit"], "memory_location": ["_mem_location"]})
    reg.add(Contract("iface:IOutput.memory_limit", pure=True, verify=False, result_fn=lambda ctx: lim(ctx, ctx.self)))
    reg.add(Contract("iface:IOutput.memory_location", pure=True, verify=False, result_fn=lambda ctx: loc(ctx, ctx.self)))
    reg.add(Contract("iface:IOutput.memory_limit.setter", params={"value": TOpt(Int)}, verify=False,
                     modifies=lambda ctx: [(ctx.self, "_mem_limit")],
                     ensures=lambda ctx, r: sv.value_eq(lim(ctx, ctx.self), ctx.value)))
    reg.add(Contract("iface:IOutput.memory_location.setter", params={"value": TOpt(Str)}, verify=False,
                     modifies=lambda ctx: [(ctx.self, "_mem_location")],
                     ensures=lambda ctx, r: sv.value_eq(loc(ctx, ctx.self), ctx.value)))

    # ---- component life-cycle interface: a call only changes the component's own status
    def only_own_status(ctx):
        o = z3.Int(sv.uid("so"))
        return z3.ForAll([o], Implies(o != ctx.self.e, status_of(ctx, o) == status_of(ctx.old, o)))

    life_mod = lambda ctx: [(None, f) for f in ["$status", "$inputs", "$outputs", "_mem_limit", "_mem_location", "$ctime", "$next_time", "_time",
                                                "_source", "_targets", "_output_info", "_input_info", "_out_infos_exchanged",
                                                "_in_info_exchanged"] + RETENTION_FIELDS] + \
        [(WORLD, "$pull_log"), (WORLD, "$notify_log"), (WORLD, "$exchange_started"), (WORLD, "$progress")]
    reg.add(Contract("iface:IComponent.initialize", params={}, note="method", verify=False,
                     modifies=lambda ctx: [(None, f) for f in ["$status", "$inputs", "$outputs", "_mem_limit", "_mem_location", "$ctime", "$next_time"]],
                     requires=lambda ctx: status_of(ctx, ctx.self.e) == st("CREATED"),
                     ensures=lambda ctx, r: And(only_own_status(ctx), slots_frame(ctx, ctx.self.e))))
    reg.add(Contract("iface:IComponent.connect", params={"start_time": TimeOpt}, note="method", verify=False, modifies=life_mod,
                     requires=lambda ctx: And(Or(*[status_of(ctx, ctx.self.e) == st(n) for n in ("INITIALIZED", "CONNECTING", "CONNECTING_IDLE")]),
                                              VALIDATED_OK),
                     ensures=lambda ctx, r: And(only_own_status(ctx), ctx.get(WORLD, "$exchange_started").e,
                                                ctx.get(WORLD, "$progress").e == ctx.old.get(WORLD, "$progress").e +
                                                If(Or(status_of(ctx, ctx.self.e) == st("CONNECTING"), status_of(ctx, ctx.self.e) == st("CONNECTED")), z3.IntVal(1), z3.IntVal(0)))))
    reg.add(Contract("iface:IComponent.validate", params={}, note="method", verify=False,
                     modifies=lambda ctx: [(None, "$status")],
                     requires=lambda ctx: status_of(ctx, ctx.self.e) == st("CONNECTED"),
                     ensures=lambda ctx, r: only_own_status(ctx)))

    def slots_frame(ctx, comp_e):
        """initialize() of one component creates / configures only its own slots"""
        c = z3.Int(sv.uid("sc"))
        k = z3.Const(sv.uid("sk"), sv.StrS)
        outs0, outs1 = ctx.old.get(c, "$outputs"), ctx.get(c, "$outputs")
        same_outputs = z3.ForAll([c, k], Implies(c != comp_e, And(outs1.dom(k) == outs0.dom(k), outs1.val(k).e == outs0.val(k).e)))
        o = z3.Int(sv.uid("so"))
        own = lambda x: z3.Exists([k], And(ctx.get(comp_e, "$outputs").dom(k), ctx.get(comp_e, "$outputs").val(k).e == x))
        limits_kept = z3.ForAll([o], Implies(Not(own(o)), And(sv.value_eq(lim(ctx, o), lim(ctx.old, o)), sv.value_eq(loc(ctx, o), loc(ctx.old, o)))))
        return And(same_outputs, limits_kept)

    # ------------------------------------------------------------------ _connect_components (C04.2, C06.5)
    def cc_all_connected(ctx):
        comps = ctx.get(ctx.self, "_components")
        i = z3.Int(sv.uid("cci"))
        return z3.ForAll([i], Implies(And(0 <= i, i < comps.n), status_of(ctx, comps.at(i).e) == st("CONNECTED")))

    def cc_stalled(ctx):
        """raised only when a whole sweep made no progress and something is still unconnected"""
        comps = ctx.get(ctx.self, "_components")
        i = z3.Int(sv.uid("cci"))
        j = z3.Int(sv.uid("ccj"))
        return And(z3.Exists([i], And(0 <= i, i < comps.n, status_of(ctx, comps.at(i).e) != st("CONNECTED"))),
                   z3.ForAll([j], Implies(And(0 <= j, j < comps.n),
                                          Or(status_of(ctx, comps.at(j).e) == st("CONNECTED"), status_of(ctx, comps.at(j).e) == st("CONNECTING_IDLE")))))

    def cc_sweep_inv(ctx):
        comps = ctx.get(ctx.self, "_components")
        j = z3.Int(sv.uid("swj"))
        unc = ctx.local("any_unconnected").e
        new = ctx.local("any_new_connection").e
        sj = status_of(ctx, comps.at(j).e)
        return And(
            distinct_components(ctx),
            z3.ForAll([j], Implies(And(0 <= j, j < ctx.k, Not(unc)), sj == st("CONNECTED"))),
            Implies(unc, z3.Exists([j], And(0 <= j, j < ctx.k, sj != st("CONNECTED")))),
            # no progress so far: every visited component is connected since before the sweep or reported idle
            Implies(Not(new), z3.ForAll([j], Implies(And(0 <= j, j < ctx.k), Or(sj == st("CONNECTED"), sj == st("CONNECTING_IDLE"))))),
            VALIDATED_OK,
            z3.ForAll([j], Implies(And(0 <= j, j < ctx.k), Or(sj == st("CONNECTING"), sj == st("CONNECTING_IDLE"), sj == st("CONNECTED")))),
            # the flag any_new_connection is set only when a connect() call really reported progress
            ctx.get(WORLD, "$progress").e >= ctx.local("$p0").e,
            Implies(new, ctx.get(WORLD, "$progress").e > ctx.local("$p0").e),
        )

    def distinct_components(ctx):
        comps = ctx.get(ctx.self, "_components")
        i, j = z3.Int(sv.uid("di")), z3.Int(sv.uid("dj"))
        return And(z3.ForAll([i, j], Implies(And(0 <= i, i < j, j < comps.n), comps.at(i).e != comps.at(j).e)),
                   z3.ForAll([i], Implies(And(0 <= i, i < comps.n), comps.at(i).e > 0)))

    reg.add(Contract(
        f"{S}.Composition._connect_components", self_cls="Composition", props=["C04.2", "C06.5", "C03.1", "C19.5"],
        params={"time": TimeOpt},
        requires=lambda ctx: And(distinct_components(ctx), VALIDATED_OK, comps_in_status(ctx, ("INITIALIZED", "CONNECTING", "CONNECTING_IDLE", "CONNECTED"))),
        ensures=lambda ctx, r: cc_all_connected(ctx), modifies=life_mod,
        raises={"FinamCircularCouplingError": cc_stalled, "FinamStatusError": lambda ctx: z3.BoolVal(True)},
        loops={1: dict(invariant=lambda ctx: And(distinct_components(ctx), VALIDATED_OK,
                                                 comps_in_status(ctx, ("INITIALIZED", "CONNECTING", "CONNECTING_IDLE", "CONNECTED"))),
                       at_exit=cc_all_connected, increases=lambda ctx: ctx.get(WORLD, "$progress").e,
                       snapshot={"p0": lambda ctx: ctx.get(WORLD, "$progress")},
                       locals={"any_unconnected": Bool, "any_new_connection": Bool, "counter": Int}),
               2: dict(invariant=lambda ctx: And(cc_sweep_inv(ctx), comps_in_status_from(ctx, ctx.k, ("INITIALIZED", "CONNECTING", "CONNECTING_IDLE", "CONNECTED"))),
                       locals={"any_unconnected": Bool, "any_new_connection": Bool})},
    ))


def comps_in_status(ctx, names):
    return comps_in_status_from(ctx, z3.IntVal(0), names)


def comps_in_status_from(ctx, lo, names):
    comps = ctx.get(ctx.self, "_components")
    i = z3.Int(sv.uid("csi"))
    return z3.ForAll([i], Implies(And(lo <= i, i < comps.n), Or(*[status_of(ctx, comps.at(i).e) == st(n) for n in names])))


# =================================================================================================
# _check_branching (C19.3): worklist over the downstream tree
# =================================================================================================
BRANCH_BAD = z3.Function("Branch.bad", IntS, BoolS, BoolS)
BRANCH_BAD_CHILD = z3.Function("Branch.bad.child", IntS, BoolS, IntS)   # witness child index


def register_branching(reg):
    register_slot_flags(reg)
    register_class_markers(reg)
    register_validate_composition(reg)
    register_composition_connect(reg)
    TG = lambda ctx, x: ctx.get(x, "_targets")
    NB = lambda x: isa("NoBranchAdapter", x)
    # BAD(x, f): below element x (reached with no-branch flag f) some element lies at or downstream of a
    # NoBranchAdapter and has more than one target.   Defined by its unfolding (least fixed point; both directions used)
    BAD, BW = BRANCH_BAD, BRANCH_BAD_CHILD

    def bad_axioms(ctx):
        x = z3.Int("bx_x")
        f = z3.Bool("bx_f")
        i = z3.Int("bx_i")
        tg = TG(ctx, x)
        f2 = Or(f, NB(x))
        here = And(f2, tg.n > 1)
        child = lambda k: And(0 <= k, k < tg.n, isa("IOutput", tg.at(k).e), BAD(tg.at(k).e, f2))
        return [
            # introduction
            z3.ForAll([x, f], Implies(here, BAD(x, f)), patterns=[BAD(x, f)]),
            z3.ForAll([x, f, i], Implies(child(i), BAD(x, f)), patterns=[z3.MultiPattern(BAD(x, f), tg.at(i).e)]),
            # elimination (witness)
            z3.ForAll([x, f], Implies(BAD(x, f), Or(here, child(BW(x, f)))), patterns=[BAD(x, f)]),
            # the downstream structure is a finite tree (stated assumption)
            z3.ForAll([x, i], Implies(And(0 <= i, i < tg.n), And(tg.at(i).e > 0, DEPTH(tg.at(i).e) < DEPTH(x))), patterns=[tg.at(i).e]),
            z3.ForAll([x], DEPTH(x) >= 0, patterns=[DEPTH(x)]),
        ]

    ItemT = TTup(TRef(None), Bool)

    def wl(ctx):
        return ctx.local("targets")

    def some_bad_in_worklist(ctx, lst, upto=None):
        q = z3.Int(sv.uid("wq"))
        n = lst.n if upto is None else upto
        return z3.Exists([q], And(0 <= q, q < n, BAD(lst.at(q).items[0].e, lst.at(q).items[1].e)))

    def cb_inv1(ctx):
        lst = wl(ctx)
        q = z3.Int(sv.uid("wq"))
        out = ctx.out.e
        return And(
            z3.ForAll([q], Implies(And(0 <= q, q < lst.n), lst.at(q).items[0].e > 0)),
            # nothing violating has been dropped: the output is bad iff something on the worklist is
            BAD(out, z3.BoolVal(False)) == some_bad_in_worklist(ctx, lst),
        )

    def cb_inv2(ctx):
        """inner for over curr_targets: children k.. still to be appended"""
        lst = wl(ctx)
        tgt = ctx.local("target")   # NB: the loop variable shadows the popped element
        q = z3.Int(sv.uid("wq"))
        return And(z3.ForAll([q], Implies(And(0 <= q, q < lst.n), lst.at(q).items[0].e > 0)))

    def entries_ok(ctx, lst):
        q = z3.Int(sv.uid("wq"))
        e = lst.at(q).items[0].e
        return z3.ForAll([q], Implies(And(0 <= q, q < lst.n),
                                      And(e > 0, isa("IOutput", e), Implies(BAD(e, lst.at(q).items[1].e), BAD(ctx.out.e, z3.BoolVal(False))))))

    def cb_sound(ctx):
        # completeness: if the output is bad, a bad element is still waiting on the worklist
        return And(entries_ok(ctx, wl(ctx)), Implies(BAD(ctx.out.e, z3.BoolVal(False)), some_bad_in_worklist(ctx, wl(ctx))))

    def cb_sound2(ctx):
        # inside the scan of the children of the popped element x (flag f2 = no_branch): a bad child makes the output bad
        nb = ctx.local("no_branch").e
        ct = ctx.local("curr_targets")
        i = z3.Int(sv.uid("ci"))
        kids = z3.ForAll([i], Implies(And(0 <= i, i < ct.n, isa("IOutput", ct.at(i).e), BAD(ct.at(i).e, nb)), BAD(ctx.out.e, z3.BoolVal(False))))
        pos = z3.ForAll([i], Implies(And(0 <= i, i < ct.n), ct.at(i).e > 0))
        j = z3.Int(sv.uid("cj"))
        pending = z3.Exists([j], And(ctx.k <= j, j < ct.n, isa("IOutput", ct.at(j).e), BAD(ct.at(j).e, nb)))
        return And(entries_ok(ctx, wl(ctx)), kids, pos,
                   Implies(BAD(ctx.out.e, z3.BoolVal(False)), Or(some_bad_in_worklist(ctx, wl(ctx)), pending)))

    reg.add(Contract(
        f"{S}._check_branching", props=["C19.3", "C05.4"], params={"comp": TRef("IComponent"), "out": TRef("IOutput")},
        requires=lambda ctx: And(ctx.out.e > 0, isa("IOutput", ctx.out.e)), axioms=bad_axioms, modifies=lambda ctx: [],
        raises={"FinamConnectError": lambda ctx: BAD(ctx.out.e, z3.BoolVal(False))},
        must_raise={"FinamConnectError": lambda ctx: BAD(ctx.out.e, z3.BoolVal(False))},
        ensures=lambda ctx, r: Not(BAD(ctx.out.e, z3.BoolVal(False))),
        loops={1: dict(invariant=cb_sound, locals={"targets": TList(ItemT), "target": TRef(None), "no_branch": Bool,
                                                   "curr_targets": TList(TRef("IInput"))}),
               2: dict(invariant=cb_sound2, locals={"targets": TList(ItemT), "target": TRef(None)})},
        note="BAD is the least predicate closed under: an element at/below a NoBranchAdapter with >1 targets, or an output-like child that is BAD",
    ))


# =================================================================================================
# needs_push / needs_pull of every slot class (C19.0): the flags the dead-link rule reads
# =================================================================================================
def register_class_markers(reg):
    """The scheduler and the validation read three marker base classes of adapters.  What they must mean (DESIGN 3, Req):
      NoDependencyAdapter  - requests through the adapter never need the source to be ahead: only an adapter that serves what was
                             already pushed qualifies (DelayToPush: with_delay(t) = min(t, last push), C13.1);
      NoBranchAdapter      - the adapter keeps state for a single end consumer (buffer evicted on pull: TimeCachingAdapter family;
                             request history: DelayToPull), so fan-out below it is refused (C19.3);
      ITimeDelayAdapter    - the adapter shifts request times (it defines with_delay).
    One unit per finam adapter class checks the class table of the real source against this (the `isa` facts every other proof uses)."""
    repo = getattr(reg, "repo", None)
    if repo is None:
        return
    ad = repo.cls("Adapter")
    tca, tda = repo.cls("TimeCachingAdapter"), repo.cls("TimeDelayAdapter")
    markers = {"NoDependencyAdapter": repo.cls("NoDependencyAdapter"), "NoBranchAdapter": repo.cls("NoBranchAdapter"), "ITimeDelayAdapter": repo.cls("ITimeDelayAdapter")}
    for ci in sorted(repo.classes.values(), key=lambda c: c.name):
        if ad not in ci.mro or ci is ad:
            continue
        want = {
            "NoDependencyAdapter": ci.name == "DelayToPush",
            "NoBranchAdapter": tca in ci.mro or ci.name == "DelayToPull",
            "ITimeDelayAdapter": tda in ci.mro,
        }
        have = {k: (m in ci.mro) for k, m in markers.items()}
        for k in sorted(want):
            reg.facts.append((f"markers<{ci.name}>:{k}", ["C01.0", "C02.0", "C03.0", "C04.0", "C05.0", "C09.0", "C10.0", "C11.0", "C12.0", "C13.0", "C19.0", "C20.0"], have[k] == want[k],
                              f"class {ci.name} ({ci.module.path}): {k} {'must' if want[k] else 'must not'} be a base class "
                              f"({'is' if have[k] else 'is not'} one)"))


def register_slot_flags(reg):
    """One unit per finam class that is an input, output or adapter: the property the class resolves to returns the
    flag its behaviour demands.  The expectation is derived from the class table of the real source:
      needs_push  <=>  the element acts on notifications: it is a plain Output (it pushes), or it overrides the
                       notification hook (`_source_updated` of adapters, `source_updated` of CallbackInput);
      needs_pull  <=>  the element acts on requests only: a plain Input (it pulls), or an output whose `get_data`
                       is overridden to compute on demand (CallbackOutput)."""
    repo = getattr(reg, "repo", None)
    if repo is None:
        return
    ad, inp, out = repo.cls("Adapter"), repo.cls("Input"), repo.cls("Output")
    iad = repo.cls("IAdapter")
    seen = set()
    for ci in sorted(repo.classes.values(), key=lambda c: c.name):
        if not (inp in ci.mro or out in ci.mro) or ci.name in seen:
            continue
        seen.add(ci.name)
        is_adapter = ad in ci.mro
        if is_adapter:
            hook = repo.lookup_method(ci, "_source_updated")
            push = hook is not None and hook.cls is not ad and hook.cls is not iad
            pull = False
        elif out in ci.mro:
            gd = repo.lookup_method(ci, "get_data")
            pull = gd is not None and gd.cls is not out
            push = not pull
        else:
            su = repo.lookup_method(ci, "source_updated")
            push = su is not None and su.cls is not inp
            pull = not push
        fi = repo.lookup_method(ci, "is_static")
        if fi is not None and "abstractmethod" not in fi.decorators:
            # the static flag a slot reports is the one it was constructed with; adapters are never static
            reg.add(Contract(fi.qual, self_cls=ci.name, props=["C19.0", "C20.1"], params={}, result=Bool, pure=True, modifies=lambda ctx: [],
                             ensures=(lambda ctx, r: r.e == z3.BoolVal(False)) if is_adapter else (lambda ctx, r: r.e == ctx.get(ctx.self, "_static").e),
                             name=f"is_static<{ci.name}>", primary=False))
        for attr, want in (("needs_push", push), ("needs_pull", pull)):
            fi = repo.lookup_method(ci, attr)
            if fi is None or "abstractmethod" in fi.decorators:
                continue
            REPLAY[fi.qual] = "slot_flags.py"
            reg.add(Contract(fi.qual, self_cls=ci.name, props=["C19.0"], params={}, result=Bool, pure=True, modifies=lambda ctx: [],
                             ensures=lambda ctx, r, want=want: r.e == z3.BoolVal(want),
                             name=f"{attr}<{ci.name}>", primary=False))


# =================================================================================================
# Composition._validate_composition (C19.6): rejects exactly the topologies that break one of the five rules
# =================================================================================================
def slot_vals(d):
    """(n, j -> element) of dict.values()"""
    return d.keys.n, (lambda j: d.val(ex_key(d.keys.at(j))))


def ex_key(k):
    return k.e


def input_bad(ctx, x):
    return Or(unconnected_or_static_mismatch(ctx, x), And(CONN(x), dead_link(ctx, x)))


def comp_inputs_bad(ctx, c, upto=None):
    d = ctx.get(c, "$inputs")
    j = z3.Int("vj")
    n = d.keys.n if upto is None else upto
    return z3.Exists([j], And(0 <= j, j < n, input_bad(ctx, d.val(d.keys.at(j).e).e)))


def comp_outputs_bad(ctx, c, upto=None):
    d = ctx.get(c, "$outputs")
    j = z3.Int("vo")
    n = d.keys.n if upto is None else upto
    return z3.Exists([j], And(0 <= j, j < n, BRANCH_BAD(d.val(d.keys.at(j).e).e, z3.BoolVal(False))))


DOWNEND = z3.Function("Downstream.end", IntS, IntS, BoolS)   # x is an end input (not an adapter) reachable downstream of element o
DOWNEND_W = z3.Function("Downstream.end.child", IntS, IntS, IntS)


def downend_axioms(ctx):
    """least predicate closed under: a non-output target is an end; an end below an output-like target is an end"""
    o, x, i = z3.Ints("de_o de_x de_i")
    tg = ctx.get(o, "_targets")
    t = tg.at(i).e
    direct = lambda k: And(0 <= k, k < tg.n, tg.at(k).e == x, Not(isa("IOutput", x)))
    below = lambda k: And(0 <= k, k < tg.n, isa("IOutput", tg.at(k).e), DOWNEND(tg.at(k).e, x))
    w = DOWNEND_W(o, x)
    return [
        z3.ForAll([o, x, i], Implies(Or(direct(i), below(i)), DOWNEND(o, x)), patterns=[z3.MultiPattern(DOWNEND(o, x), t)]),
        z3.ForAll([o, x], Implies(DOWNEND(o, x), Or(direct(w), below(w))), patterns=[DOWNEND(o, x)]),
        z3.ForAll([o, i], Implies(And(0 <= i, i < tg.n), And(t > 0, DEPTH(t) < DEPTH(o))), patterns=[t]),
        z3.ForAll([o], DEPTH(o) >= 0, patterns=[DEPTH(o)]),
    ]


def missing_spec(ctx, comps):
    """C19 rule 3: something linked to the listed components belongs to a component that is not listed
    (deterministic bound names: the formula is built identically wherever it is used)"""
    j, k, j2, k2, x = z3.Ints("ms_j ms_k ms_j2 ms_k2 ms_x")
    ins = lambda q: ctx.get(comps.at(q).e, "$inputs")
    outs = lambda q: ctx.get(comps.at(q).e, "$outputs")
    val = lambda d, q: d.val(d.keys.at(q).e).e
    owned_out = lambda o: z3.Exists([j2, k2], And(0 <= j2, j2 < comps.n, 0 <= k2, k2 < outs(j2).keys.n, val(outs(j2), k2) == o))
    owned_in = lambda y: z3.Exists([j2, k2], And(0 <= j2, j2 < comps.n, 0 <= k2, k2 < ins(j2).keys.n, val(ins(j2), k2) == y))
    up = z3.Exists([j, k], And(0 <= j, j < comps.n, 0 <= k, k < ins(j).keys.n, Not(owned_out(ROOT2(val(ins(j), k))))))
    down = z3.Exists([j, k, x], And(0 <= j, j < comps.n, 0 <= k, k < outs(j).keys.n, DOWNEND(val(outs(j), k), x), Not(owned_in(x))))
    return Or(up, down)


def topology_violation(ctx, comp_ref):
    comps = ctx.get(comp_ref, "_components")
    j = z3.Int("tv_j")
    c = comps.at(j).e
    return Or(z3.Exists([j], And(0 <= j, j < comps.n, Or(comp_inputs_bad(ctx, c), comp_outputs_bad(ctx, c)))), missing_spec(ctx, comps))


def slots_typed(ctx):
    c = z3.Int("st_c")
    k = z3.Const("st_k", sv.StrS)
    di, do = ctx.get(c, "$inputs"), ctx.get(c, "$outputs")
    return And(z3.ForAll([c, k], Implies(di.dom(k), And(di.val(k).e > 0, isa("IInput", di.val(k).e))), patterns=[di.val(k).e]),
               z3.ForAll([c, k], Implies(do.dom(k), And(do.val(k).e > 0, isa("IOutput", do.val(k).e))), patterns=[do.val(k).e]))


def register_validate_composition(reg):
    def comps_of(ctx):
        return ctx.get(ctx.self, "_components")

    def pre(ctx):
        comps = comps_of(ctx)
        j = z3.Int(sv.uid("pj"))
        x = z3.Int(sv.uid("px"))
        return And(
            z3.ForAll([j], Implies(And(0 <= j, j < comps.n), comps.at(j).e > 0)),
            # the slot tables hold inputs / outputs (IOManager)
            slots_typed(ctx),
            # sources are outputs or adapters (Input.source setter): a connected chain ends in an output
            z3.ForAll([x], Implies(CONN(x), Or(isa("IOutput", ROOT2(x)), isa("IInput", ROOT2(x)))), patterns=[ROOT2(x)]),
        )

    def viol(ctx):
        return topology_violation(ctx, ctx.self)

    def done_ok(ctx, k):
        comps = comps_of(ctx)
        j = z3.Int(sv.uid("dj"))
        c = comps.at(j).e
        return z3.ForAll([j], Implies(And(0 <= j, j < k), And(Not(comp_inputs_bad(ctx, c)), Not(comp_outputs_bad(ctx, c)))))

    def inv1(ctx):
        return done_ok(ctx, ctx.k)

    def inv2(ctx):
        c = ctx.local("comp").e
        return And(c > 0, Not(comp_inputs_bad(ctx, c, upto=ctx.k)))

    def inv3(ctx):
        c = ctx.local("comp").e
        return And(c > 0, Not(comp_inputs_bad(ctx, c)), Not(comp_outputs_bad(ctx, c, upto=ctx.k)))

    def all_connected(ctx, comps):
        j, k = z3.Ints("ac_j ac_k")
        d = ctx.get(comps.at(j).e, "$inputs")
        return z3.ForAll([j, k], Implies(And(0 <= j, j < comps.n, 0 <= k, k < d.keys.n), CONN(d.val(d.keys.at(k).e).e)))

    # _check_missing_components: rule 3 (caller-facing; verified by its own unit)
    reg.add(Contract(
        f"{S}._check_missing_components", props=["C19.4"], params={"components": TList(TRef("IComponent"))},
        requires=lambda ctx: all_connected(ctx, ctx.components),
        modifies=lambda ctx: [], verify=False,
        raises={"FinamConnectError": lambda ctx: missing_spec(ctx, ctx.components)},
        must_raise={"FinamConnectError": lambda ctx: missing_spec(ctx, ctx.components)}, raise_frame_empty=True,
        ensures=lambda ctx, r: Not(missing_spec(ctx, ctx.components)),
        note="assumed here (nested set comprehensions / worklist over sets): decided by the bounded stand-in bnd_validate.py",
    ))

    reg.add(Contract(
        f"{S}.Composition._validate_composition", self_cls="Composition", props=["C19.6", "C05.4"], params={},
        requires=pre, modifies=lambda ctx: [],
        axioms=lambda ctx: [VALIDATED_OK == Not(viol(ctx))],
        raises={"FinamConnectError": viol}, must_raise={"FinamConnectError": viol}, raise_frame_empty=True,
        ensures=lambda ctx, r: {"accepted => no rule is violated": Not(viol(ctx)), "accepted => VALIDATED_OK": VALIDATED_OK},
        loops={1: dict(invariant=inv1, locals={"comp": TRef("IComponent")}),
               2: dict(invariant=inv2, locals={"comp": TRef("IComponent")}),
               3: dict(invariant=inv3, locals={"comp": TRef("IComponent")})},
        call_checks={},
        note="VALIDATED_OK is defined here: none of the five rules is violated by the link graph at validation time",
    ))


# =================================================================================================
# Composition.connect (C10.5, C19.5): adapters inherit the composition's memory settings; validation precedes any exchange
# =================================================================================================
def register_composition_connect(reg):
    from .base import RETENTION_FIELDS
    reg.field("_is_connected", Bool)
    reg.field("_time_frame", TTup(TimeOpt, TimeOpt))
    lim = lambda ctx, o: ctx.get(o, "_mem_limit")
    loc = lambda ctx, o: ctx.get(o, "_mem_location")

    # helpers that are not the subject here: assumed (simple loops over the component list)
    # ---- _get_start_time (C06.6 / C03): the composition starts at the earliest component time
    def gst_none(ctx, upto=None):
        lst = ctx.time_components
        j = z3.Int("gs_j")
        n = lst.n if upto is None else upto
        return z3.ForAll([j], Implies(And(0 <= j, j < n), is_none(ctx.get(lst.at(j).e, "$ctime"))))

    def gst_min(ctx, t, upto=None):
        lst = ctx.time_components
        j, w = z3.Int("gs_j"), z3.Int("gs_w")
        n = lst.n if upto is None else upto
        ct = lambda q: ctx.get(lst.at(q).e, "$ctime")
        return And(z3.ForAll([j], Implies(And(0 <= j, j < n, Not(is_none(ct(j)))), t <= strip_none(ct(j)).e)),
                   z3.Exists([w], And(0 <= w, w < n, Not(is_none(ct(w))), strip_none(ct(w)).e == t)))

    def gst_inv(ctx):
        tm_ = ctx.local("t_min")
        return And(Implies(is_none(tm_), gst_none(ctx, ctx.k)), Implies(Not(is_none(tm_)), gst_min(ctx, strip_none(tm_).e, ctx.k)))

    reg.add(Contract(f"{S}._get_start_time", props=["C06.6", "C03.1", "C05.5"], params={"time_components": TList(TRef("ITimeComponent"))}, result=Time, pure=True,
                     modifies=lambda ctx: [],
                     requires=lambda ctx: z3.ForAll([z3.Int("gs_j")], Implies(And(0 <= z3.Int("gs_j"), z3.Int("gs_j") < ctx.time_components.n), ctx.time_components.at(z3.Int("gs_j")).e > 0)),
                     raises={"ValueError": lambda ctx: gst_none(ctx.old)}, must_raise={"ValueError": lambda ctx: gst_none(ctx)},
                     ensures=lambda ctx, r: {"the earliest time of the time components": gst_min(ctx, r.e)},
                     loops={1: dict(invariant=gst_inv, locals={"t_min": TimeOpt})}))
    for fn in ("_map_outputs", "_map_inputs"):
        reg.add(Contract(f"{S}.{fn}", params={"components": TList(TRef("IComponent"))}, pure=True, verify=False,
                         result=OwnersT if fn == "_map_outputs" else TDict(TRef("IInput"), TRef("IComponent")),
                         note="assumed: slot -> owning component"))
    reg.add(Contract(f"{S}.Composition._collect_adapters", self_cls="Composition", params={}, verify=False,
                     modifies=lambda ctx: [(ctx.self, "_adapters")],
                     note="assumed: gathers the adapters linked to the listed components (bounded stand-in bnd_validate.py compares the link enumeration)"))

    def exch(ctx):
        return ctx.get(WORLD, "$exchange_started").e

    def distinct_comps(ctx):
        comps = ctx.get(ctx.self, "_components")
        i, j = z3.Int("dc_i"), z3.Int("dc_j")
        return And(z3.ForAll([i, j], Implies(And(0 <= i, i < j, j < comps.n), comps.at(i).e != comps.at(j).e)),
                   z3.ForAll([i], Implies(And(0 <= i, i < comps.n), comps.at(i).e > 0)))

    def validate_pre(ctx):
        x = z3.Int("vp_x")
        return And(slots_typed(ctx), z3.ForAll([x], Implies(CONN(x), Or(isa("IOutput", ROOT2(x)), isa("IInput", ROOT2(x)))), patterns=[ROOT2(x)]))

    def viol0(ctx):
        return topology_violation(ctx.old, ctx.self)

    def adapters_configured(ctx):
        s = ctx.self
        ads = ctx.get(s, "_adapters")
        a = z3.Int("ca_a")
        slim, sloc = ctx.old.get(s, "_slot_memory_limit"), ctx.old.get(s, "_slot_memory_location")
        # (the adapter set after _collect_adapters; limits as they were when the defaulting loop started are not visible here,
        #  so the clause is stated on the result: nothing inheritable is left unset)
        return z3.ForAll([a], Implies(ads.dom(a), And(Implies(Not(is_none(slim)), Not(is_none(lim(ctx, a)))),
                                                       Implies(Not(is_none(sloc)), Not(is_none(loc(ctx, a)))))))

    def inv_ads(ctx):
        s = ctx.self
        seq = ctx.seq
        j = z3.Int("ia_j")
        slim, sloc = ctx.get(s, "_slot_memory_limit"), ctx.get(s, "_slot_memory_location")
        a = seq.at(j).e
        return And(VALIDATED_OK, Not(exch(ctx)),
                   z3.ForAll([j], Implies(And(0 <= j, j < ctx.k), And(Implies(Not(is_none(slim)), Not(is_none(lim(ctx, a)))),
                                                                      Implies(Not(is_none(sloc)), Not(is_none(loc(ctx, a))))))))

    reg.add(Contract(
        f"{S}.Composition.connect", self_cls="Composition", props=["C10.5", "C19.5", "C06.6", "C03.1"], params={"start_time": TimeOpt},
        requires=lambda ctx: And(Not(exch(ctx)), validate_pre(ctx), distinct_comps(ctx), comps_in_status(ctx, ("INITIALIZED",))),
        modifies=lambda ctx: [(None, f) for f in ["$status", "$inputs", "$outputs", "_mem_limit", "_mem_location", "$ctime", "$next_time", "_time",
                                                  "_source", "_targets", "_output_info", "_input_info", "_out_infos_exchanged", "_in_info_exchanged",
                                                  "_adapters", "_output_owners", "_input_owners", "_is_connected", "_time_frame"] + RETENTION_FIELDS]
        + [(WORLD, "$pull_log"), (WORLD, "$notify_log"), (WORLD, "$exchange_started"), (WORLD, "$progress")],
        raises={"FinamStatusError": lambda ctx: z3.BoolVal(True), "ValueError": lambda ctx: z3.BoolVal(True),
                # a rejected topology is reported before any component exchanged infos or data
                "FinamConnectError": lambda ctx: Implies(viol0(ctx), Not(exch(ctx))),
                "FinamCircularCouplingError": lambda ctx: Not(viol0(ctx))},
        ensures=lambda ctx, r: {"accepted topology": Not(viol0(ctx))},
        # C10.5 is stated where it matters: when the defaulting loop is done (before the first exchange), every collected adapter
        # has inherited the composition's memory limit and location
        loops={1: dict(invariant=inv_ads, at_exit=adapters_configured),
               2: dict(invariant=lambda ctx: And(distinct_comps(ctx), comps_in_status_from(ctx, ctx.k, ("CONNECTED",))))},
    ))
