"""Contracts for finam.schedule: dependency analysis and the recursive update (C01, C02, C04, C20.3),
validation walkers (C19), life cycle (C03)."""
import z3

from pyvc import sv
from pyvc.contract import Contract
from pyvc.sv import And, Or, Not, Implies, If, Time, Bool, Int, Str, TRef, TOpt, TDict, TTup, TList, TSet
from .base import WORLD, TimeOpt, is_none, strip_none

S = "finam.schedule"
IntS, BoolS = sv.IntS, sv.BoolS

# ------------------------------------------------------------------------------------------------
# spec vocabulary over the link graph (property level, see DESIGN 3: Req / Ready)
# ------------------------------------------------------------------------------------------------
CLSOF = z3.Function("clsof", IntS, IntS)


def isa(cname, x):
    return z3.Function(f"isa_{cname}", IntS, BoolS)(CLSOF(x))


SRC = lambda ctx, x: strip_none(ctx.get(x, "_source")).e          # source of an input element
WD = z3.Function("with_delay", IntS, IntS, IntS)                    # with_delay of a delay adapter (pure view)
NEEDS_PUSH = lambda ctx, x: ctx.get(x, "$needs_push").e
# result of continuing the upstream walk from element x with accumulated request time t
WR = z3.Function("Req.root", IntS, IntS, IntS)
WT = z3.Function("Req.time", IntS, IntS, IntS)
WN = z3.Function("Req.nodep", IntS, IntS, BoolS)
ROOTOF = z3.Function("rootof", IntS, IntS)
DEPTH = z3.Function("chain.depth", IntS, IntS)


def graph_classes(ex, path):
    for c in ("IInput", "IOutput", "IAdapter", "NoDependencyAdapter", "ITimeDelayAdapter", "ITimeComponent", "IComponent"):
        ex.cls_preds.add(c)


def walk_axioms(ctx):
    """definition of Req (DESIGN 3) as axioms over the current heap:
       walking upstream from an input, delays accumulate; a dependency-breaking adapter ends the
       dependency; from the first push-based (buffering) adapter on, only the root matters: the buffer is
       filled by notifications that carry the publication time, so delays further upstream give no credit"""
    x, t = z3.Ints("ax_x ax_t")
    s = SRC(ctx, x)
    inp = isa("IInput", x)
    nodep = isa("NoDependencyAdapter", s)
    delay = isa("ITimeDelayAdapter", s)
    t2 = If(delay, WD(s, t), t)
    pushb = And(isa("IAdapter", s), NEEDS_PUSH(ctx, s))
    pat = [WR(x, t)]
    # recursive cases unfold only at elements whose source was actually read (no matching loops)
    rpat = [z3.MultiPattern(WR(x, t), s)]
    return [
        z3.ForAll([x], Implies(Not(isa("IInput", x)), ROOTOF(x) == x), patterns=[ROOTOF(x)]),
        z3.ForAll([x], Implies(isa("IInput", x), ROOTOF(x) == ROOTOF(s)), patterns=[z3.MultiPattern(ROOTOF(x), s)]),
        z3.ForAll([x, t], Implies(Not(inp), And(WR(x, t) == x, WT(x, t) == t, Not(WN(x, t)))), patterns=pat),
        z3.ForAll([x, t], Implies(And(inp, nodep), And(WR(x, t) == s, WT(x, t) == t, WN(x, t))), patterns=rpat),
        z3.ForAll([x, t], Implies(And(inp, Not(nodep), pushb), And(WR(x, t) == ROOTOF(s), WT(x, t) == t2, Not(WN(x, t)))), patterns=rpat),
        z3.ForAll([x, t], Implies(And(inp, Not(nodep), Not(pushb)),
                                  And(WR(x, t) == WR(s, t2), WT(x, t) == WT(s, t2), WN(x, t) == WN(s, t2))), patterns=rpat),
        # well-formed link graph (established by linking + validation, C19): chains are finite
        z3.ForAll([x], Implies(isa("IInput", x), And(DEPTH(x) > DEPTH(s), DEPTH(s) >= 0)), patterns=[z3.MultiPattern(DEPTH(x), s)]),
    ]


def wf_graph(ctx):
    x = z3.Int("wf_x")
    return z3.ForAll([x], Implies(isa("IInput", x), And(Not(is_none(ctx.get(x, "_source"))), SRC(ctx, x) > 0)))


DepsT = TDict(TRef("IOutput"), TTup(Time, Bool))
OwnersT = TDict(TRef("IOutput"), TRef("IComponent"))


def dep_time(deps, r):
    v = deps.val(r)
    if isinstance(v, sv.SUnion):
        for _g, x in v.alts:
            if isinstance(x, sv.STup):
                v = x
                break
    if isinstance(v, sv.STup):
        return strip_none(v.items[0]).e
    return z3.Int("nodeps!dummy")  # the empty dict: never used (dom is false)


def inputs_of(ctx, c):
    return ctx.get(c, "$inputs")


def lagging(ctx, owners, r, t_req):
    """the root output r cannot serve a request for t_req yet"""
    o = owners.val(r).e
    return Or(Not(isa("ITimeComponent", o)), strip_none(ctx.get(r, "_time")).e < t_req)


def register(reg):
    reg.field("$inputs", TDict(Str, TRef("IInput")))
    reg.field("$outputs", TDict(Str, TRef("IOutput")))
    reg.field("$status", Int)
    reg.field("$ctime", TimeOpt)
    reg.field("$next_time", TimeOpt)
    reg.field("$updates", TList(TRef("IComponent")))

    from pyvc.contract import Contract as C
    reg.add(C("iface:IComponent.inputs", pure=True, verify=False, result_fn=lambda ctx: ctx.get(ctx.self, "$inputs")))
    reg.add(C("iface:IComponent.outputs", pure=True, verify=False, result_fn=lambda ctx: ctx.get(ctx.self, "$outputs")))
    reg.add(C("iface:IComponent.status", pure=True, verify=False, result_fn=lambda ctx: ctx.get(ctx.self, "$status")))
    reg.add(C("iface:ITimeComponent.time", pure=True, verify=False, result_fn=lambda ctx: ctx.get(ctx.self, "$ctime")))
    reg.add(C("iface:ITimeComponent.next_time", pure=True, verify=False, result_fn=lambda ctx: ctx.get(ctx.self, "$next_time")))
    reg.add(C("iface:IOutput.time", pure=True, verify=False, result_fn=lambda ctx: ctx.get(ctx.self, "_time")))
    reg.add(C("iface:ITimeDelayAdapter.with_delay", params={"time": Time}, note="method", pure=True, verify=False,
              result_fn=lambda ctx: sv.STime(WD(ctx.self.e, ctx.time.e)),
              requires=lambda ctx: z3.BoolVal(True)))

    # ------------------------------------------------------------------ _find_dependencies (C01.1, C02.1, C13.L)
    def fd_pre(ctx):
        comp = ctx.component
        owners = ctx.output_owners
        ins = inputs_of(ctx, comp)
        j = z3.Int("pre_j")
        t = ctx.target_time.e
        xj = ins.val(ins.keys.at(j).e).e
        r = WR(xj, t)
        roots_known = z3.ForAll([j], Implies(And(0 <= j, j < ins.keys.n),
                                             And(xj > 0, isa("IInput", xj),
                                                 Implies(Not(WN(xj, t)),
                                                         And(r > 0, Not(isa("IInput", r)), isa("IOutput", r), Not(isa("NoDependencyAdapter", r)),
                                                             Implies(Not(ctx.get(r, "$is_static").e),
                                                                     And(owners.dom(r), Not(is_none(ctx.get(r, "_time"))))))))))
        return And(wf_graph(ctx), roots_known)

    def covered(ctx, deps, owners, xj, t):
        """C01.1: what input xj needs is recorded (at least that late) unless it is already served"""
        r, tr = WR(xj, t), WT(xj, t)
        need = And(Not(WN(xj, t)), Not(ctx.get(r, "$is_static").e), lagging(ctx, owners, r, tr))
        return Implies(need, And(deps.dom(r), dep_time(deps, r) >= tr))

    def justified(ctx, deps, owners, ins, upto, t, r):
        """C02.1: a recorded dependency is the need of some input: same root, exactly its request time"""
        j = z3.Int("j!just")
        xj = ins.val(ins.keys.at(j).e).e
        return z3.Exists([j], And(0 <= j, j < upto, WR(xj, t) == r, Not(WN(xj, t)), Not(ctx.get(r, "$is_static").e),
                                  lagging(ctx, owners, r, WT(xj, t)), dep_time(deps, r) == WT(xj, t)))

    def fd_post(ctx, result):
        comp, owners = ctx.component, ctx.output_owners
        ins = inputs_of(ctx, comp)
        t = ctx.target_time.e
        j = z3.Int("post_j")
        r = z3.Int("post_r")
        xj = ins.val(ins.keys.at(j).e).e
        return And(z3.ForAll([j], Implies(And(0 <= j, j < ins.keys.n), covered(ctx, result, owners, xj, t))),
                   z3.ForAll([r], Implies(result.dom(r), justified(ctx, result, owners, ins, ins.keys.n, t, r))))

    def outer_inv(ctx):
        comp, owners = ctx.component, ctx.output_owners
        ins = inputs_of(ctx, comp)
        t = ctx.target_time.e
        deps = ctx.local("deps")
        j = z3.Int("inv_j")
        r = z3.Int("inv_r")
        xj = ins.val(ins.keys.at(j).e).e
        return And(z3.ForAll([j], Implies(And(0 <= j, j < ctx.k), covered(ctx, deps, owners, xj, t))),
                   z3.ForAll([r], Implies(deps.dom(r), justified(ctx, deps, owners, ins, ctx.k, t, r))))

    def inner_inv(ctx):
        comp = ctx.component
        ins = inputs_of(ctx, comp)
        t = ctx.target_time.e
        k_outer = ctx.ks[-2]
        x0 = ins.val(ins.keys.at(k_outer).e).e
        inp = ctx.local("inp")
        lt = ctx.local("local_time")
        e = strip_none(inp).e
        buffered = ctx.locals.get("buffered")
        walking = And(WR(e, lt.e) == WR(x0, t), WT(e, lt.e) == WT(x0, t), WN(e, lt.e) == WN(x0, t))
        if buffered is not None:
            # behind a push-based adapter only the root is still looked for
            frozen = And(ROOTOF(e) == WR(x0, t), lt.e == WT(x0, t), Not(WN(x0, t)))
            walking = If(buffered.e, frozen, walking)
        return And(Not(is_none(inp)), e > 0, walking, outer_inv_at(ctx, k_outer))

    def outer_inv_at(ctx, k):
        c2 = ctx
        saved = c2.k
        c2.k = k
        try:
            return outer_inv(c2)
        finally:
            c2.k = saved

    reg.add(Contract(
        f"{S}._find_dependencies", props=["C01.1", "C02.1", "C13.L"],
        params={"component": TRef("IComponent"), "output_owners": OwnersT, "target_time": Time},
        result=DepsT, requires=fd_pre, ensures=fd_post, modifies=lambda ctx: [], axioms=walk_axioms,
        loops={1: dict(invariant=outer_inv, locals={"deps": DepsT, "inp": TRef(None), "local_time": Time, "delayed": Bool, "buffered": Bool}),
               2: dict(invariant=inner_inv, decreases=lambda ctx: DEPTH(strip_none(ctx.local("inp")).e),
                       locals={"inp": TRef(None), "local_time": Time, "delayed": Bool, "buffered": Bool})},
    ))


ASSUMPTIONS = {"C01": ["link graph is well formed: every chain of inputs/adapters is finite and ends in an output (established by linking and Composition._validate_composition, decided in C19)",
                       "with_delay is seen as a pure function of (adapter, time) by the scheduler contract (DelayToPull's lazy initialisation keeps its effective history, C13.1)"]}
ASSUMPTIONS["C02"] = ASSUMPTIONS["C01"]
