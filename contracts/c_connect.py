"""Contracts for finam.tools.connect_helper.ConnectHelper (C06, C05)."""
import z3

from pyvc import sv
from pyvc.contract import Contract
from pyvc.sv import And, Or, Not, Implies, If, Bool, Int, Str, TRef, TOpt, TDict, TList, TTup, TObj, Time
from .base import WORLD, TimeOpt, is_none, strip_none

CH = "finam.tools.connect_helper.ConnectHelper"
StrS = sv.StrS
PAYOBJ = TObj("payload")
VALUE = z3.Function("payload.value", sv.OpaqueS, sv.RealS)
PushRec = TTup(TRef("IOutput"), TimeOpt, PAYOBJ)   # ghost push log entry: (output, time, payload object)


def fields(reg):
    f = reg.field
    f("_outputs", TDict(Str, TRef("IOutput")), "ConnectHelper")
    f("_inputs", TDict(Str, TRef("IInput")), "ConnectHelper")
    f("_pushed_infos", TDict(Str, Bool))
    f("_pushed_data", TDict(Str, Bool))
    f("_out_info_cache", TDict(Str, TRef("Info")))
    f("_in_info_cache", TDict(Str, TRef("Info")))
    f("_out_data_cache", TDict(Str, PAYOBJ))
    f("_exchanged_out_infos", TDict(Str, TOpt(TRef("Info"))))
    f("_exchanged_in_infos", TDict(Str, TOpt(TRef("Info"))))
    f("_pulled_data", TDict(Str, TOpt(sv.Pay)))
    f("_cache", Bool)
    f("$push_log", TList(PushRec))


def push_log(ctx):
    return ctx.get(WORLD, "$push_log")


def log_ext(ctx, recs):
    """the push log grew by exactly the records recs = [(out_e, time_sv, payload_e), ...]"""
    l0, l1 = push_log(ctx.old), push_log(ctx)
    i = z3.Int(sv.uid("pl"))
    parts = [l1.n == l0.n + len(recs), z3.ForAll([i], Implies(And(0 <= i, i < l0.n), sv.value_eq(l1.at(i), l0.at(i))))]
    for k, (o, t, d) in enumerate(recs):
        r = l1.at(l0.n + k)
        parts += [r.items[0].e == o, sv.value_eq(r.items[1], t), r.items[2].e == d]
    return And(*parts)


PAYOBJ_OF = z3.Function("payload_object", sv.RealS, sv.OpaqueS)    # the payload object that holds an element-wise value


def payobj(v):
    """log entry for a pushed payload, whichever view (object / element-wise value) the calling unit has of it"""
    e = v.e
    return e if e.sort() == sv.OpaqueS else PAYOBJ_OF(e)


def register(reg):
    fields(reg)
    RET = ["data", "_connected_inputs", "_total_mem", "$fexists"]

    # ---- IOutput.push_data / push_info (interface view used by the connect helper)
    reg.add(Contract("iface:IOutput.push_data", params={"data": PAYOBJ, "time": TimeOpt}, note="method", verify=False,
                     modifies=lambda ctx: [(None, f) for f in RET] + [(ctx.self, "_time"), (WORLD, "$push_log"), (WORLD, "$notify_log")],
                     ensures=lambda ctx, r: log_ext(ctx, [(ctx.self.e, ctx.time, payobj(ctx.data))]),
                     raises={"FinamNoDataError": lambda ctx: z3.BoolVal(True), "FinamDataError": lambda ctx: z3.BoolVal(True),
                             "FinamStaticDataError": lambda ctx: z3.BoolVal(True)},
                     raise_frame_empty=True))
    reg.add(Contract("iface:IOutput.push_info", params={"info": TRef("Info")}, note="method", verify=False,
                     modifies=lambda ctx: [(ctx.self, "_output_info")],
                     ensures=lambda ctx, r: And(Not(is_none(ctx.get(ctx.self, "_output_info"))),
                                                strip_none(ctx.get(ctx.self, "_output_info")).e == ctx.info.e)))

    # ------------------------------------------------------------------ _push_data (C06.2)
    def pd_pre(ctx):
        s = ctx.self
        n = ctx.name.e
        return And(ctx.get(s, "ConnectHelper._outputs").dom(n), ctx.get(s, "ConnectHelper._outputs").val(n).e > 0, ctx.get(s, "_out_data_cache").dom(n),
                   ctx.get(s, "_pushed_data").dom(n))

    def pd_post(ctx, r):
        s = ctx.self
        n = ctx.name.e
        c0 = ctx.old
        out = c0.get(s, "ConnectHelper._outputs").val(n).e
        static = c0.get(out, "$is_static").e
        d = ctx.data.e
        l0, l1 = push_log(c0), push_log(ctx)
        two = Not(sv.value_eq(ctx.info_time, ctx.time))
        d2 = l1.at(l0.n + 1).items[2].e
        k = z3.Const(sv.uid("pk"), StrS)
        pd0, pd1 = c0.get(s, "_pushed_data"), ctx.get(s, "_pushed_data")
        ca0, ca1 = c0.get(s, "_out_data_cache"), ctx.get(s, "_out_data_cache")
        pushes = If(static, log_ext(ctx, [(out, sv.NONE, d)]),
                    If(two,
                       # first for the composition start, then for the producer's own start with a distinct copy
                       And(log_ext(ctx, [(out, ctx.time, d), (out, ctx.info_time, d2)]), d2 != d, VALUE(d2) == VALUE(d)),
                       log_ext(ctx, [(out, ctx.info_time, d)])))
        book = And(pd1.dom(n), pd1.val(n).e,
                   z3.ForAll([k], Implies(k != n, And(pd1.dom(k) == pd0.dom(k), pd1.val(k).e == pd0.val(k).e))),
                   z3.ForAll([k], ca1.dom(k) == And(k != n, ca0.dom(k))),
                   z3.ForAll([k], Implies(ca1.dom(k), ca1.val(k).e == ca0.val(k).e)))
        return And(pushes, book)

    reg.add(Contract(
        f"{CH}._push_data", self_cls="ConnectHelper", props=["C06.2"],
        params={"name": Str, "data": PAYOBJ, "time": TimeOpt, "info_time": TimeOpt},
        requires=pd_pre, ensures=pd_post,
        modifies=lambda ctx: [(None, f) for f in RET + ["_time"]] + [(WORLD, "$push_log"), (WORLD, "$notify_log"),
                                                                     (ctx.self, "_pushed_data"), (ctx.self, "_out_data_cache")],
        raises={"FinamNoDataError": lambda ctx: z3.BoolVal(True), "FinamDataError": lambda ctx: z3.BoolVal(True),
                "FinamStaticDataError": lambda ctx: z3.BoolVal(True)},
    ))


_reg0 = register


def register(reg):  # noqa: F811
    _reg0(reg)
    register_push(reg)
    register_connect(reg)
    register_connect2(reg)
    register_output_info(reg)


def install(ex):
    def copy_copy(ex, path, args, kwargs, node):
        x = args[0]
        if isinstance(x, sv.SObj) and x.okind == "payload":
            e2 = z3.Const(sv.uid("copy"), sv.OpaqueS)
            path.assume(And(e2 != x.e, VALUE(e2) == VALUE(x.e)))   # assumed: copy.copy of an array is a new object with equal values
            return sv.SObj(e2, "payload")
        return None

    def copy_model(ex, path, args, kwargs, node):
        r = copy_copy(ex, path, args, kwargs, node)
        if r is None:
            from pyvc.path import Unsupported
            raise Unsupported("copy.copy of this value", node)
        return r

    ex.ext_models["copy.copy"] = copy_model


# =================================================================================================
# ConnectHelper._push (C06.1: progress is reported exactly when something new was pushed)
# =================================================================================================
def register_push(reg):
    RET = ["data", "_connected_inputs", "_total_mem", "$fexists"]
    OUTS = "ConnectHelper._outputs"

    def maps(ctx):
        s = ctx.self
        return (ctx.get(s, "_pushed_infos"), ctx.get(s, "_pushed_data"), ctx.get(s, "_out_info_cache"), ctx.get(s, "_out_data_cache"))

    def helper_inv(ctx):
        """data-structure invariant of the helper (established by __init__, kept by connect): the book-keeping maps
        cover the names they are asked for"""
        s = ctx.self
        pi, pd, ic, dc = maps(ctx)
        outs = ctx.get(s, OUTS)
        oi = ctx.get(s, "_exchanged_out_infos")
        k = z3.Const(sv.uid("hk"), StrS)
        return And(z3.ForAll([k], Implies(ic.dom(k), And(pi.dom(k), outs.dom(k)))),
                   z3.ForAll([k], Implies(dc.dom(k), And(pd.dom(k), pi.dom(k), outs.dom(k), oi.dom(k)))),
                   z3.ForAll([k], Implies(outs.dom(k), outs.val(k).e > 0)))

    def new_info(ctx, k):
        return And(ctx.get(ctx.self, "_pushed_infos").val(k).e, Not(ctx.old.get(ctx.self, "_pushed_infos").val(k).e))

    def new_data(ctx, k):
        return And(ctx.get(ctx.self, "_pushed_data").val(k).e, Not(ctx.old.get(ctx.self, "_pushed_data").val(k).e))

    def something_new(ctx):
        k = z3.Const("k!new", StrS)
        pi0 = ctx.old.get(ctx.self, "_pushed_infos")
        pd0 = ctx.old.get(ctx.self, "_pushed_data")
        return z3.Exists([k], Or(And(pi0.dom(k), new_info(ctx, k)), And(pd0.dom(k), new_data(ctx, k))))

    def monotone(ctx):
        s = ctx.self
        k = z3.Const(sv.uid("mk"), StrS)
        pi0, pd0, ic0, dc0 = maps(ctx.old)
        pi1, pd1, ic1, dc1 = maps(ctx)
        return And(z3.ForAll([k], And(pi1.dom(k) == pi0.dom(k), Implies(And(pi0.dom(k), pi0.val(k).e), pi1.val(k).e))),
                   z3.ForAll([k], And(pd1.dom(k) == pd0.dom(k), Implies(And(pd0.dom(k), pd0.val(k).e), pd1.val(k).e))),
                   # what becomes pushed was waiting in the caches
                   z3.ForAll([k], Implies(And(pi0.dom(k), new_info(ctx, k)), ic0.dom(k))),
                   z3.ForAll([k], Implies(And(pd0.dom(k), new_data(ctx, k)),
                                          And(dc0.dom(k), pi1.val(k).e, Not(is_none(ctx.old.get(s, "_exchanged_out_infos").val(k)))))),
                   helper_inv(ctx))

    def push_post(ctx, r):
        return And(r.e == something_new(ctx), monotone(ctx), all_attempted(ctx))

    def all_attempted(ctx):
        """nothing that could be pushed was left in the caches"""
        s = ctx.self
        k = z3.Const(sv.uid("ak"), StrS)
        pi0, pd0, ic0, dc0 = maps(ctx.old)
        pi1, pd1, ic1, dc1 = maps(ctx)
        oi = ctx.old.get(s, "_exchanged_out_infos")
        return And(z3.ForAll([k], Implies(ic0.dom(k), pi1.val(k).e)),
                   z3.ForAll([k], Implies(And(dc0.dom(k), Not(pd0.val(k).e), pi1.val(k).e, Not(is_none(oi.val(k)))), pd1.val(k).e)))

    def inv1(ctx):
        """first loop (infos): the snapshot list `seq` of (name, info) pairs of the info cache is being processed"""
        s = ctx.self
        seq = ctx.seq
        j = z3.Int(sv.uid("ij"))
        k = z3.Const(sv.uid("ik"), StrS)
        pi0, pd0, ic0, dc0 = maps(ctx.old)
        pi1, pd1, ic1, dc1 = maps(ctx)
        nm = lambda q: seq.at(q).items[0].e
        done = lambda kk: z3.Exists([j], And(0 <= j, j < ctx.k, nm(j) == kk))
        any_done = ctx.local("any_done").e
        snapshot = And(z3.ForAll([j], Implies(And(0 <= j, j < seq.n), And(ic0.dom(nm(j)), seq.at(j).items[1].e == ic0.val(nm(j)).e))),
                       z3.ForAll([k], Implies(ic0.dom(k), z3.Exists([j], And(0 <= j, j < seq.n, nm(j) == k)))))
        return And(
            snapshot,
            z3.ForAll([k], And(pi1.dom(k) == pi0.dom(k),
                               Implies(pi0.dom(k), pi1.val(k).e == Or(pi0.val(k).e, done(k))))),
            any_done == z3.Exists([j], And(0 <= j, j < ctx.k, Not(pi0.val(nm(j)).e))),
            # names in the snapshot are distinct; entries not visited yet are still cached
            z3.ForAll([j, z3.Int("ij2")], Implies(And(0 <= j, j < z3.Int("ij2"), z3.Int("ij2") < seq.n), nm(j) != nm(z3.Int("ij2")))),
            z3.ForAll([j], Implies(And(ctx.k <= j, j < seq.n), ic1.dom(nm(j)))),
            # data book-keeping untouched so far
            z3.ForAll([k], And(pd1.dom(k) == pd0.dom(k), Implies(pd0.dom(k), pd1.val(k).e == pd0.val(k).e))),
            z3.ForAll([k], And(dc1.dom(k) == dc0.dom(k), Implies(dc0.dom(k), dc1.val(k).e == dc0.val(k).e))),
            helper_inv(ctx),
        )

    def inv2(ctx):
        """second loop (data): snapshot of the data cache"""
        s = ctx.self
        seq = ctx.seq
        j = z3.Int(sv.uid("dj"))
        k = z3.Const(sv.uid("dk"), StrS)
        pi0, pd0, ic0, dc0 = maps(ctx.old)
        pi1, pd1, ic1, dc1 = maps(ctx)
        oi = ctx.old.get(s, "_exchanged_out_infos")
        nm = lambda q: seq.at(q).items[0].e
        pushable = lambda kk: And(Not(pd0.val(kk).e), pi1.val(kk).e, Not(is_none(oi.val(kk))))
        done = lambda kk: z3.Exists([j], And(0 <= j, j < ctx.k, nm(j) == kk, pushable(kk)))
        any_done = ctx.local("any_done").e
        snapshot = And(z3.ForAll([j], Implies(And(0 <= j, j < seq.n), dc0.dom(nm(j)))),
                       z3.ForAll([k], Implies(dc0.dom(k), z3.Exists([j], And(0 <= j, j < seq.n, nm(j) == k)))),
                       z3.ForAll([j, z3.Int("dj2")], Implies(And(0 <= j, j < z3.Int("dj2"), z3.Int("dj2") < seq.n), nm(j) != nm(z3.Int("dj2")))))
        infos_final = And(z3.ForAll([k], And(pi1.dom(k) == pi0.dom(k), Implies(And(pi0.dom(k), pi0.val(k).e), pi1.val(k).e))),
                          z3.ForAll([k], Implies(And(pi0.dom(k), new_info(ctx, k)), ic0.dom(k))),
                          z3.ForAll([k], Implies(ic0.dom(k), pi1.val(k).e)))
        new_infos = z3.Exists([k], And(pi0.dom(k), new_info(ctx, k)))
        return And(
            snapshot, infos_final,
            z3.ForAll([k], And(pd1.dom(k) == pd0.dom(k), Implies(pd0.dom(k), pd1.val(k).e == Or(pd0.val(k).e, done(k))))),
            any_done == Or(new_infos, z3.Exists([j], And(0 <= j, j < ctx.k, pushable(nm(j))))),
            # cache entries of names not yet visited are still there (needed to pop them)
            z3.ForAll([j], Implies(And(ctx.k <= j, j < seq.n), dc1.dom(nm(j)))),
            helper_inv(ctx),
        )

    reg.add(Contract(
        f"{CH}._push", self_cls="ConnectHelper", props=["C06.1", "C05.1", "C04.4"], params={"time": TimeOpt}, result=Bool,
        requires=helper_inv, ensures=push_post,
        modifies=lambda ctx: [(None, f) for f in RET + ["_time", "_output_info"]] +
        [(WORLD, "$push_log"), (WORLD, "$notify_log"), (ctx.self, "_pushed_data"), (ctx.self, "_out_data_cache"),
         (ctx.self, "_pushed_infos"), (ctx.self, "_out_info_cache")],
        raises={"FinamNoDataError": lambda ctx: z3.BoolVal(True), "FinamDataError": lambda ctx: z3.BoolVal(True),
                "FinamStaticDataError": lambda ctx: z3.BoolVal(True)},
        loops={1: dict(invariant=inv1, locals={"any_done": Bool}), 2: dict(invariant=inv2, locals={"any_done": Bool})},
    ))


# =================================================================================================
# ConnectHelper._exchange_in_infos and connect (C06.1, C06.3, C05.1)
# =================================================================================================
def register_connect(reg):
    RET = ["data", "_connected_inputs", "_total_mem", "$fexists"]
    INS, OUTS = "ConnectHelper._inputs", "ConnectHelper._outputs"
    EXCH_FIELDS = ["_input_info", "_in_info_exchanged", "_transform", "_output_info", "_out_infos_exchanged", "$grid_filled"]

    reg.field("$grid_filled", Bool)

    # ---- slot interfaces as seen by the helper: an attempt either succeeds or raises FinamNoDataError with *nothing changed*
    reg.add(Contract("iface:IInput.info", pure=True, verify=False, result_fn=lambda ctx: ctx.get(ctx.self, "_input_info")))
    reg.add(Contract("iface:IInput.exchange_info", params={"info": TOpt(TRef("Info"))}, defaults={"info": sv.NONE}, note="method", result=TRef("Info"), verify=False,
                     modifies=lambda ctx: [(None, f) for f in EXCH_FIELDS],
                     ensures=lambda ctx, r: r.e > 0,
                     raises={"FinamNoDataError": lambda ctx: z3.BoolVal(True), "FinamMetaDataError": lambda ctx: z3.BoolVal(True)},
                     raise_frame_empty=True))
    reg.add(Contract("iface:IOutput.info", result=TRef("Info"), verify=False, pure=True,
                     ensures=lambda ctx, r: r.e > 0, raises={"FinamNoDataError": lambda ctx: z3.BoolVal(True)}, raise_frame_empty=True))
    from .base import pull_log as _pl
    from .c_components import PULLV

    def ipd_post(ctx, r):
        l0, l1 = _pl(ctx.old), _pl(ctx)
        i = z3.Int(sv.uid("ip"))
        tgt = ctx.target
        eff = sv.ite(ctx.ex.truthy(tgt, ctx.path), tgt, ctx.self)
        rec = l1.at(l0.n)
        return And(l1.n == l0.n + 1, z3.ForAll([i], Implies(And(0 <= i, i < l0.n), sv.value_eq(l1.at(i), l0.at(i)))),
                   sv.value_eq(rec.items[1], ctx.time), sv.value_eq(rec.items[2], eff), r.e == PULLV(l0.n))

    reg.add(Contract("iface:IInput.pull_data", params={"time": TimeOpt, "target": TOpt(TRef("IInput"))}, defaults={"target": sv.NONE}, note="method",
                     result=sv.Pay, ensures=ipd_post,
                     verify=False, modifies=lambda ctx: [(None, f) for f in RET + ["_cached_data"]] + [(WORLD, "$pull_log")],
                     raises={"FinamNoDataError": lambda ctx: z3.BoolVal(True), "FinamTimeError": lambda ctx: z3.BoolVal(True),
                             "FinamDataError": lambda ctx: z3.BoolVal(True)},
                     raise_frame_empty=True))

    def ii(ctx):
        return ctx.get(ctx.self, "_exchanged_in_infos")

    def cache(ctx):
        return ctx.get(ctx.self, "_in_info_cache")

    def ins(ctx):
        return ctx.get(ctx.self, INS)

    def inv_in(ctx):
        k = z3.Const(sv.uid("nk"), StrS)
        return And(z3.ForAll([k], Implies(ii(ctx).dom(k), And(ins(ctx).dom(k), ins(ctx).val(k).e > 0))),
                   z3.ForAll([k], Implies(cache(ctx).dom(k), ii(ctx).dom(k))))

    def newly(ctx, k):
        return And(ii(ctx.old).dom(k), is_none(ii(ctx.old).val(k)), Not(is_none(ii(ctx).val(k))))

    def ex_post(ctx, r):
        k = z3.Const("k!ex", StrS)
        k2 = z3.Const(sv.uid("xk"), StrS)
        i0, i1 = ii(ctx.old), ii(ctx)
        return And(
            r.e == z3.Exists([k], newly(ctx, k)),                                   # progress iff an input info was newly exchanged
            z3.ForAll([k2], And(i1.dom(k2) == i0.dom(k2),
                                Implies(And(i0.dom(k2), Not(is_none(i0.val(k2)))), sv.value_eq(i1.val(k2), i0.val(k2))))),   # monotone
            inv_in(ctx))

    def ex_inv1(ctx):
        seq = ctx.seq
        j = z3.Int(sv.uid("ej"))
        k = z3.Const(sv.uid("ek"), StrS)
        i0, i1 = ii(ctx.old), ii(ctx)
        nm = lambda q: seq.at(q).items[0].e
        any_done = ctx.local("any_done").e
        return And(
            z3.ForAll([j], Implies(And(0 <= j, j < seq.n), And(i0.dom(nm(j)), sv.value_eq(seq.at(j).items[1], i0.val(nm(j)))))),
            z3.ForAll([j, z3.Int("ej2")], Implies(And(0 <= j, j < z3.Int("ej2"), z3.Int("ej2") < seq.n), nm(j) != nm(z3.Int("ej2")))),
            z3.ForAll([k], Implies(i0.dom(k), z3.Exists([j], And(0 <= j, j < seq.n, nm(j) == k)))),
            z3.ForAll([k], And(i1.dom(k) == i0.dom(k),
                               Implies(And(i0.dom(k), Not(is_none(i0.val(k)))), sv.value_eq(i1.val(k), i0.val(k))))),
            # entries not visited yet are untouched
            z3.ForAll([j], Implies(And(ctx.k <= j, j < seq.n), sv.value_eq(i1.val(nm(j)), i0.val(nm(j))))),
            any_done == z3.Exists([j], And(0 <= j, j < ctx.k, is_none(i0.val(nm(j))), Not(is_none(i1.val(nm(j)))))),
            z3.ForAll([k], And(cache(ctx).dom(k) == cache(ctx.old).dom(k))),
            inv_in(ctx))

    def ex_inv2(ctx):
        seq = ctx.seq
        j = z3.Int(sv.uid("fj"))
        k = z3.Const(sv.uid("fk"), StrS)
        i0, i1 = ii(ctx.old), ii(ctx)
        nm = lambda q: seq.at(q).items[0].e
        any_done = ctx.local("any_done").e
        kk = z3.Const("k!ex2", StrS)
        return And(
            z3.ForAll([j], Implies(And(0 <= j, j < seq.n), i0.dom(nm(j)))),
            z3.ForAll([j, z3.Int("fj2")], Implies(And(0 <= j, j < z3.Int("fj2"), z3.Int("fj2") < seq.n), nm(j) != nm(z3.Int("fj2")))),
            z3.ForAll([k], And(i1.dom(k) == i0.dom(k),
                               Implies(And(i0.dom(k), Not(is_none(i0.val(k)))), sv.value_eq(i1.val(k), i0.val(k))))),
            any_done == z3.Exists([kk], newly(ctx, kk)),
            z3.ForAll([j], Implies(And(ctx.k <= j, j < seq.n), cache(ctx).dom(nm(j)))),
            z3.ForAll([k], Implies(cache(ctx).dom(k), i0.dom(k))),
            inv_in(ctx))

    reg.add(Contract(
        f"{CH}._exchange_in_infos", self_cls="ConnectHelper", props=["C06.1", "C05.1", "C04.4"], params={}, result=Bool,
        requires=inv_in, ensures=ex_post,
        modifies=lambda ctx: [(None, f) for f in EXCH_FIELDS] + [(ctx.self, "_exchanged_in_infos"), (ctx.self, "_in_info_cache")],
        raises={"FinamMetaDataError": lambda ctx: z3.BoolVal(True)},
        loops={1: dict(invariant=ex_inv1, locals={"any_done": Bool}), 2: dict(invariant=ex_inv2, locals={"any_done": Bool, "inf": TOpt(TRef("Info"))})},
    ))


def register_connect2(reg):
    RET = ["data", "_connected_inputs", "_total_mem", "$fexists"]
    INS, OUTS = "ConnectHelper._inputs", "ConnectHelper._outputs"
    EXCH_FIELDS = ["_input_info", "_in_info_exchanged", "_transform", "_output_info", "_out_infos_exchanged", "$grid_filled"]
    InfoDict = TDict(Str, TRef("Info"))
    reg.field("_in_info_rules", TDict(Str, TList(TObj("rule"))))
    reg.field("_out_info_rules", TDict(Str, TList(TObj("rule"))))

    S_ = lambda n: z3.IntVal(["CREATED", "INITIALIZED", "CONNECTING", "CONNECTING_IDLE", "CONNECTED", "VALIDATED", "UPDATED",
                              "FINISHED", "FINALIZED", "FAILED"].index(n))

    g = lambda ctx, f: ctx.get(ctx.self, f)
    MAPS = [("_exchanged_in_infos", "opt"), ("_exchanged_out_infos", "opt"), ("_pulled_data", "opt"), ("_pushed_infos", "bool"), ("_pushed_data", "bool")]

    def unset(m, kind, k):
        return is_none(m.val(k)) if kind == "opt" else Not(m.val(k).e)

    def outstanding(ctx):
        k = z3.Const("k!out", StrS)
        return z3.Exists([k], Or(*[And(g(ctx, f).dom(k), unset(g(ctx, f), kind, k)) for f, kind in MAPS]))

    def grew_in(ctx, f, kind, k):
        m0, m1 = g(ctx.old, f), g(ctx, f)
        return And(m0.dom(k), unset(m0, kind, k), Not(unset(m1, kind, k)))

    def grew(ctx, upto=None):
        k = z3.Const("k!grew", StrS)
        ms = MAPS if upto is None else MAPS[:upto]
        return z3.Exists([k], Or(*[grew_in(ctx, f, kind, k) for f, kind in ms]))

    def same_map(ctx, f, kind):
        m0, m1 = g(ctx.old, f), g(ctx, f)
        k = z3.Const(sv.uid("sm"), StrS)
        return z3.ForAll([k], And(m1.dom(k) == m0.dom(k), Implies(m0.dom(k), unset(m1, kind, k) == unset(m0, kind, k))))

    def monotone_map(ctx, f, kind):
        m0, m1 = g(ctx.old, f), g(ctx, f)
        k = z3.Const(sv.uid("mm"), StrS)
        return z3.ForAll([k], And(m1.dom(k) == m0.dom(k), Implies(And(m0.dom(k), Not(unset(m0, kind, k))), Not(unset(m1, kind, k)))))

    def helper_wf(ctx):
        """book-keeping maps cover the names they are asked for (established by __init__)"""
        k = z3.Const(sv.uid("wk"), StrS)
        ins, outs = g(ctx, INS), g(ctx, OUTS)
        ii, oi, pdi = g(ctx, "_exchanged_in_infos"), g(ctx, "_exchanged_out_infos"), g(ctx, "_pulled_data")
        pi, pd = g(ctx, "_pushed_infos"), g(ctx, "_pushed_data")
        ic, oc, dc = g(ctx, "_in_info_cache"), g(ctx, "_out_info_cache"), g(ctx, "_out_data_cache")
        return And(
            z3.ForAll([k], And(ii.dom(k) == ins.dom(k), Implies(ins.dom(k), ins.val(k).e > 0))),
            z3.ForAll([k], And(oi.dom(k) == outs.dom(k), pi.dom(k) == outs.dom(k), Implies(outs.dom(k), outs.val(k).e > 0))),
            z3.ForAll([k], Implies(pdi.dom(k), And(ii.dom(k), ins.dom(k)))),
            z3.ForAll([k], Implies(outs.dom(k), outs.val(k).e > 0)),
            z3.ForAll([k], Implies(ic.dom(k), ii.dom(k))),
            z3.ForAll([k], Implies(oc.dom(k), And(pi.dom(k), outs.dom(k)))),
            z3.ForAll([k], Implies(dc.dom(k), And(pd.dom(k), pi.dom(k), outs.dom(k), oi.dom(k)))),
            z3.ForAll([k], Implies(pd.dom(k), And(pi.dom(k), oi.dom(k)))),
        )

    # assumed: rule application yields infos only for names that still need one (decided natively by the C06 stand-in)
    for nm_, tgt in (("_apply_in_info_rules", "_exchanged_in_infos"), ("_apply_out_info_rules", "_pushed_infos")):
        reg.add(Contract(f"{CH}.{nm_}", self_cls="ConnectHelper", params={}, result=InfoDict, pure=True, verify=False,
                         ensures=lambda ctx, r, tgt=tgt: z3.ForAll([z3.Const("rk", StrS)], Implies(r.dom(z3.Const("rk", StrS)), ctx.get(ctx.self, tgt).dom(z3.Const("rk", StrS)))),
                         raises={"FinamMetaDataError": lambda ctx: z3.BoolVal(True)},
                         note="assumed: builds infos from transfer rules for names whose info is still missing; no effect on the book-keeping"))

    def names_known(ctx):
        k = z3.Const(sv.uid("ck"), StrS)
        ins, outs = g(ctx, INS), g(ctx, OUTS)
        return And(z3.ForAll([k], Implies(ctx.exchange_infos.dom(k), ins.dom(k))),
                   z3.ForAll([k], Implies(ctx.push_infos.dom(k), outs.dom(k))),
                   z3.ForAll([k], Implies(ctx.push_data.dom(k), outs.dom(k))))

    def cn_inv(which, field):
        def inv(ctx):
            seq = ctx.seq
            j = z3.Int(sv.uid("nj"))
            return z3.ForAll([j], Implies(And(0 <= j, j < ctx.k), g(ctx, field).dom(seq.at(j).e)))
        return inv

    reg.add(Contract(
        f"{CH}._check_names", self_cls="ConnectHelper", props=["C06.1"],
        params={"exchange_infos": InfoDict, "push_infos": InfoDict, "push_data": TDict(Str, PAYOBJ)},
        ensures=lambda ctx, r: names_known(ctx), modifies=lambda ctx: [], pure=True,
        raises={"KeyError": lambda ctx: Not(names_known(ctx))}, raise_frame_empty=True,
        loops={1: dict(invariant=cn_inv("exchange_infos", INS)),
               2: dict(invariant=lambda ctx: And(cn_inv("push_infos", OUTS)(ctx), z3.ForAll([z3.Const("c1", StrS)], Implies(ctx.exchange_infos.dom(z3.Const("c1", StrS)), g(ctx, INS).dom(z3.Const("c1", StrS)))))),
               3: dict(invariant=lambda ctx: And(cn_inv("push_data", OUTS)(ctx),
                                                 z3.ForAll([z3.Const("c1", StrS)], Implies(ctx.exchange_infos.dom(z3.Const("c1", StrS)), g(ctx, INS).dom(z3.Const("c1", StrS)))),
                                                 z3.ForAll([z3.Const("c2", StrS)], Implies(ctx.push_infos.dom(z3.Const("c2", StrS)), g(ctx, OUTS).dom(z3.Const("c2", StrS))))))},
    ))

    def status_post(ctx, r):
        return And(
            Or(r.e == S_("CONNECTED"), r.e == S_("CONNECTING"), r.e == S_("CONNECTING_IDLE")),
            (r.e == S_("CONNECTED")) == Not(outstanding(ctx)),                       # never connected while something is outstanding
            (r.e == S_("CONNECTING")) == And(outstanding(ctx), grew(ctx)),           # progress reported exactly when something new was exchanged
            *[monotone_map(ctx, f, kind) for f, kind in MAPS],
            helper_wf(ctx))

    def inv_a(ctx):
        """loop over out_infos: pulling the exchanged info of each output"""
        seq = ctx.seq
        j = z3.Int(sv.uid("aj"))
        f, kind = MAPS[1]
        m0, m1 = g(ctx.old, f), g(ctx, f)
        nm = lambda q: seq.at(q).items[0].e
        any_done = ctx.ex.truthy(ctx.local("any_done"), ctx.path)
        return And(
            z3.ForAll([j], Implies(And(0 <= j, j < seq.n), And(m0.dom(nm(j)), sv.value_eq(seq.at(j).items[1], m0.val(nm(j)))))),
            z3.ForAll([j, z3.Int("aj2")], Implies(And(0 <= j, j < z3.Int("aj2"), z3.Int("aj2") < seq.n), nm(j) != nm(z3.Int("aj2")))),
            z3.ForAll([z3.Const("ak", StrS)], Implies(m0.dom(z3.Const("ak", StrS)), z3.Exists([j], And(0 <= j, j < seq.n, nm(j) == z3.Const("ak", StrS))))),
            monotone_map(ctx, f, kind), monotone_map(ctx, MAPS[0][0], MAPS[0][1]),
            z3.ForAll([j], Implies(And(ctx.k <= j, j < seq.n), sv.value_eq(m1.val(nm(j)), m0.val(nm(j))))),
            any_done == grew(ctx, 2),
            same_map(ctx, MAPS[2][0], "opt"), same_map(ctx, MAPS[3][0], "bool"), same_map(ctx, MAPS[4][0], "bool"),
            helper_wf(ctx))

    def initial_pull_time(cc, argmap):
        t = argmap["time"]
        st_ = cc.start_time
        info = cc.local("info")
        own = cc.get(strip_none(info).e, "_time") if not isinstance(info, sv.SNone) else sv.NONE
        return If(is_none(st_), sv.value_eq(t, own), sv.value_eq(t, st_))

    def inv_b(ctx):
        """loop over in_data: initial pulls"""
        seq = ctx.seq
        j = z3.Int(sv.uid("bj"))
        f, kind = MAPS[2]
        m0, m1 = g(ctx.old, f), g(ctx, f)
        nm = lambda q: seq.at(q).items[0].e
        any_done = ctx.ex.truthy(ctx.local("any_done"), ctx.path)
        return And(
            z3.ForAll([j], Implies(And(0 <= j, j < seq.n), And(m0.dom(nm(j)), sv.value_eq(seq.at(j).items[1], m0.val(nm(j)))))),
            z3.ForAll([j, z3.Int("bj2")], Implies(And(0 <= j, j < z3.Int("bj2"), z3.Int("bj2") < seq.n), nm(j) != nm(z3.Int("bj2")))),
            z3.ForAll([z3.Const("bk", StrS)], Implies(m0.dom(z3.Const("bk", StrS)), z3.Exists([j], And(0 <= j, j < seq.n, nm(j) == z3.Const("bk", StrS))))),
            *[monotone_map(ctx, ff, kk) for ff, kk in MAPS],
            z3.ForAll([j], Implies(And(ctx.k <= j, j < seq.n), sv.value_eq(m1.val(nm(j)), m0.val(nm(j))))),
            any_done == grew(ctx),
            helper_wf(ctx))

    reg.add(Contract(
        f"{CH}.connect", self_cls="ConnectHelper", props=["C06.1", "C06.3", "C05.1", "C04.4"],
        params={"start_time": TimeOpt, "exchange_infos": TOpt(InfoDict), "push_infos": TOpt(InfoDict), "push_data": TOpt(TDict(Str, PAYOBJ))},
        result=Int, requires=helper_wf, ensures=status_post,
        modifies=lambda ctx: [(None, f) for f in EXCH_FIELDS + RET + ["_time", "_cached_data"]] +
        [(WORLD, "$push_log"), (WORLD, "$notify_log"), (WORLD, "$pull_log")] +
        [(ctx.self, f) for f in ["_exchanged_in_infos", "_exchanged_out_infos", "_pulled_data", "_pushed_infos", "_pushed_data",
                                 "_in_info_cache", "_out_info_cache", "_out_data_cache"]],
        raises={"FinamMetaDataError": lambda ctx: z3.BoolVal(True), "FinamTimeError": lambda ctx: z3.BoolVal(True),
                "FinamDataError": lambda ctx: z3.BoolVal(True), "FinamStaticDataError": lambda ctx: z3.BoolVal(True),
                "FinamNoDataError": lambda ctx: z3.BoolVal(True),
                "KeyError": lambda ctx: z3.BoolVal(True), "ValueError": lambda ctx: z3.BoolVal(True)},
        loops={1: dict(invariant=inv_a, locals={"any_done": Bool}), 2: dict(invariant=inv_b, locals={"any_done": Int})},
        # C06: initial pulls ask for the composition start time; the consumer's own info time only stands in when no start is given
        call_checks={"pull_data": initial_pull_time},
        max_paths=3000,
    ))


# =================================================================================================
# Output.info (C06.2 / C07.2): the output's info is handed out only after every registered end consumer exchanged
# =================================================================================================
def register_output_info(reg):
    OUTQ = "finam.sdk.output.Output"

    def incomplete(ctx):
        s = ctx.self
        c0 = ctx.old
        return Or(is_none(c0.get(s, "_output_info")),
                  And(c0.get(s, "_targets").n > 0,
                      c0.get(s, "_out_infos_exchanged").e < c0.get(s, "_connected_inputs").keys.n))

    for cls in ("Output", "CallbackOutput"):
        reg.add(Contract(
            f"{OUTQ}.info", self_cls=cls, props=["C06.2", "C07.2", "C05.1"], params={}, result=TOpt(TRef("Info")), pure=True, modifies=lambda ctx: [],
            raises={"FinamNoDataError": incomplete}, must_raise={"FinamNoDataError": incomplete}, raise_frame_empty=True,
            ensures=lambda ctx, r: {"the stored info": sv.value_eq(r, ctx.get(ctx.self, "_output_info")),
                                    "complete: every registered end consumer has exchanged (the condition push_data uses)": Not(incomplete(ctx))},
            name=f"info<{cls}>", primary=False,
        ))
