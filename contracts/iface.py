"""Interface contracts: what is known at dynamically dispatched call sites.

Implementations shipped with finam are verified against these where stated; user implementations
are assumed to satisfy them (listed as assumptions in the evidence)."""
import z3

from pyvc import sv
from pyvc.contract import Contract
from pyvc.sv import And, Or, Not, Implies, If, Bool, Str, Time, TOpt, TRef, TList, Pay
from .base import HistT, TimeOpt, suffix_of, RETENTION_FIELDS, WORLD


def register(reg):
    # ---- simple attributes of slots
    reg.add(Contract("iface:*.name", result=Str, pure=True, verify=False))
    reg.add(Contract("iface:IInput.source", pure=True, verify=False,
                     result_fn=lambda ctx: ctx.get(ctx.self, "_source")))
    reg.add(Contract("iface:IOutput.targets", pure=True, verify=False,
                     result_fn=lambda ctx: ctx.get(ctx.self, "_targets")))
    reg.add(Contract("iface:IOutput.is_static", pure=True, verify=False,
                     result_fn=lambda ctx: ctx.get(ctx.self, "$is_static")))
    reg.add(Contract("iface:IInput.is_static", pure=True, verify=False,
                     result_fn=lambda ctx: ctx.get(ctx.self, "$is_static")))
    reg.add(Contract("iface:*.needs_push", pure=True, verify=False,
                     result_fn=lambda ctx: ctx.get(ctx.self, "$needs_push")))
    reg.add(Contract("iface:*.needs_pull", pure=True, verify=False,
                     result_fn=lambda ctx: ctx.get(ctx.self, "$needs_pull")))

    # ---- Info (metadata object): read-only views used by the slot code
    from .base import TObj
    UNITS_KEY = z3.Const("str:units", sv.StrS)
    reg.add(Contract("iface:Info.units", pure=True, verify=False, result_fn=lambda ctx: ctx.get(ctx.self, "meta").val(UNITS_KEY),
                     note="Info.__getattr__: meta['units'] (always present, set by Info.__init__)"))
    reg.add(Contract("iface:Info.time", pure=True, verify=False, result_fn=lambda ctx: ctx.get(ctx.self, "_time")))
    reg.add(Contract("iface:Info.grid", pure=True, verify=False, result_fn=lambda ctx: ctx.get(ctx.self, "_grid")))
    reg.add(Contract("iface:Info.mask", pure=True, verify=False, result_fn=lambda ctx: ctx.get(ctx.self, "_mask")))
    reg.add(Contract("iface:Info.meta", pure=True, verify=False, result_fn=lambda ctx: ctx.get(ctx.self, "meta")))

    # ---- IInput.source_updated(time): a target may pull upstream (get_data), which only evicts:
    #      every buffer stays a suffix of what it was and keeps its newest entry
    def su_mod(ctx):
        return [(None, f) for f in RETENTION_FIELDS] + [(WORLD, "$notify_log")]

    def su_post(ctx, result):
        from .base import notify_log
        o = z3.Int(sv.uid("o"))
        d0 = ctx.old.get(o, "data")
        d1 = ctx.get(o, "data")
        l0, l1 = notify_log(ctx.old), notify_log(ctx)
        i = z3.Int(sv.uid("li"))
        logged = And(l1.n == l0.n + 1, z3.ForAll([i], Implies(And(0 <= i, i < l0.n), sv.value_eq(l1.at(i), l0.at(i)))),
                     sv.value_eq(l1.at(l0.n).items[0], ctx.self), sv.value_eq(l1.at(l0.n).items[1], ctx.time))
        return And(z3.ForAll([o], suffix_of(d1, d0), patterns=[d1.n]), logged)

    reg.add(Contract("iface:IInput.source_updated", params={"time": TimeOpt}, note="method", verify=False,
                     modifies=su_mod, ensures=su_post))
