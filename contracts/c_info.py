"""Contracts for metadata exchange (C07): Info.accepts, Output.get_info, Input.exchange_info, Adapter.get_info/exchange_info."""
import z3

from pyvc import sv
from pyvc.contract import Contract
from pyvc.sv import And, Or, Not, Implies, If, Bool, Int, Str, TRef, TOpt, TDict, TList, TTup, TObj
from .base import WORLD, TimeOpt, is_none, strip_none

INFO = "finam.data.tools.info.Info"
OUT = "finam.sdk.output.Output"
INP = "finam.sdk.input.Input"
GridT = TOpt(TRef("GridBase"))
MaskT = TOpt(TObj("mask"))
UnitsT = TOpt(TObj("units"))
MetaT = TDict(Str, TOpt(TObj("meta")))

# relations provided by other properties (only used through these symbols)
GC = z3.Function("grid_compatible", sv.IntS, sv.IntS, sv.BoolS)                 # self_grid.compatible_with(other_grid): C15.3
MC = z3.Function("masks_compatible", sv.OpaqueS, sv.OpaqueS, sv.BoolS, sv.IntS, sv.IntS, sv.BoolS)   # C18.3
UC = z3.Function("units_compatible", sv.OpaqueS, sv.OpaqueS, sv.BoolS)          # C17.1
NOMASK = z3.Const("mask:unset", sv.OpaqueS)
MSPEC = z3.Function("mask_specified", sv.OpaqueS, sv.BoolS)   # mask_specified(mask): an explicit mask array (or None), not Mask.FLEX / Mask.NONE


def ref_or0(v):
    """ref expression, 0 for None"""
    r = None
    for g, x in reversed(sv.alts_of(v)):
        e = z3.IntVal(0) if isinstance(x, sv.SNone) else x.e
        r = e if r is None else If(g, e, r)
    return r


def obj_or(v, dflt):
    r = None
    for g, x in reversed(sv.alts_of(v)):
        e = dflt if isinstance(x, sv.SNone) else x.e
        r = e if r is None else If(g, e, r)
    return r


def grid_of(ctx, i):
    return ctx.get(i, "_grid")


def mask_of(ctx, i):
    return ctx.get(i, "_mask")


def meta_of(ctx, i):
    return ctx.get(i, "meta")


UNITS_KEY = z3.Const("str:units", sv.StrS)


def units_of(ctx, i):
    return meta_of(ctx, i).val(UNITS_KEY)


def accepts_spec(ctx, me, inc, down):
    """C07.1: what `me.accepts(inc, downstream=down)` must answer"""
    g1, g2 = grid_of(ctx, me), grid_of(ctx, inc)
    m1, m2 = mask_of(ctx, me), mask_of(ctx, inc)
    u1, u2 = units_of(ctx, me), units_of(ctx, inc)
    grid_ok = Or(is_none(g1), GC(ref_or0(g1), ref_or0(g2)), And(down, is_none(g2)))
    mask_ok = Or(is_none(m1), MC(obj_or(m1, NOMASK), obj_or(m2, NOMASK), down, ref_or0(g1), ref_or0(g2)), And(down, is_none(m2)))
    units_ok = Or(is_none(u1), And(Not(is_none(u2)), UC(obj_or(u1, NOMASK), obj_or(u2, NOMASK))), And(down, is_none(u2)))
    return And(grid_ok, mask_ok, units_ok)


def register(reg):
    f = reg.field
    f("_grid", GridT)
    f("_mask", MaskT)
    f("meta", MetaT)

    reg.add(Contract("iface:GridBase.compatible_with", params={"other": GridT}, note="method", pure=True, verify=False,
                     result_fn=lambda ctx: sv.SBool(GC(ctx.self.e, ref_or0(ctx.other)))))
    reg.add(Contract("finam.data.tools.mask.masks_compatible",
                     params={"this": MaskT, "incoming": MaskT, "incoming_donwstream": Bool, "this_grid": GridT, "incoming_grid": GridT},
                     pure=True, verify=False,
                     result_fn=lambda ctx: sv.SBool(MC(obj_or(ctx.this, NOMASK), obj_or(ctx.incoming, NOMASK), ctx.incoming_donwstream.e,
                                                       ref_or0(ctx.this_grid), ref_or0(ctx.incoming_grid))),
                     note="relation MC, decided in C18.3"))
    reg.add(Contract("finam.data.tools.mask.mask_specified", params={"mask": MaskT}, pure=True, verify=False,
                     result_fn=lambda ctx: sv.SBool(MSPEC(obj_or(ctx.mask, NOMASK))), note="relation MSPEC, decided in C18.3"))
    reg.add(Contract("finam.data.tools.units.compatible_units", params={"unit1": UnitsT, "unit2": UnitsT}, pure=True, verify=False,
                     result_fn=lambda ctx: sv.SBool(UC(obj_or(ctx.unit1, NOMASK), obj_or(ctx.unit2, NOMASK))),
                     note="relation UC (same dimension), decided in C17.1"))

    # ------------------------------------------------------------------ Info.accepts (C07.1)
    def acc_post(ctx, r):
        return And(r.e == accepts_spec(ctx, ctx.self.e, ctx.incoming.e, ctx.incoming_donwstream.e))

    reg.add(Contract(
        f"{INFO}.accepts", self_cls="Info", props=["C07.1"],
        params={"incoming": TRef("Info"), "fail_info": TDict(Str, TTup(TObj("any"), TObj("any"))), "incoming_donwstream": Bool}, result=Bool,
        ensures=acc_post, modifies=lambda ctx: [("arg", "fail_info")], pure=False,
    ))


_reg0 = register


def register(reg):  # noqa: F811
    _reg0(reg)
    register_get_info(reg)
    register_exchange(reg)
    register_adapter_info(reg)


def install(ex):
    # Info.__getattr__: attributes that are not class members are looked up in `meta`
    def info_meta_attr(ex, base, attr, path, node):
        if isinstance(base, sv.SRef) and base.cls == "Info" and attr in ("units",):
            meta = path.heap_get(ex, base, "meta")
            key = ex.const(attr)
            # invariant of Info (established by __init__, kept by copy_with): meta always has the key "units"
            path.assume(meta.dom(key.e))
            return meta.val(key.e)
        return None

    ex.hooks.setdefault("getattr_ref", []).append(info_meta_attr)


# =================================================================================================
# Output.get_info (C07.2)
# =================================================================================================
def register_get_info(reg):
    reg.closed_classes.add("Info")
    PairT = TTup(TObj("any"), TObj("any"))

    def oi(ctx):
        return strip_none(ctx.get(ctx.self, "_output_info")).e

    def time_of(ctx, i):
        return ctx.get(i, "_time")

    def meta_conflict(ctx):
        """some extra metadata entry is unset on both sides"""
        c0 = ctx.old
        k = z3.Const("k!meta", sv.StrS)
        mo, mi = meta_of(c0, oi(c0)), meta_of(c0, ctx.info.e)
        return z3.Exists([k], And(mo.dom(k), is_none(mo.val(k)), Or(Not(mi.dom(k)), is_none(mi.val(k)))))

    def gi_nodata(ctx):
        return is_none(ctx.old.get(ctx.self, "_output_info"))

    def gi_meta(ctx):
        c0 = ctx.old
        o, i = oi(c0), ctx.info.e
        return And(Not(gi_nodata(ctx)),
                   Or(Not(accepts_spec(c0, o, i, z3.BoolVal(True))),
                      And(is_none(grid_of(c0, o)), is_none(grid_of(c0, i))),
                      And(is_none(time_of(c0, o)), is_none(time_of(c0, i)), Not(c0.get(ctx.self, "_static").e)),
                      meta_conflict(ctx)))

    def filled(old_v, new_v, req_v):
        """monotone fill: a set field is kept, an unset one takes the requested value"""
        return If(is_none(old_v), sv.value_eq(new_v, req_v), sv.value_eq(new_v, old_v))

    def gi_post(ctx, r):
        c0 = ctx.old
        o, i = oi(c0), ctx.info.e
        k = z3.Const(sv.uid("mk"), sv.StrS)
        m0, m1, mi = meta_of(c0, o), meta_of(ctx, o), meta_of(c0, i)
        return And(
            Not(is_none(r)), strip_none(r).e == o, oi(ctx) == o,
            filled(grid_of(c0, o), grid_of(ctx, o), grid_of(c0, i)), Not(is_none(grid_of(ctx, o))),
            filled(time_of(c0, o), time_of(ctx, o), time_of(c0, i)),
            sv.value_eq(mask_of(ctx, o), mask_of(c0, o)),
            z3.ForAll([k], And(m1.dom(k) == m0.dom(k),
                               Implies(m0.dom(k), If(is_none(m0.val(k)), And(sv.value_eq(m1.val(k), mi.val(k)), Not(is_none(m1.val(k)))),
                                                     sv.value_eq(m1.val(k), m0.val(k)))))),
            ctx.get(ctx.self, "_out_infos_exchanged").e == c0.get(ctx.self, "_out_infos_exchanged").e + 1,
        )

    def gi_inv(ctx):
        c0 = ctx.old
        o, i = oi(c0), ctx.info.e
        seq = ctx.seq
        j = z3.Int(sv.uid("gj"))
        k = z3.Const(sv.uid("gk"), sv.StrS)
        m0, m1, mi = meta_of(c0, o), meta_of(ctx, o), meta_of(c0, i)
        nm = lambda q: seq.at(q).items[0].e
        done = lambda kk: z3.Exists([j], And(0 <= j, j < ctx.k, nm(j) == kk))
        return And(
            oi(ctx) == o,
            z3.ForAll([j], Implies(And(0 <= j, j < seq.n), And(m0.dom(nm(j)), sv.value_eq(seq.at(j).items[1], m0.val(nm(j)))))),
            z3.ForAll([j, z3.Int("gj2")], Implies(And(0 <= j, j < z3.Int("gj2"), z3.Int("gj2") < seq.n), nm(j) != nm(z3.Int("gj2")))),
            z3.ForAll([k], Implies(m0.dom(k), z3.Exists([j], And(0 <= j, j < seq.n, nm(j) == k)))),
            z3.ForAll([k], And(m1.dom(k) == m0.dom(k),
                               Implies(m0.dom(k), If(And(is_none(m0.val(k)), done(k)),
                                                     And(sv.value_eq(m1.val(k), mi.val(k)), Not(is_none(m1.val(k)))),
                                                     sv.value_eq(m1.val(k), m0.val(k)))))),
            # no conflict among the entries visited so far
            z3.ForAll([j], Implies(And(0 <= j, j < ctx.k, is_none(m0.val(nm(j)))), And(mi.dom(nm(j)), Not(is_none(mi.val(nm(j))))))),
            filled(grid_of(c0, o), grid_of(ctx, o), grid_of(c0, i)), Not(is_none(grid_of(ctx, o))),
            filled(time_of(c0, o), time_of(ctx, o), time_of(c0, i)),
            sv.value_eq(mask_of(ctx, o), mask_of(c0, o)),
            accepts_spec(c0, o, i, z3.BoolVal(True)),
            Or(Not(is_none(time_of(c0, o))), Not(is_none(time_of(c0, i))), c0.get(ctx.self, "_static").e),
            ctx.get(ctx.self, "_out_infos_exchanged").e == c0.get(ctx.self, "_out_infos_exchanged").e,
        )

    reg.add(Contract(
        f"{OUT}.get_info", self_cls="Output", props=["C07.2", "C05.1"], params={"info": TRef("Info")}, result=TOpt(TRef("Info")),
        requires=lambda ctx: And(ctx.info.e > 0, Implies(Not(is_none(ctx.get(ctx.self, "_output_info"))),
                                                          And(oi(ctx) > 0, oi(ctx) != ctx.info.e))),
        ensures=gi_post,
        modifies=lambda ctx: [(oi(ctx), "_grid"), (oi(ctx), "_time"), (oi(ctx), "meta"), (ctx.self, "_out_infos_exchanged")],
        raises={"FinamNoDataError": gi_nodata, "FinamMetaDataError": gi_meta},
        must_raise={"FinamNoDataError": gi_nodata, "FinamMetaDataError": gi_meta},
        loops={1: dict(invariant=gi_inv)},
        fields={},
    ))


# =================================================================================================
# Input.exchange_info (C07.3), Info.copy_with (assumed), interfaces
# =================================================================================================
GT = z3.Function("grid_transform_to", sv.IntS, sv.IntS, sv.OpaqueS)     # value of src_grid.get_transform_to(dst_grid)
GEQ = z3.Function("grid_equal", sv.IntS, sv.IntS, sv.BoolS)             # src_grid == dst_grid (same layout)


def relation_axioms():
    """properties of the relations decided elsewhere (C15.3, C17.1) that the link argument uses"""
    a, b = z3.Ints("ra rb")
    u = z3.Const("ru", sv.OpaqueS)
    return [z3.ForAll([a], Implies(a != 0, GC(a, a))),
            z3.ForAll([a, b], GC(a, b) == GC(b, a)),
            z3.ForAll([u], UC(u, u))]


def register_exchange(reg):
    time_of = lambda ctx, i: ctx.get(i, "_time")

    all_set = ALL_SET

    # ---- IOutput.get_info as seen from the consumer side (Output.get_info verified above refines it; adapters: C07.4)
    reg.field("$delivered_info", TRef("Info"))
    reg.add(Contract("iface:IOutput.get_info", params={"info": TRef("Info")}, note="method", result=TRef("Info"), verify=False,
                     modifies=lambda ctx: [(None, f) for f in ("_grid", "_time", "meta", "_mask", "_out_infos_exchanged", "_output_info",
                                                               "_input_info", "_in_info_exchanged", "_transform", "initial_time", "$delivered_info")],
                     ensures=lambda ctx, r: And(r.e > 0, r.e != ctx.info.e, all_set(ctx, r.e),
                                                # ghost: the info this source delivered last (names it for the consumer's contract)
                                                ctx.get(ctx.self, "$delivered_info").e == r.e,
                                                # the request object itself is not modified
                                                sv.value_eq(grid_of(ctx, ctx.info.e), grid_of(ctx.old, ctx.info.e)),
                                                sv.value_eq(time_of(ctx, ctx.info.e), time_of(ctx.old, ctx.info.e)),
                                                sv.value_eq(mask_of(ctx, ctx.info.e), mask_of(ctx.old, ctx.info.e)),
                                                same_meta(ctx, ctx.info.e, ctx.old, ctx.info.e)),
                     raises={"FinamNoDataError": lambda ctx: z3.BoolVal(True), "FinamMetaDataError": lambda ctx: z3.BoolVal(True)},
                     raise_frame_empty=True))

    def same_meta(c1, i1, c0, i0):
        k = z3.Const(sv.uid("sk"), sv.StrS)
        m1, m0 = meta_of(c1, i1), meta_of(c0, i0)
        return z3.ForAll([k], And(m1.dom(k) == m0.dom(k), Implies(m0.dom(k), sv.value_eq(m1.val(k), m0.val(k)))))

    reg.add(Contract("iface:GridBase.get_transform_to", params={"other": GridT}, note="method", pure=True, verify=False,
                     result_fn=lambda ctx: sv.opt(GEQ(ctx.self.e, ref_or0(ctx.other)), sv.SObj(GT(ctx.self.e, ref_or0(ctx.other)), "transform")),
                     raises={"ValueError": lambda ctx: Not(GC(ctx.self.e, ref_or0(ctx.other)))}))

    # ---- Info.copy_with(use_none=False, time=, grid=, **meta): assumed (constructor of a new Info)
    def cw_result(ctx):
        return sv.SRef(z3.Int(sv.uid("newinfo")), "Info")

    def cw_post(ctx, r):
        me = ctx.self.e
        kw = ctx.kwargs.payload
        rest = kw.get("$kwargs")
        t_kw, g_kw, m_kw = kw.get("time", sv.NONE), kw.get("grid", sv.NONE), kw.get("mask", sv.NONE)
        c0 = ctx.old
        k = z3.Const(sv.uid("cw"), sv.StrS)
        o = z3.Int(sv.uid("co"))
        mr, ms = meta_of(ctx, r.e), meta_of(c0, me)
        use_none = ctx.use_none.e
        # explicitly named meta keywords (e.g. units=...) next to the **meta dictionary
        named = {kn: kv for kn, kv in kw.items() if kn not in ("time", "grid", "mask", "$kwargs", "use_none")}
        taken = lambda v: Or(use_none, Not(is_none(v)))          # a value is taken over unless it is None and use_none is off

        def given(kk):
            g = And(rest.dom(kk), taken(rest.val(kk))) if rest is not None else z3.BoolVal(False)
            for kn, kv in named.items():
                g = Or(g, And(kk == sv.const_str(kn).e, taken(kv)))
            return g

        def given_val_eq(kk):
            """the copy's value under key kk is the given one"""
            e = sv.value_eq(mr.val(kk), rest.val(kk)) if rest is not None else z3.BoolVal(True)
            for kn, kv in named.items():
                e = If(kk == sv.const_str(kn).e, sv.value_eq(mr.val(kk), kv), e)
            return e

        parts = [r.e > 0, r.e != me,
                 If(Not(taken(t_kw)) if "time" in kw else z3.BoolVal(True),
                    sv.value_eq(ctx.get(r.e, "_time"), c0.get(me, "_time")), sv.value_eq(ctx.get(r.e, "_time"), t_kw)),
                 If(Not(taken(g_kw)) if "grid" in kw else z3.BoolVal(True),
                    sv.value_eq(grid_of(ctx, r.e), grid_of(c0, me)), sv.value_eq(grid_of(ctx, r.e), g_kw)),
                 If(Not(taken(m_kw)) if "mask" in kw else z3.BoolVal(True),
                    sv.value_eq(mask_of(ctx, r.e), mask_of(c0, me)), sv.value_eq(mask_of(ctx, r.e), m_kw)),
                 z3.ForAll([k], And(mr.dom(k) == Or(ms.dom(k), given(k)),
                                    Implies(mr.dom(k), If(given(k), given_val_eq(k), sv.value_eq(mr.val(k), ms.val(k)))))),
                 # nothing else changes
                 z3.ForAll([o], Implies(o != r.e, And(sv.value_eq(grid_of(ctx, o), grid_of(c0, o)), sv.value_eq(ctx.get(o, "_time"), c0.get(o, "_time")),
                                                      sv.value_eq(mask_of(ctx, o), mask_of(c0, o)), same_meta(ctx, o, c0, o))))]
        return And(*parts)

    reg.add(Contract(f"{INFO}.copy_with", self_cls="Info", params={"use_none": Bool}, verify=False, result_fn=cw_result,
                     defaults={"use_none": sv.SBool(z3.BoolVal(True))},
                     modifies=lambda ctx: [(None, f) for f in ("_grid", "_time", "_mask", "meta")], ensures=cw_post,
                     note="assumed (covered by the bounded stand-in bnd_info.py): a new Info; a keyword overrides the copied value unless it is None and use_none is off"))

    # ---- Input.exchange_info
    def ii(ctx):
        return ctx.get(ctx.self, "_input_info")

    def req_info(ctx):
        """the request: the argument, or the info the input was declared with"""
        c0 = ctx.old
        return If(is_none(ctx.info), ref_or0(ii(c0)), ref_or0(ctx.info))

    def ei_bad_args(ctx):
        c0 = ctx.old
        return Or(c0.get(ctx.self, "_in_info_exchanged").e,
                  And(Not(is_none(ii(c0))), Not(is_none(ctx.info))), And(is_none(ii(c0)), is_none(ctx.info)))

    def ei_post(ctx, r):
        c0 = ctx.old
        req = req_info(ctx)
        new = strip_none(ii(ctx)).e
        k = z3.Const(sv.uid("ek"), sv.StrS)
        mreq, mnew = meta_of(c0, req), meta_of(ctx, new)
        tr = ctx.get(ctx.self, "_transform")
        return And(
            Not(is_none(r)), strip_none(r).e == new, Not(is_none(ii(ctx))), ctx.get(ctx.self, "_in_info_exchanged").e,
            # no unset field; requested values are kept
            Not(is_none(grid_of(ctx, new))),
            z3.ForAll([k], Implies(mnew.dom(k), Not(is_none(mnew.val(k))))),
            Implies(Not(is_none(grid_of(c0, req))), sv.value_eq(grid_of(ctx, new), grid_of(c0, req))),
            Implies(Not(is_none(c0.get(req, "_time"))), sv.value_eq(ctx.get(new, "_time"), c0.get(req, "_time"))),
            z3.ForAll([k], Implies(And(mreq.dom(k), Not(is_none(mreq.val(k)))), And(mnew.dom(k), sv.value_eq(mnew.val(k), mreq.val(k))))),
            # a consumer that fixed its mask (an explicit mask, not FLEX / NONE) ends up with exactly that mask
            Implies(And(Not(is_none(mask_of(c0, req))), MSPEC(obj_or(mask_of(c0, req), NOMASK))),
                    sv.value_eq(mask_of(ctx, new), mask_of(c0, req))),
            # the stored transformation leads from the grid the source delivered to the grid of the completed input info
            # (C15.4 / C08: applied to every pulled data set; None exactly for equal layouts)
            transform_from_delivered(ctx, tr, new),
        )

    def transform_from_delivered(ctx, tr, new):
        src = strip_none(ctx.old.get(ctx.self, "_source")).e
        dg = ref_or0(grid_of(ctx, ctx.get(src, "$delivered_info").e))
        ng = ref_or0(grid_of(ctx, new))
        return sv.value_eq(tr, sv.opt(GEQ(dg, ng), sv.SObj(GT(dg, ng), "transform")))

    reg.add(Contract(
        f"{INP}.exchange_info", self_cls="Input", props=["C07.3", "C15.4", "C05.1", "C08.5"], params={"info": TOpt(TRef("Info"))},
        result=TOpt(TRef("Info")),
        requires=lambda ctx: And(Not(is_none(ctx.get(ctx.self, "_source"))), Implies(Not(is_none(ctx.info)), strip_none(ctx.info).e > 0),
                                 Implies(Not(is_none(ii(ctx))), strip_none(ii(ctx)).e > 0)),
        ensures=ei_post, axioms=lambda ctx: relation_axioms(),
        modifies=lambda ctx: [(None, f) for f in ("_grid", "_time", "meta", "_mask", "_out_infos_exchanged", "_output_info", "_input_info",
                                                  "_in_info_exchanged", "_transform", "initial_time", "$delivered_info")],
        raises={"FinamNoDataError": lambda ctx: z3.BoolVal(True), "FinamMetaDataError": lambda ctx: z3.BoolVal(True)},
        must_raise={"FinamMetaDataError": ei_bad_args},
    ))


# =================================================================================================
# Adapter.exchange_info / get_info, TimeDelayAdapter.get_info (C07.4)
# =================================================================================================
def ALL_SET(ctx, i):
    """no unset field: grid set, every meta value set, units present"""
    k = z3.Const(sv.uid("ak"), sv.StrS)
    m = meta_of(ctx, i)
    return And(Not(is_none(grid_of(ctx, i))), ref_or0(grid_of(ctx, i)) > 0,
               z3.ForAll([k], Implies(m.dom(k), Not(is_none(m.val(k))))), m.dom(UNITS_KEY))


def register_adapter_info(reg):
    AD = "finam.sdk.adapter"
    MODS = lambda ctx: [(None, f) for f in ("_grid", "_time", "meta", "_mask", "_out_infos_exchanged", "_output_info", "_input_info",
                                            "_in_info_exchanged", "_transform", "initial_time", "$delivered_info")]

    def fwd_post(ctx, r, delay=False):
        a = ctx.self
        out_i, in_i = ctx.get(a, "_output_info"), ctx.get(a, "_input_info")
        post = And(r.e > 0, Not(is_none(out_i)), strip_none(out_i).e == r.e)
        if delay:
            post = And(post, sv.value_eq(ctx.get(a, "initial_time"), ctx.get(r.e, "_time")))
        return post

    def ex_post(ctx, r):
        a = ctx.self
        out_i, in_i = ctx.get(a, "_output_info"), ctx.get(a, "_input_info")
        return And(r.e > 0, Not(is_none(out_i)), strip_none(out_i).e == r.e, Not(is_none(in_i)), strip_none(in_i).e == r.e,
                   ALL_SET(ctx, r.e))       # what the source delivered has no unset field

    pre = lambda ctx: Not(is_none(ctx.get(ctx.self, "_source")))
    R = {"FinamNoDataError": lambda ctx: z3.BoolVal(True), "FinamMetaDataError": lambda ctx: z3.BoolVal(True)}
    reg.add(Contract(f"{AD}.Adapter.exchange_info", self_cls="Adapter", props=["C07.4", "C05.1"], params={"info": TOpt(TRef("Info"))},
                     result=TRef("Info"), requires=pre, ensures=ex_post, modifies=MODS, raises=R,
                     must_raise={"FinamMetaDataError": lambda ctx: is_none(ctx.info)}))
    reg.add(Contract(f"{AD}.Adapter.get_info", self_cls="Adapter", props=["C07.4"], params={"info": TRef("Info")},
                     result=TRef("Info"), requires=pre, ensures=lambda ctx, r: fwd_post(ctx, r), modifies=MODS, raises=R))
    reg.add(Contract(f"{AD}.TimeDelayAdapter.get_info", self_cls="TimeDelayAdapter", props=["C07.4", "C13.2"], params={"info": TRef("Info")},
                     result=TRef("Info"), requires=pre, ensures=lambda ctx, r: fwd_post(ctx, r, True), modifies=MODS, raises=R))


BOUNDED = {"C07": [{"name": "metadata-products", "script": "replay/drivers/bnd_info.py", "args": ["--json"], "timeout": 600}]}
REPLAY = {"finam.data.tools.info.Info.copy_with": "bnd_info.py", "finam.data.tools.info.Info.accepts": "bnd_info.py",
          "finam.sdk.input.Input.exchange_info": "bnd_info.py", "finam.sdk.output.Output.get_info": "bnd_info.py"}
