"""Contracts for finam.data.grid_base.StructuredGrid: canonical form and conversion between layouts (C15)."""
import z3

from pyvc import sv, arr
from pyvc.arr import SArr
from pyvc.contract import Contract
from pyvc.path import Unsupported
from pyvc.sv import And, Or, Not, Implies, If, Bool, Int, Real, Str, TRef, TOpt, TList, TTup, TObj

G = "finam.data.grid_base"
SG = f"{G}.StructuredGrid"
DIMS = (1, 2, 3)


# ---- ghost description of a structured grid: sizes along the physical axes x,y,z of the *data* (cells or points), flags
def nphys(ctx, g, k):
    return ctx.get(g, f"$n{k}").e


def inc(ctx, g, k):
    return ctx.get(g, f"$inc{k}").e


def rev(ctx, g):
    return ctx.get(g, "$axes_reversed").e


def gdim(ctx, g):
    return ctx.get(g, "$dim").e


def layout_index(ctx, g, d, c):
    """index in the grid's data layout of the value located at canonical (x,y,z) index c"""
    cp = [If(inc(ctx, g, k), c[k], nphys(ctx, g, k) - 1 - c[k]) for k in range(d)]
    r = rev(ctx, g)
    return [If(r, cp[d - 1 - k], cp[k]) for k in range(d)]


def data_shape_spec(ctx, g, d):
    r = rev(ctx, g)
    return [If(r, nphys(ctx, g, d - 1 - k), nphys(ctx, g, k)) for k in range(d)]


def canon_shape(ctx, g, d):
    return [nphys(ctx, g, k) for k in range(d)]


def register(reg):
    f = reg.field
    for k in range(3):
        f(f"$n{k}", Int)
        f(f"$inc{k}", Bool)
    f("$axes_reversed", Bool)
    f("$dim", Int)

    for d in DIMS:
        _register_dim(reg, d)


def _register_dim(reg, d):
    tag = f"<d={d}>"

    def grid_wf(ctx, g):
        return And(gdim(ctx, g) == d, *[nphys(ctx, g, k) >= 1 for k in range(d)])

    # abstract properties of StructuredGrid as views of the ghost description
    def prop(name, fn, ty=None):
        reg.add(Contract(f"{SG}.{name}", self_cls="StructuredGrid", pure=True, verify=False, result_fn=fn, name=f"{name}{tag}",
                         primary=(d == 3), note="abstract property: view of the ghost layout description"))

    if d == 3:
        # (registered once; the values depend on $dim at run time only through the tuples built below)
        pass

    def axes_increase_fn(ctx):
        g = ctx.self
        return sv.STup([sv.SBool(inc(ctx, g, k)) for k in range(d)])

    def data_shape_fn(ctx):
        g = ctx.self
        return sv.STup([sv.SInt(e) for e in data_shape_spec(ctx, g, d)])

    # per-dimension units use per-dimension property contracts through `fields` trick: the unit sets $dim == d in its requires,
    # the property contracts are selected by the unit (see `props_for`)
    PROPS[d] = {
        "axes_reversed": lambda ctx: sv.SBool(rev(ctx, ctx.self)),
        "axes_increase": axes_increase_fn,
        "data_shape": data_shape_fn,
        "dim": lambda ctx: sv.SInt(z3.IntVal(d)),
    }

    def data_arr(name, extra=0):
        return arr.fresh_arr(name, d + extra, "real")

    # ------------------------------------------------------------------ to_canonical
    def tc_bad(ctx):
        g = ctx.self
        a = ctx.data
        ds = data_shape_spec(ctx.old, g, d)
        return Not(And(*[a.shape[k] == ds[k] for k in range(d)]))

    def tc_post(ctx, r):
        g = ctx.self
        a = ctx.data
        cs = canon_shape(ctx, g, d)
        c = [z3.Int(f"c{k}") for k in range(d)]
        j = layout_index(ctx, g, d, c)
        return And(z3.BoolVal(isinstance(r, SArr) and r.rank == d),
                   *[r.shape[k] == cs[k] for k in range(d)],
                   z3.ForAll(c, Implies(arr.in_box(cs, c), r.at(tuple(c)) == a.at(tuple(j)))))

    reg.add(Contract(
        f"{SG}.to_canonical", self_cls="StructuredGrid", props=["C15.1"], params={"data": data_arr("A")},
        requires=lambda ctx: grid_wf(ctx, ctx.self), ensures=tc_post, modifies=lambda ctx: [], pure=True,
        raises={"ValueError": tc_bad}, must_raise={"ValueError": tc_bad}, raise_frame_empty=True,
        name=f"to_canonical{tag}", primary=False,
    ))

    # ------------------------------------------------------------------ from_canonical
    def fc_bad(ctx):
        g = ctx.self
        a = ctx.data
        cs = canon_shape(ctx.old, g, d)
        return Not(And(*[a.shape[k] == cs[k] for k in range(d)]))

    def fc_post(ctx, r):
        g = ctx.self
        a = ctx.data
        cs = canon_shape(ctx, g, d)
        ds = data_shape_spec(ctx, g, d)
        c = [z3.Int(f"c{k}") for k in range(d)]
        j = layout_index(ctx, g, d, c)
        return And(z3.BoolVal(isinstance(r, SArr) and r.rank == d),
                   *[r.shape[k] == ds[k] for k in range(d)],
                   z3.ForAll(c, Implies(arr.in_box(cs, c), r.at(tuple(j)) == a.at(tuple(c)))))

    reg.add(Contract(
        f"{SG}.from_canonical", self_cls="StructuredGrid", props=["C15.1"], params={"data": data_arr("A")},
        requires=lambda ctx: grid_wf(ctx, ctx.self), ensures=fc_post, modifies=lambda ctx: [], pure=True,
        raises={"ValueError": fc_bad}, must_raise={"ValueError": fc_bad}, raise_frame_empty=True,
        name=f"from_canonical{tag}", primary=False,
    ))


PROPS = {}


def install(ex):
    # ---- numpy models on SArr (assumed index-map laws, see pyvc/arr.py)
    def np_shape(ex, path, args, kwargs, node):
        a = args[0]
        if isinstance(a, SArr):
            return sv.STup([sv.SInt(n) for n in a.shape])
        if isinstance(a, sv.STup):
            return sv.STup([sv.SInt(z3.IntVal(len(a.items)))])
        raise Unsupported(f"np.shape({a})", node)

    def np_ndim(ex, path, args, kwargs, node):
        a = args[0]
        if isinstance(a, SArr):
            return sv.SInt(z3.IntVal(a.rank))
        raise Unsupported(f"np.ndim({a})", node)

    def np_array_equal(ex, path, args, kwargs, node):
        a, b = args
        if isinstance(a, sv.STup) and isinstance(b, sv.STup):
            if len(a.items) != len(b.items):
                return sv.SBool(z3.BoolVal(False))
            return sv.SBool(And(*[sv.value_eq(x, y) for x, y in zip(a.items, b.items)]))
        raise Unsupported(f"np.array_equal({a}, {b})", node)

    def np_transpose(ex, path, args, kwargs, node):
        return arr.transpose(ex.expect(args[0], SArr, path, node))

    def np_flip(ex, path, args, kwargs, node):
        a = ex.expect(args[0], SArr, path, node)
        ax = kwargs.get("axis") or (args[1] if len(args) > 1 else None)
        k = sv.simp(ax.e)
        if not z3.is_int_value(k):
            raise Unsupported("np.flip with symbolic axis", node)
        return arr.flip(a, k.as_long())

    for nm, fn in (("shape", np_shape), ("ndim", np_ndim), ("array_equal", np_array_equal), ("transpose", np_transpose), ("flip", np_flip)):
        ex.ext_models[f"numpy.{nm}"] = fn
        ex.pure_ext.add(f"np.{nm}")

    # abstract properties of StructuredGrid: resolved by the unit's dimension (contract name carries <d=k>)
    def sg_props(ex, ref, attr, path, node):
        if isinstance(ref, sv.SRef) and ref.cls == "StructuredGrid":
            c = ex.cur_contract
            d = getattr(c, "grid_dim", None) if c is not None else None
            if d is None and c is not None and "<d=" in c.name:
                d = int(c.name.split("<d=")[1][0])
            if d is not None and attr in PROPS[d]:
                from pyvc.contract import Ctx
                return PROPS[d][attr](Ctx(ex, path, {"self": ref}))
        return None

    ex.hooks.setdefault("getattr_ref", []).append(sg_props)


# =================================================================================================
# RectilinearGrid: memoised data_shape / data_size follow the data location (C14.3)
# =================================================================================================
SHAPE_OF = z3.Function("shape_for_location", sv.IntS, sv.IntS, sv.OpaqueS)   # StructuredGrid.data_shape for (grid, location)
SIZE_OF = z3.Function("size_for_location", sv.IntS, sv.IntS, sv.IntS)


def none_or_eq(v, expr):
    """the optional value is None or equals expr"""
    return Or(*[(g if isinstance(x, sv.SNone) else And(g, x.e == expr)) for g, x in sv.alts_of(v)])


def some_eq(v, expr):
    """the optional value is set and equals expr"""
    return Or(*[And(g, x.e == expr) for g, x in sv.alts_of(v) if not isinstance(x, sv.SNone)])


def register_memo(reg):
    RG = "finam.data.grid_spec.RectilinearGrid"
    f = reg.field
    f("_data_location", Int)
    f("_data_shape", TOpt(TObj("shape")), "RectilinearGrid")
    f("_data_size", TOpt(Int), "RectilinearGrid")
    DS, DZ = "RectilinearGrid._data_shape", "RectilinearGrid._data_size"

    def memo_inv(ctx, g):
        loc = ctx.get(g, "_data_location").e
        ds, dz = ctx.get(g, DS), ctx.get(g, DZ)
        return And(none_or_eq(ds, SHAPE_OF(g.e, loc)), none_or_eq(dz, SIZE_OF(g.e, loc)))

    # the un-memoised values (StructuredGrid.data_shape / Grid.data_size): functions of the grid and its *current* location
    reg.add(Contract(f"{SG}.data_shape", self_cls="RectilinearGrid", pure=True, verify=False,
                     result_fn=lambda ctx: sv.SObj(SHAPE_OF(ctx.self.e, ctx.get(ctx.self, "_data_location").e), "shape"),
                     note="value of the parent property: decided by the bounded stand-in bnd_grids.py (C14.2)"))
    reg.add(Contract(f"{G}.Grid.data_size", self_cls="RectilinearGrid", pure=True, verify=False,
                     result_fn=lambda ctx: sv.SInt(SIZE_OF(ctx.self.e, ctx.get(ctx.self, "_data_location").e))))
    reg.add(Contract("finam.data.grid_spec._check_location", params={"grid": TRef("RectilinearGrid"), "data_location": Int}, pure=True,
                     verify=False, result_fn=lambda ctx: ctx.data_location, raises={"ValueError": lambda ctx: z3.BoolVal(True)},
                     note="assumed: returns the location if it is valid for the grid class, else ValueError"))

    from .base import is_none, strip_none
    reg.add(Contract(
        f"{RG}.data_shape", self_cls="RectilinearGrid", props=["C14.3"], params={}, result=TOpt(TObj("shape")),
        requires=lambda ctx: memo_inv(ctx, ctx.self),
        ensures=lambda ctx, r: And(some_eq(r, SHAPE_OF(ctx.self.e, ctx.get(ctx.self, "_data_location").e)), memo_inv(ctx, ctx.self)),
        modifies=lambda ctx: [(ctx.self, DS), (ctx.self, DZ)],
    ))
    reg.add(Contract(
        f"{RG}.data_size", self_cls="RectilinearGrid", props=["C14.3"], params={}, result=TOpt(Int),
        requires=lambda ctx: memo_inv(ctx, ctx.self),
        ensures=lambda ctx, r: And(some_eq(r, SIZE_OF(ctx.self.e, ctx.get(ctx.self, "_data_location").e)), memo_inv(ctx, ctx.self)),
        modifies=lambda ctx: [(ctx.self, DS), (ctx.self, DZ)],
    ))
    reg.add(Contract(
        f"{RG}.data_location.setter", self_cls="RectilinearGrid", props=["C14.3"], params={"data_location": Int},
        requires=lambda ctx: memo_inv(ctx, ctx.self),
        ensures=lambda ctx, r: And(ctx.get(ctx.self, "_data_location").e == ctx.data_location.e, memo_inv(ctx, ctx.self)),
        modifies=lambda ctx: [(ctx.self, "_data_location"), (ctx.self, DS), (ctx.self, DZ)],
        raises={"ValueError": lambda ctx: z3.BoolVal(True)}, name="data_location.setter",
    ))


_reg_base = register


def register(reg):  # noqa: F811
    _reg_base(reg)
    register_memo(reg)


_BG = {"name": "grid-layouts", "script": "replay/drivers/bnd_grids.py", "args": ["--json"], "timeout": 3000}
BOUNDED = {"C14": [_BG], "C15": [_BG]}
REPLAY = {f"{SG}.to_canonical": "bnd_grids.py", f"{SG}.from_canonical": "bnd_grids.py",
          "finam.data.grid_spec.RectilinearGrid.data_shape": "bnd_grids.py", "finam.data.grid_spec.RectilinearGrid.data_size": "bnd_grids.py",
          "finam.data.grid_spec.RectilinearGrid.data_location.setter": "bnd_grids.py"}
