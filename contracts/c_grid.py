"""Contracts for finam.data.grid_base.StructuredGrid: canonical form and conversion between layouts (C15)."""
import z3

from pyvc import sv, arr
from pyvc.arr import SArr
from pyvc.contract import Contract
from pyvc.path import Unsupported
from pyvc.sv import And, Or, Not, Implies, If, Bool, Int, Real, Str, TRef, TOpt, TList, TTup, TObj

G = "finam.data.grid_base"
SG = f"{G}.StructuredGrid"
DIMS = (1, 2, 3)


# ---- ghost description of a structured grid: sizes along the physical axes x,y,z of the *data* (cells or points), flags
def nphys(ctx, g, k):
    return ctx.get(g, f"$n{k}").e


def inc(ctx, g, k):
    return ctx.get(g, f"$inc{k}").e


def rev(ctx, g):
    return ctx.get(g, "$axes_reversed").e


def gdim(ctx, g):
    return ctx.get(g, "$dim").e


def layout_index(ctx, g, d, c):
    """index in the grid's data layout of the value located at canonical (x,y,z) index c"""
    cp = [If(inc(ctx, g, k), c[k], nphys(ctx, g, k) - 1 - c[k]) for k in range(d)]
    r = rev(ctx, g)
    return [If(r, cp[d - 1 - k], cp[k]) for k in range(d)]


def data_shape_spec(ctx, g, d):
    r = rev(ctx, g)
    return [If(r, nphys(ctx, g, d - 1 - k), nphys(ctx, g, k)) for k in range(d)]


def canon_shape(ctx, g, d):
    return [nphys(ctx, g, k) for k in range(d)]


def register(reg):
    f = reg.field
    for k in range(3):
        f(f"$n{k}", Int)
        f(f"$inc{k}", Bool)
    f("$axes_reversed", Bool)
    f("$dim", Int)

    for d in DIMS:
        _register_dim(reg, d)


def _register_dim(reg, d):
    tag = f"<d={d}>"

    # abstract properties of StructuredGrid as views of the ghost description
    def prop(name, fn, ty=None):
        reg.add(Contract(f"{SG}.{name}", self_cls="StructuredGrid", pure=True, verify=False, result_fn=fn, name=f"{name}{tag}",
                         primary=(d == 3), note="abstract property: view of the ghost layout description"))

    if d == 3:
        # (registered once; the values depend on $dim at run time only through the tuples built below)
        pass

    def axes_increase_fn(ctx):
        g = ctx.self
        return sv.STup([sv.SBool(inc(ctx, g, k)) for k in range(d)])

    def data_shape_fn(ctx):
        g = ctx.self
        return sv.STup([sv.SInt(e) for e in data_shape_spec(ctx, g, d)])

    # per-dimension units use per-dimension property contracts through `fields` trick: the unit sets $dim == d in its requires,
    # the property contracts are selected by the unit (see `props_for`)
    PROPS[d] = {
        "axes_reversed": lambda ctx: sv.SBool(rev(ctx, ctx.self)),
        "axes_increase": axes_increase_fn,
        "data_shape": data_shape_fn,
        "dim": lambda ctx: sv.SInt(z3.IntVal(d)),
    }

    def data_arr(name, extra=0):
        return arr.fresh_arr(name, d + extra, "real")

    reg.add(Contract(
        f"{SG}.to_canonical", self_cls="StructuredGrid", props=["C15.1"], params={"data": data_arr("A")},
        requires=lambda ctx: grid_wf(ctx, ctx.self, d), ensures=lambda ctx, r: tc_post(ctx, r, d), modifies=lambda ctx: [], pure=True,
        raises={"ValueError": lambda ctx: tc_bad(ctx, d)}, must_raise={"ValueError": lambda ctx: tc_bad(ctx, d)}, raise_frame_empty=True,
        name=f"to_canonical{tag}", primary=False,
    ))
    reg.add(Contract(
        f"{SG}.from_canonical", self_cls="StructuredGrid", props=["C15.1"], params={"data": data_arr("A")},
        requires=lambda ctx: grid_wf(ctx, ctx.self, d), ensures=lambda ctx, r: fc_post(ctx, r, d), modifies=lambda ctx: [], pure=True,
        raises={"ValueError": lambda ctx: fc_bad(ctx, d)}, must_raise={"ValueError": lambda ctx: fc_bad(ctx, d)}, raise_frame_empty=True,
        name=f"from_canonical{tag}", primary=False,
    ))


def grid_wf(ctx, g, d):
    return And(gdim(ctx, g) == d, *[nphys(ctx, g, k) >= 1 for k in range(d)])


# ------------------------------------------------------------------ to_canonical
def tc_bad(ctx, d):
    g = ctx.self
    a = ctx.data
    ds = data_shape_spec(ctx.old, g, d)
    return Not(And(*[a.shape[k] == ds[k] for k in range(d)]))


def tc_post(ctx, r, d):
    g = ctx.self
    a = ctx.data
    cs = canon_shape(ctx, g, d)
    c = [z3.Int(f"c{k}") for k in range(d)]
    j = layout_index(ctx, g, d, c)
    return And(z3.BoolVal(isinstance(r, SArr) and r.rank == d),
               *[r.shape[k] == cs[k] for k in range(d)],
               z3.ForAll(c, Implies(arr.in_box(cs, c), r.at(tuple(c)) == a.at(tuple(j)))))


# ------------------------------------------------------------------ from_canonical
def fc_bad(ctx, d):
    g = ctx.self
    a = ctx.data
    cs = canon_shape(ctx.old, g, d)
    return Not(And(*[a.shape[k] == cs[k] for k in range(d)]))


def fc_post(ctx, r, d):
    g = ctx.self
    a = ctx.data
    cs = canon_shape(ctx, g, d)
    ds = data_shape_spec(ctx, g, d)
    c = [z3.Int(f"c{k}") for k in range(d)]
    j = layout_index(ctx, g, d, c)
    return And(z3.BoolVal(isinstance(r, SArr) and r.rank == d),
               *[r.shape[k] == ds[k] for k in range(d)],
               z3.ForAll(c, Implies(arr.in_box(cs, c), r.at(tuple(j)) == a.at(tuple(c)))))


def register_canonical_callers(reg):
    """caller-facing contracts of to_canonical / from_canonical: the per-dimension contracts verified above (C15.1),
    instantiated at the (concrete) rank of the array passed at the call site"""
    def rk(ctx):
        a = ctx.data
        if not (isinstance(a, SArr) and a.rank in DIMS):
            raise Unsupported(f"to/from_canonical on {a}")
        return a.rank

    for nm, post, bad in (("to_canonical", tc_post, tc_bad), ("from_canonical", fc_post, fc_bad)):
        reg.add(Contract(
            f"{SG}.{nm}", self_cls="StructuredGrid", params={"data": None}, verify=False,
            requires=lambda ctx: grid_wf(ctx, ctx.self, rk(ctx)),
            result_fn=lambda ctx: arr.fresh_arr(sv.uid("CAN"), rk(ctx), ctx.data.dtype),
            ensures=lambda ctx, r, post=post: post(ctx, r, rk(ctx)), modifies=lambda ctx: [], pure=True,
            raises={"ValueError": lambda ctx, bad=bad: bad(ctx, rk(ctx))}, must_raise={"ValueError": lambda ctx, bad=bad: bad(ctx, rk(ctx))},
            raise_frame_empty=True, name=nm,
            note="caller-facing instance of the per-dimension contracts verified for d=1..3",
        ))


PROPS = {}


def install(ex):
    # ---- numpy models on SArr (assumed index-map laws, see pyvc/arr.py)
    def np_shape(ex, path, args, kwargs, node):
        a = args[0]
        if isinstance(a, SArr):
            return sv.STup([sv.SInt(n) for n in a.shape])
        if isinstance(a, sv.STup):
            return sv.STup([sv.SInt(z3.IntVal(len(a.items)))])
        raise Unsupported(f"np.shape({a})", node)

    def np_ndim(ex, path, args, kwargs, node):
        a = args[0]
        if isinstance(a, SArr):
            return sv.SInt(z3.IntVal(a.rank))
        raise Unsupported(f"np.ndim({a})", node)

    def np_array_equal(ex, path, args, kwargs, node):
        a, b = args
        if isinstance(a, sv.STup) and isinstance(b, sv.STup):
            if len(a.items) != len(b.items):
                return sv.SBool(z3.BoolVal(False))
            return sv.SBool(And(*[sv.value_eq(x, y) for x, y in zip(a.items, b.items)]))
        raise Unsupported(f"np.array_equal({a}, {b})", node)

    def np_transpose(ex, path, args, kwargs, node):
        return arr.transpose(ex.expect(args[0], SArr, path, node))

    def np_flip(ex, path, args, kwargs, node):
        a = ex.expect(args[0], SArr, path, node)
        ax = kwargs.get("axis") or (args[1] if len(args) > 1 else None)
        k = sv.simp(ax.e)
        if not z3.is_int_value(k):
            raise Unsupported("np.flip with symbolic axis", node)
        return arr.flip(a, k.as_long())

    def np_allclose(ex, path, args, kwargs, node):
        a, b = args[0], args[1]
        if isinstance(a, SArr) and isinstance(b, SArr) and a.rank == 1 and b.rank == 1:
            # numpy: all(|a - b| <= atol + rtol * |b|) with the default tolerances (shapes broadcast: equal lengths here)
            na, nb = a.shape[0], b.shape[0]
            ex.safe(path, "broadcast", Or(na == nb, na == 1, nb == 1), node)   # ValueError: operands could not be broadcast
            i = z3.Int(sv.uid("ac"))
            n = If(na >= nb, na, nb)
            ai = a.at((If(na == 1, z3.IntVal(0), i),))
            bi = b.at((If(nb == 1, z3.IntVal(0), i),))
            return sv.SBool(z3.ForAll([i], Implies(And(0 <= i, i < n), rabs(ai - bi) <= ATOL + RTOL * rabs(bi))))
        raise Unsupported(f"np.allclose({a}, {b})", node)

    def np_all_any(is_all):
        def fn(ex, path, args, kwargs, node):
            a = args[0]
            if kwargs or len(args) != 1:
                raise Unsupported("np.all / np.any with axis arguments", node)
            if isinstance(a, (sv.STup, sv.SList)) and hasattr(a, "items"):
                bs = [ex.truthy(x, path) for x in a.items]
                return sv.SBool(And(*bs) if is_all else Or(*bs))
            if isinstance(a, SArr) and a.dtype == "bool":
                return sv.SBool(arr.all_true(a) if is_all else Not(arr.all_true(arr.logical_not(a))))
            if isinstance(a, sv.SBool):
                return a
            raise Unsupported(f"np.all / np.any of {a}", node)
        return fn

    ex.ext_models["numpy.all"] = np_all_any(True)
    ex.ext_models["numpy.any"] = np_all_any(False)
    ex.pure_ext.update({"np.all", "np.any"})
    ex.ext_models["numpy.allclose"] = np_allclose
    ex.pure_ext.add("np.allclose")

    for nm, fn in (("shape", np_shape), ("ndim", np_ndim), ("array_equal", np_array_equal), ("transpose", np_transpose), ("flip", np_flip)):
        ex.ext_models[f"numpy.{nm}"] = fn
        ex.pure_ext.add(f"np.{nm}")

    # abstract properties of StructuredGrid: resolved by the unit's dimension (contract name carries <d=k>)
    def sg_props(ex, ref, attr, path, node):
        if isinstance(ref, sv.SRef) and ref.cls == "StructuredGrid":
            c = ex.cur_contract
            d = getattr(c, "grid_dim", None) if c is not None else None
            if d is None and c is not None and "<d=" in c.name:
                d = int(c.name.split("<d=")[1][0])
            if d is not None and attr in PROPS[d]:
                from pyvc.contract import Ctx
                if attr == "dim" and str(ref.e) == "self":
                    return sv.SInt(z3.IntVal(d))     # the unit is instantiated for this dimension (requires: $dim == d)
                return PROPS[d][attr](Ctx(ex, path, {"self": ref}))
        return None

    ex.hooks.setdefault("getattr_ref", []).append(sg_props)
    install_eq(ex)
    install_axes(ex)
    install_counts(ex)


# =================================================================================================
# RectilinearGrid: memoised data_shape / data_size follow the data location (C14.3)
# =================================================================================================
SHAPE_OF = z3.Function("shape_for_location", sv.IntS, sv.IntS, sv.OpaqueS)   # StructuredGrid.data_shape for (grid, location)
SIZE_OF = z3.Function("size_for_location", sv.IntS, sv.IntS, sv.IntS)


def none_or_eq(v, expr):
    """the optional value is None or equals expr"""
    return Or(*[(g if isinstance(x, sv.SNone) else And(g, x.e == expr)) for g, x in sv.alts_of(v)])


def some_eq(v, expr):
    """the optional value is set and equals expr"""
    return Or(*[And(g, x.e == expr) for g, x in sv.alts_of(v) if not isinstance(x, sv.SNone)])


def register_memo(reg):
    RG = "finam.data.grid_spec.RectilinearGrid"
    f = reg.field
    f("_data_location", Int)
    f("_data_shape", TOpt(TObj("shape")), "RectilinearGrid")
    f("_data_size", TOpt(Int), "RectilinearGrid")
    DS, DZ = "RectilinearGrid._data_shape", "RectilinearGrid._data_size"

    def memo_inv(ctx, g):
        loc = ctx.get(g, "_data_location").e
        ds, dz = ctx.get(g, DS), ctx.get(g, DZ)
        return And(none_or_eq(ds, SHAPE_OF(g.e, loc)), none_or_eq(dz, SIZE_OF(g.e, loc)))

    # the un-memoised values (StructuredGrid.data_shape / Grid.data_size): functions of the grid and its *current* location
    reg.add(Contract(f"{SG}.data_shape", self_cls="RectilinearGrid", pure=True, verify=False,
                     result_fn=lambda ctx: sv.SObj(SHAPE_OF(ctx.self.e, ctx.get(ctx.self, "_data_location").e), "shape"),
                     note="value of the parent property: decided by the bounded stand-in bnd_grids.py (C14.2)"))
    reg.add(Contract(f"{G}.Grid.data_size", self_cls="RectilinearGrid", pure=True, verify=False,
                     result_fn=lambda ctx: sv.SInt(SIZE_OF(ctx.self.e, ctx.get(ctx.self, "_data_location").e))))
    reg.add(Contract("finam.data.grid_spec._check_location", params={"grid": TRef("RectilinearGrid"), "data_location": Int}, pure=True,
                     verify=False, result_fn=lambda ctx: ctx.data_location, raises={"ValueError": lambda ctx: z3.BoolVal(True)},
                     note="assumed: returns the location if it is valid for the grid class, else ValueError"))

    from .base import is_none, strip_none
    reg.add(Contract(
        f"{RG}.data_shape", self_cls="RectilinearGrid", props=["C14.3"], params={}, result=TOpt(TObj("shape")),
        requires=lambda ctx: memo_inv(ctx, ctx.self),
        ensures=lambda ctx, r: And(some_eq(r, SHAPE_OF(ctx.self.e, ctx.get(ctx.self, "_data_location").e)), memo_inv(ctx, ctx.self)),
        modifies=lambda ctx: [(ctx.self, DS), (ctx.self, DZ)],
    ))
    reg.add(Contract(
        f"{RG}.data_size", self_cls="RectilinearGrid", props=["C14.3"], params={}, result=TOpt(Int),
        requires=lambda ctx: memo_inv(ctx, ctx.self),
        ensures=lambda ctx, r: And(some_eq(r, SIZE_OF(ctx.self.e, ctx.get(ctx.self, "_data_location").e)), memo_inv(ctx, ctx.self)),
        modifies=lambda ctx: [(ctx.self, DS), (ctx.self, DZ)],
    ))
    reg.add(Contract(
        f"{RG}.data_location.setter", self_cls="RectilinearGrid", props=["C14.3"], params={"data_location": Int},
        requires=lambda ctx: memo_inv(ctx, ctx.self),
        ensures=lambda ctx, r: And(ctx.get(ctx.self, "_data_location").e == ctx.data_location.e, memo_inv(ctx, ctx.self)),
        modifies=lambda ctx: [(ctx.self, "_data_location"), (ctx.self, DS), (ctx.self, DZ)],
        raises={"ValueError": lambda ctx: z3.BoolVal(True)}, name="data_location.setter",
    ))


_reg_base = register


def register(reg):  # noqa: F811
    _reg_base(reg)
    register_memo(reg)
    register_compat(reg)
    register_eq_transform(reg)
    register_canonical_callers(reg)
    register_nogrid(reg)
    register_axes(reg)
    register_counts(reg)


_BG = {"name": "grid-layouts", "script": "replay/drivers/bnd_grids.py", "args": ["--json"], "timeout": 3000}
BOUNDED = {"C14": [_BG], "C15": [_BG]}
REPLAY = {f"{SG}.compatible_with": "grid_compat.py", f"{SG}.__eq__": "bnd_grids.py", f"{SG}.get_transform_to": "bnd_grids.py", f"{SG}.to_canonical": "bnd_grids.py", f"{SG}.from_canonical": "bnd_grids.py",
          "finam.data.grid_spec.RectilinearGrid.data_shape": "bnd_grids.py", "finam.data.grid_spec.RectilinearGrid.data_size": "bnd_grids.py",
          "finam.data.grid_spec.RectilinearGrid.data_location.setter": "bnd_grids.py"}


# =================================================================================================
# compatible_with / __eq__ / get_transform_to of StructuredGrid (C15.2, C15.3)
# =================================================================================================
AX = z3.Function("axis_value", sv.IntS, sv.IntS, sv.IntS, sv.RealS)     # coordinate i of axis k of a grid (increasing, normalised)
NPTS = z3.Function("axis_points", sv.IntS, sv.IntS, sv.IntS)            # number of points of axis k
RTOL, ATOL = z3.RealVal("1e-5"), z3.RealVal("1e-8")


def rabs(x):
    return If(x >= 0, x, -x)


def axis_arr(g_e, k):
    return SArr((NPTS(g_e, z3.IntVal(k)),), lambda idx, g_e=g_e, k=k: AX(g_e, z3.IntVal(k), idx[0]), "real", ident=f"axis{k}({g_e})")


def register_compat(reg):
    for d in DIMS:
        _register_compat(reg, d)


def _register_compat(reg, d):
    tag = f"<d={d}>"
    reg.field("$crs", TObj("crs")) if d == 1 else None

    PROPS[d]["axes"] = lambda ctx: sv.STup([axis_arr(ctx.self.e, k) for k in range(d)])
    PROPS[d]["crs"] = lambda ctx: ctx.get(ctx.self, "$crs")
    PROPS[d]["data_location"] = lambda ctx: ctx.get(ctx.self, "_data_location")
    PROPS[d]["dim"] = lambda ctx: sv.SInt(gdim(ctx, ctx.self))

    def wf(ctx, g):
        """a well-formed structured grid of dimension d: axes strictly increasing, data sizes follow location"""
        i, j = z3.Int("wi"), z3.Int("wj")
        loc = ctx.get(g, "_data_location").e
        parts = [gdim(ctx, g) == d]
        for k in range(d):
            K = z3.IntVal(k)
            npk = NPTS(g.e, K)
            parts += [npk >= 2,   # non-degenerate axes (a single-point axis has no spacing; covered by the bounded stand-in)
                      z3.ForAll([i, j], Implies(And(0 <= i, i < j, j < npk), AX(g.e, K, i) < AX(g.e, K, j))),
                      # cells: max(points - 1, 1); points: points
                      nphys(ctx, g, k) == If(loc == 0, If(npk - 1 >= 1, npk - 1, z3.IntVal(1)), npk)]
        return And(*parts)

    def same_layout_flags(ctx, g, o):
        return And(rev(ctx, g) == rev(ctx, o), *[inc(ctx, g, k) == inc(ctx, o, k) for k in range(d)])

    def cw_post(ctx, r):
        g, o = ctx.self, ctx.other
        i, j = z3.Int("ci"), z3.Int("cj")
        same_meta = And(gdim(ctx, o) == d, sv.value_eq(ctx.get(g, "$crs"), ctx.get(o, "$crs")),
                        Or(Not(ctx.check_location.e), ctx.get(g, "_data_location").e == ctx.get(o, "_data_location").e))
        exact = And(*[And(NPTS(g.e, z3.IntVal(k)) == NPTS(o.e, z3.IntVal(k)),
                          z3.ForAll([i], Implies(And(0 <= i, i < NPTS(g.e, z3.IntVal(k))), AX(g.e, z3.IntVal(k), i) == AX(o.e, z3.IntVal(k), i))))
                      for k in range(d)])
        near = And(*[And(NPTS(g.e, z3.IntVal(k)) == NPTS(o.e, z3.IntVal(k)),
                         z3.ForAll([i, j], Implies(And(0 <= i, i < NPTS(o.e, z3.IntVal(k)), 0 <= j, j + 1 < NPTS(o.e, z3.IntVal(k))),
                                                   rabs(AX(g.e, z3.IntVal(k), i) - AX(o.e, z3.IntVal(k), i)) * 2
                                                   <= AX(o.e, z3.IntVal(k), j + 1) - AX(o.e, z3.IntVal(k), j))))
                     for k in range(d)])
        return {
            "same-locations=>compatible": Implies(And(same_meta, exact, ctx.check_location.e), r.e),
            "compatible=>same-kind": Implies(r.e, same_meta),
            "compatible=>within-half-a-cell": Implies(And(r.e, ctx.check_location.e), near),
        }

    reg.add(Contract(
        f"{SG}.compatible_with", self_cls="StructuredGrid", props=["C15.3"],
        params={"other": TRef("StructuredGrid"), "check_location": Bool}, result=Bool,
        requires=lambda ctx: And(wf(ctx, ctx.self), Implies(gdim(ctx, ctx.other) == d, wf(ctx, ctx.other)), ctx.other.e > 0,
                                 ctx.check_location.e),   # finam only calls it with check_location=True (the default)
        ensures=cw_post, modifies=lambda ctx: [], pure=True, name=f"compatible_with{tag}", primary=False,
    ))


def register_eq_transform(reg):
    reg.static_dispatch.add("StructuredGrid")
    GC = z3.Function("grid_compatible", sv.IntS, sv.IntS, sv.BoolS)
    GEQ = z3.Function("grid_equal", sv.IntS, sv.IntS, sv.BoolS)

    # caller-facing names of the two relations (their properties are what the per-dimension units verify)
    reg.add(Contract(f"{SG}.compatible_with", self_cls="StructuredGrid", params={"other": TRef("StructuredGrid"), "check_location": Bool},
                     pure=True, verify=False, result_fn=lambda ctx: sv.SBool(GC(ctx.self.e, ctx.other.e)),
                     note="GC(a,b) names the answer of a.compatible_with(b); its properties are verified per dimension (C15.3)"))

    for d in DIMS:
        tag = f"<d={d}>"

        def flags_equal(ctx, g, o, d=d):
            return And(rev(ctx, g) == rev(ctx, o), *[inc(ctx, g, k) == inc(ctx, o, k) for k in range(d)])

        reg.add(Contract(
            f"{SG}.__eq__", self_cls="StructuredGrid", props=["C15.3"], params={"other": TRef("StructuredGrid")}, result=Bool,
            requires=lambda ctx, d=d: And(gdim(ctx, ctx.self) == d, ctx.other.e > 0),
            ensures=lambda ctx, r, fe=flags_equal: r.e == And(GC(ctx.self.e, ctx.other.e), fe(ctx, ctx.self, ctx.other)),
            modifies=lambda ctx: [], pure=True, name=f"__eq__{tag}", primary=False,
        ))

        def gt_bad(ctx):
            return Not(GC(ctx.self.e, ctx.other.e))

        def gt_post(ctx, r, d=d, flags_equal=flags_equal):
            g, o = ctx.self, ctx.other
            same = And(GC(g.e, o.e), flags_equal(ctx, g, o))
            if isinstance(r, sv.SNone):
                return {"none-iff-equal-layout": same}
            if not (isinstance(r, sv.SPy) and r.what == "closure"):
                return {"result-kind": z3.BoolVal(False)}
            # apply the returned transformation to an arbitrary array in the source layout
            A = arr.fresh_arr(sv.uid("TA"), d, "real", shape=tuple(data_shape_spec(ctx, g, d)))
            c = [z3.Int(f"tc{k}") for k in range(d)]
            cs = canon_shape(ctx, g, d)
            js, jo = layout_index(ctx, g, d, c), layout_index(ctx, o, d, c)
            ods = data_shape_spec(ctx, o, d)
            located, no_raise = [], []
            for kind, cond, B in ctx.ex.closure_outcomes(r, [A], ctx.path):
                if kind != "return":
                    no_raise.append(Not(cond))
                    continue
                located.append(Implies(cond, And(z3.BoolVal(isinstance(B, SArr) and B.rank == d),
                                                 *[B.shape[k] == ods[k] for k in range(d)],
                                                 z3.ForAll(c, Implies(arr.in_box(cs, c), B.at(tuple(jo)) == A.at(tuple(js)))))
                                       if isinstance(B, SArr) and B.rank == d else Not(cond)))
            return {
                "none-iff-equal-layout": Not(same),
                "transform-accepts-source-layout": And(*no_raise),
                "located-values": And(*located),
            }

        def gt_pre(ctx, d=d):
            g, o = ctx.self, ctx.other
            # compatible grids of one geometry: same physical sizes (consequence of C15.3 "compatible => same kind / shape")
            return And(gdim(ctx, g) == d, gdim(ctx, o) == d, o.e > 0,
                       *[And(nphys(ctx, g, k) >= 1, Implies(GC(g.e, o.e), nphys(ctx, o, k) == nphys(ctx, g, k))) for k in range(d)])

        reg.add(Contract(
            f"{SG}.get_transform_to", self_cls="StructuredGrid", props=["C15.2"], params={"other": TRef("StructuredGrid")},
            requires=gt_pre, ensures=gt_post, modifies=lambda ctx: [], pure=True,
            raises={"ValueError": gt_bad}, must_raise={"ValueError": gt_bad}, raise_frame_empty=True,
            name=f"get_transform_to{tag}", primary=False,
        ))


def install_eq(ex):
    def grid_eq(ex, a, b, path, node):
        if isinstance(a, sv.SRef) and isinstance(b, sv.SRef) and a.cls == "StructuredGrid" and b.cls == "StructuredGrid":
            ci = ex.repo.cls("StructuredGrid")
            fi = ex.repo.lookup_method(ci, "__eq__")
            a2 = sv.SRef(a.e, "StructuredGrid", True)
            r = ex.call_function(fi, [a2, b], {}, path, node, self_ref=a2)
            return ex.truthy(r, path)
        return None

    ex.hooks.setdefault("eq", []).append(grid_eq)


# =================================================================================================
# NoGrid.compatible_with / __eq__ (C07.1, C15.3): grid-less layouts are compatible iff their data shapes are equal
# =================================================================================================
def register_nogrid(reg):
    NG = "finam.data.grid_spec.NoGrid"
    reg.field("_data_shape", TOpt(TObj("shape")), "NoGrid")
    reg.field("_dim", Int, "NoGrid")
    shp = lambda ctx, g: ctx.get(g, "NoGrid._data_shape")
    others = {
        "NoGrid": sv.SRef(z3.Int("ng.other"), "NoGrid", True),
        "UniformGrid": sv.SRef(z3.Int("ng.other"), "UniformGrid", True),
        "UnstructuredPoints": sv.SRef(z3.Int("ng.other"), "UnstructuredPoints", True),
        "None": sv.NONE,
    }
    for kn, o in others.items():
        def spec(ctx, o=o, kn=kn):
            if kn != "NoGrid":
                return z3.BoolVal(False)
            return sv.value_eq(shp(ctx, ctx.self), shp(ctx, o))

        reg.add(Contract(f"{NG}.compatible_with", self_cls="NoGrid", props=["C07.1", "C15.3"], params={"other": o, "check_location": Bool},
                         result=Bool, pure=True, modifies=lambda ctx: [],
                         ensures=lambda ctx, r, spec=spec: {"compatible <=> other is a NoGrid of the same data shape": r.e == spec(ctx)},
                         name=f"NoGrid.compatible_with<{kn}>", primary=False))
        reg.add(Contract(f"{NG}.__eq__", self_cls="NoGrid", props=["C07.1", "C15.3"], params={"other": o},
                         result=Bool, pure=True, modifies=lambda ctx: [],
                         ensures=lambda ctx, r, spec=spec: {"equal <=> other is a NoGrid of the same data shape": r.e == spec(ctx)},
                         name=f"NoGrid.__eq__<{kn}>", primary=False))


# =================================================================================================
# StructuredGrid.cell_axes / data_axes / data_shape (C14.1): the per-axis coordinates of a data index
# =================================================================================================
def install_axes(ex):
    import ast as _ast

    def const_int(ex, node, path):
        if node is None:
            return None
        v = sv.simp(ex.eval(node, path).e)
        return v.as_long() if z3.is_int_value(v) else "sym"

    def arr_slice(ex, base, sl, path, node):
        if isinstance(base, SArr) and base.rank == 1:
            lo, hi, st = const_int(ex, sl.lower, path), const_int(ex, sl.upper, path), const_int(ex, sl.step, path)
            n = base.shape[0]
            if st == -1 and lo is None and hi is None:
                return arr.flip(base, 0)
            if st is None and "sym" not in (lo, hi):
                # a[lo:hi] with constant bounds (negative: from the end); numpy clips, the lengths used here are exact
                l = z3.IntVal(0) if lo is None else (z3.IntVal(lo) if lo >= 0 else n + lo)
                h = n if hi is None else (z3.IntVal(hi) if hi >= 0 else n + hi)
                l = If(l < 0, z3.IntVal(0), If(l > n, n, l))
                h = If(h < l, l, If(h > n, n, h))
                return arr.slice1(base, sv.simp(l), sv.simp(h))
            raise Unsupported("array slice with symbolic bounds / step", node)
        if isinstance(base, sv.SPy) and base.what == "seq" and sl.lower is None and sl.upper is None and const_int(ex, sl.step, path) == -1:
            seq = base.payload
            from pyvc.expr import Seq
            return sv.SPy("seq", Seq(seq.n, lambda i, seq=seq: seq.at(sv.simp(seq.n - 1 - i))))
        return None

    ex.hooks.setdefault("slice", []).append(arr_slice)

    def arr_binop(ex, op, a, b, path, node):
        num = (sv.SInt, sv.SReal)
        if isinstance(a, SArr) and isinstance(b, SArr) and a.rank == b.rank and a.dtype in ("real", "int") and b.dtype in ("real", "int"):
            ex.safe(path, "broadcast", And(*[x == y for x, y in zip(a.shape, b.shape)]), node)
            if isinstance(op, _ast.Add):
                return arr.map2(a, b, lambda x, y: sv.to_real(x) + sv.to_real(y), "real")
            if isinstance(op, _ast.Sub):
                return arr.map2(a, b, lambda x, y: sv.to_real(x) - sv.to_real(y), "real")
        if isinstance(a, SArr) and isinstance(b, num) and a.dtype in ("real", "int"):
            c = sv.simp(b.e)
            if isinstance(op, _ast.Div) and (z3.is_int_value(c) or z3.is_rational_value(c)) and not sv.is_true(sv.simp(b.e == 0)):
                return arr.map1(a, lambda x, b=b: sv.to_real(x) / sv.to_real(b.e), "real")
            if isinstance(op, _ast.Mult):
                return arr.map1(a, lambda x, b=b: sv.to_real(x) * sv.to_real(b.e), "real")
            if isinstance(op, _ast.Add):
                return arr.map1(a, lambda x, b=b: sv.to_real(x) + sv.to_real(b.e), "real")
        return None

    ex.hooks.setdefault("binop", []).append(arr_binop)

    def builtin(ex, name, args, kwargs, path, node):
        if name == "len" and args and isinstance(args[0], SArr) and args[0].rank >= 1:
            return sv.SInt(args[0].shape[0])
        return None

    ex.hooks.setdefault("builtin", []).append(builtin)


CA = z3.Function("cell_axis_value", sv.IntS, sv.IntS, sv.IntS, sv.RealS)


def seq_items(r):
    """the elements of a tuple / list result of concrete length (None otherwise): a list built by a loop with append has no
    literal element list, but its length is still a number"""
    items = getattr(r, "items", None)
    if items is not None:
        return list(items)
    n = getattr(r, "n", None)
    if n is not None and hasattr(r, "at"):
        n = sv.simp(n)
        if z3.is_int_value(n) and n.as_long() <= 8:
            return [r.at(z3.IntVal(k)) for k in range(n.as_long())]
    return None


def register_axes(reg):
    LOC = lambda ctx, g: ctx.get(g, "_data_location").e       # 0 = CELLS, 1 = POINTS

    for d in DIMS:
        tag = f"<d={d}>"

        def wf(ctx, d=d):
            g = ctx.self
            return And(gdim(ctx, g) == d, *[NPTS(g.e, z3.IntVal(k)) >= 1 for k in range(d)])

        def cell_axis_ok(r_k, g, k):
            """r_k is the cell axis of axis k: midpoints of neighbouring points; a single point stands for itself"""
            n = NPTS(g.e, z3.IntVal(k))
            i = z3.Int("cai")
            mid = (AX(g.e, z3.IntVal(k), i) + AX(g.e, z3.IntVal(k), i + 1)) / 2
            return And(z3.BoolVal(isinstance(r_k, SArr) and r_k.rank == 1),
                       r_k.shape[0] == If(n > 1, n - 1, n),
                       z3.ForAll([i], Implies(And(0 <= i, i < r_k.shape[0]), r_k.at((i,)) == If(n > 1, mid, AX(g.e, z3.IntVal(k), i)))))

        def ca_post(ctx, r, d=d):
            items = seq_items(r)
            if items is None or len(items) != d:
                return {"one cell axis per axis": z3.BoolVal(False)}
            return {f"axis {k}: cell centres are the means of neighbouring points": cell_axis_ok(items[k], ctx.self, k) for k in range(d)}

        reg.add(Contract(f"{SG}.cell_axes", self_cls="StructuredGrid", props=["C14.1"], params={}, pure=True, modifies=lambda ctx: [],
                         requires=wf, ensures=ca_post, name=f"cell_axes{tag}", primary=False))

        def da_post(ctx, r, d=d):
            g = ctx.self
            items = seq_items(r)
            if items is None or len(items) != d:
                return {"one data axis per data dimension": z3.BoolVal(False)}
            out = {}
            cells = LOC(ctx, g) == 0
            i = z3.Int("dai")
            for m in range(d):
                a = items[m]
                clause = []
                for p_ in range(d):
                    # data dimension m shows physical axis p_ where p_ = d-1-m for reversed axes, else m
                    sel = (rev(ctx, g) if p_ == d - 1 - m else z3.BoolVal(False)) if p_ != m else (Not(rev(ctx, g)) if d - 1 - m != m else z3.BoolVal(True))
                    if d - 1 - m == m and p_ == m:
                        sel = z3.BoolVal(True)
                    n = NPTS(g.e, z3.IntVal(p_))
                    ln = If(cells, If(n > 1, n - 1, n), n)
                    coord = lambda q, p_=p_, n=n: If(cells, If(n > 1, (AX(g.e, z3.IntVal(p_), q) + AX(g.e, z3.IntVal(p_), q + 1)) / 2, AX(g.e, z3.IntVal(p_), q)),
                                                    AX(g.e, z3.IntVal(p_), q))
                    src = If(inc(ctx, g, p_), i, ln - 1 - i)
                    clause.append(Implies(sel, And(a.shape[0] == ln, z3.ForAll([i], Implies(And(0 <= i, i < ln), a.at((i,)) == coord(src))))))
                out[f"data dimension {m}: coordinates of the right physical axis, in data direction"] = And(z3.BoolVal(isinstance(a, SArr) and a.rank == 1), *clause)
            return out

        reg.add(Contract(f"{SG}.data_axes", self_cls="StructuredGrid", props=["C14.1"], params={}, pure=True, modifies=lambda ctx: [],
                         requires=wf, ensures=da_post, name=f"data_axes{tag}", primary=False,
                         inline_calls=[f"{SG}.cell_axes"]))



# =================================================================================================
# StructuredGrid.point_count / cell_count / data_shape (C14.2): sizes of the index space the coordinates are generated for
# =================================================================================================
SIZE = lambda items: arr.size_of(list(items))    # product of the entries (uninterpreted for more than one factor: no non-linear arithmetic)


def vec(items):
    """a numpy integer vector of concrete length (np.array of a dims tuple): element-wise operations stay per entry"""
    items = list(items)

    def at(idx, items=items):
        r = items[-1]
        for k in range(len(items) - 2, -1, -1):
            r = If(idx[0] == k, items[k], r)
        return r

    v = SArr((z3.IntVal(len(items)),), at, "int")
    v.items = items
    return v


def _ite_vec(c, a, b):
    ia, ib = getattr(a, "items", None), getattr(b, "items", None)
    if isinstance(a, SArr) and isinstance(b, SArr) and ia is not None and ib is not None and len(ia) == len(ib):
        return vec([If(c, x, y) for x, y in zip(ia, ib)])
    return None


sv.ITE_HOOKS.insert(0, _ite_vec)


def install_counts(ex):
    import ast as _ast

    def is_vec(a):
        return isinstance(a, SArr) and getattr(a, "items", None) is not None

    def to_vec(ex, path, args, kwargs, node):
        a = args[0]
        if isinstance(a, sv.STup) and a.items and all(isinstance(x, sv.SInt) for x in a.items) and not kwargs and len(args) == 1:
            return vec([x.e for x in a.items])
        if is_vec(a) and not kwargs and len(args) == 1:
            return a
        return NotImplemented

    def np_maximum(ex, path, args, kwargs, node):
        if len(args) == 2 and is_vec(args[0]) and isinstance(args[1], sv.SInt) and not kwargs:
            c = args[1].e
            return vec([If(x >= c, x, c) for x in args[0].items])
        if len(args) == 2 and isinstance(args[0], sv.SInt) and isinstance(args[1], sv.SInt) and not kwargs:
            return sv.SInt(If(args[0].e >= args[1].e, args[0].e, args[1].e))
        return NotImplemented

    def np_prod(ex, path, args, kwargs, node):
        if len(args) == 1 and is_vec(args[0]) and not kwargs:
            return sv.SInt(SIZE(args[0].items))
        return NotImplemented

    def wrap(name, fn):
        old = ex.ext_models.get(name)

        def model(ex, path, args, kwargs, node):
            r = fn(ex, path, args, kwargs, node)
            if r is NotImplemented:
                if old is None:
                    raise Unsupported(f"call of external function {name} on {args}", node)
                return old(ex, path, args, kwargs, node)
            return r

        ex.ext_models[name] = model

    for nm, fn in (("array", to_vec), ("asarray", to_vec), ("maximum", np_maximum), ("prod", np_prod)):
        wrap(f"numpy.{nm}", fn)
        ex.pure_ext.add(f"np.{nm}")

    def vec_binop(ex, op, a, b, path, node):
        if is_vec(a) and isinstance(b, sv.SInt):
            if isinstance(op, _ast.Sub):
                return vec([x - b.e for x in a.items])
            if isinstance(op, _ast.Add):
                return vec([x + b.e for x in a.items])
        return None

    ex.hooks.setdefault("binop", []).insert(0, vec_binop)

    def builtin(ex, name, args, kwargs, path, node):
        if name == "tuple" and len(args) == 1 and is_vec(args[0]):
            return sv.STup([sv.SInt(x) for x in args[0].items])
        return None

    ex.hooks.setdefault("builtin", []).insert(0, builtin)


def register_counts(reg):
    LOC = lambda ctx, g: ctx.get(g, "_data_location").e       # 0 = CELLS, 1 = POINTS
    for d in DIMS:
        tag = f"<d={d}>"
        PROPS[d]["dims"] = lambda ctx, d=d: sv.STup([sv.SInt(NPTS(ctx.self.e, z3.IntVal(k))) for k in range(d)])

        def wf(ctx, d=d):
            return And(gdim(ctx, ctx.self) == d, *[NPTS(ctx.self.e, z3.IntVal(k)) >= 1 for k in range(d)])

        npts = lambda ctx, k: NPTS(ctx.self.e, z3.IntVal(k))
        ncell = lambda ctx, k: If(npts(ctx, k) - 1 >= 1, npts(ctx, k) - 1, z3.IntVal(1))

        reg.add(Contract(f"{SG}.point_count", self_cls="StructuredGrid", props=["C14.2"], params={}, pure=True, modifies=lambda ctx: [], requires=wf,
                         ensures=lambda ctx, r, d=d: {"product of the axis lengths": r.e == SIZE([npts(ctx, k) for k in range(d)])},
                         name=f"point_count{tag}", primary=False))
        reg.add(Contract(f"{SG}.cell_count", self_cls="StructuredGrid", props=["C14.2"], params={}, pure=True, modifies=lambda ctx: [], requires=wf,
                         ensures=lambda ctx, r, d=d: {"product over the axes of max(points - 1, 1): a single-point axis contributes one layer of cells":
                                                       r.e == SIZE([ncell(ctx, k) for k in range(d)])},
                         name=f"cell_count{tag}", primary=False))

        def ds_post(ctx, r, d=d):
            items = seq_items(r)
            if items is None or len(items) != d or not all(isinstance(x, sv.SInt) for x in items):
                return {"one extent per data dimension": z3.BoolVal(False)}
            g = ctx.self
            out = {}
            for m in range(d):
                phys = If(rev(ctx, g), z3.IntVal(d - 1 - m), z3.IntVal(m))
                want = If(rev(ctx, g), If(LOC(ctx, g) == 0, ncell(ctx, d - 1 - m), npts(ctx, d - 1 - m)), If(LOC(ctx, g) == 0, ncell(ctx, m), npts(ctx, m)))
                out[f"data dimension {m}: extent of its physical axis (cells: max(points - 1, 1))"] = items[m].e == want
            return out

        reg.add(Contract(f"{SG}.data_shape", self_cls="StructuredGrid", props=["C14.2"], params={}, pure=True, modifies=lambda ctx: [], requires=wf,
                         ensures=ds_post, name=f"data_shape{tag}", primary=False))
