"""Contracts for finam.sdk.input.Input and the assumed contract of tools.prepare."""
import z3

from pyvc import sv
from pyvc.contract import Contract
from pyvc.sv import And, Or, Not, Implies, If, Time, Pay, TRef, TOpt, Bool, Int, TTup, TObj
from .base import (WORLD, TimeOpt, RETENTION_FIELDS, PREP, SRCVAL, pull_log, log_appended, is_none, strip_none,
                   buffers_only_evicted)

INP = "finam.sdk.input.Input"


def own_buffer_unchanged(ctx):
    s = ctx.self
    d0, d1 = ctx.old.get(s, "data"), ctx.get(s, "data")
    i = z3.Int(sv.uid("ob"))
    from .base import fexists, entry_is_str, entry_str_e
    fx0, fx1 = fexists(ctx.old), fexists(ctx)
    fn = lambda k: entry_str_e(d0.at(k).items[1])
    # upstream evictions remove upstream files only (spill file names carry the id of their slot): own files stay
    own_files = z3.ForAll([i], Implies(And(0 <= i, i < d0.n, entry_is_str(d0.at(i).items[1]), fx0.dom(fn(i))), fx1.dom(fn(i))))
    return And(d1.n == d0.n, z3.ForAll([i], Implies(And(0 <= i, i < d0.n), sv.value_eq(d1.at(i), d0.at(i)))),
               ctx.get(s, "_total_mem").e == ctx.old.get(s, "_total_mem").e, own_files)


def register(reg):
    # ---- tools.prepare: assumed here, decided in C08.4 / C17 / C18 (bounded + deductive parts there)
    def prep_result(ctx):
        info_e = ctx.ex.key_expr(ctx.info)
        data = ctx.data
        val = sv.SPay(PREP(data.e, info_e))
        rc = ctx.args.get("report_conversion")
        if rc is not None and sv.is_true(sv.simp(rc.e)):
            conv = sv.mk(TOpt(TObj("conv")), sv.uid("conv"))
            return sv.STup([val, conv])
        return val

    reg.add(Contract(
        "finam.data.tools.core.prepare", params={"data": Pay, "info": TRef("Info"), "time_entries": Int, "force_copy": Bool,
                                                 "report_conversion": Bool},
        pure=True, verify=False, result_fn=prep_result, raises={"FinamDataError": lambda ctx: z3.BoolVal(True)},
        requires=lambda ctx: Not(is_none(ctx.info)),
        note="assumed: value function PREP(data, info); may refuse with FinamDataError",
    ))
    reg.add(Contract("finam.data.tools.core.strip_time", params={"xdata": Pay, "grid": TOpt(TRef("GridBase"))}, pure=True, verify=False,
                     result_fn=lambda ctx: ctx.xdata, raises={"FinamDataError": lambda ctx: z3.BoolVal(True)},
                     note="assumed: strips the leading time axis of length one, values unchanged (payload = R)"))

    # ---- Input.pull_data (caller-facing; the body is decided in C08.3)
    def pd_mod(ctx):
        return [(None, f) for f in RETENTION_FIELDS] + [(WORLD, "$pull_log")]

    def pd_post(ctx, r):
        s = ctx.self
        src = ctx.old.get(s, "_source")
        tgt = ctx.target
        eff_tgt = sv.ite(ctx.ex.truthy(tgt, ctx.path), tgt, s)
        l0 = pull_log(ctx.old)
        return And(log_appended(ctx, src, ctx.time, eff_tgt), r.e == SRCVAL(s.e, l0.n), buffers_only_evicted(ctx),
                   own_buffer_unchanged(ctx))

    reg.add(Contract(
        f"{INP}.pull_data", self_cls="Input", props=["C08.3"], params={"time": TimeOpt, "target": TOpt(TRef("IInput"))},
        result=Pay, verify=False,
        requires=lambda ctx: And(Not(is_none(ctx.get(ctx.self, "_source"))), Not(ctx.get(ctx.self, "_static").e)),
        ensures=pd_post, modifies=pd_mod,
        raises={"FinamTimeError": lambda ctx: z3.BoolVal(True), "FinamNoDataError": lambda ctx: z3.BoolVal(True),
                "FinamDataError": lambda ctx: z3.BoolVal(True)},
        raise_frame_empty=False,
        note="non-static input: exactly one request (source, time, target or self) reaches the source; upstream buffers are only evicted",
    ))
    register_verified(reg)
    register_ctor(reg)


# =================================================================================================
# Input.pull_data / _convert_and_check verified (C08.3, C20.1)
# =================================================================================================
TRANSF = z3.Function("grid_transform", sv.OpaqueS, sv.RealS, sv.RealS)     # value function of a stored grid transform
TOUNITS = z3.Function("to_units", sv.RealS, sv.IntS, sv.RealS)             # data converted to the units of an Info
GOT = z3.Function("source_served", sv.IntS, sv.RealS)                       # what the n-th logged request returned


def register_verified(reg):
    from .base import TObj

    # ---- IOutput.get_data (interface): one logged request; upstream buffers only evict
    def gd_mod(ctx):
        return [(None, f) for f in RETENTION_FIELDS] + [(WORLD, "$pull_log")]

    def gd_post(ctx, r):
        l0 = pull_log(ctx.old)
        return And(log_appended(ctx, ctx.self, ctx.time, ctx.target), r.e == GOT(l0.n), buffers_only_evicted(ctx))

    reg.add(Contract("iface:IOutput.get_data", params={"time": TimeOpt, "target": TOpt(TRef("IInput"))}, note="method",
                     result=Pay, verify=False, modifies=gd_mod, ensures=gd_post,
                     raises={"FinamTimeError": lambda ctx: z3.BoolVal(True), "FinamNoDataError": lambda ctx: z3.BoolVal(True)},
                     raise_frame_empty=True))

    # ---- assumed library contracts used by _convert_and_check
    def tu_result(ctx):
        units = ctx.units
        val = sv.SPay(TOUNITS(ctx.xdata.e, ctx.ex.key_expr(units) if not isinstance(units, sv.SObj) else z3.Int("u")))
        rc = ctx.args.get("report_conversion")
        if rc is not None and sv.is_true(sv.simp(rc.e)):
            return sv.STup([val, sv.mk(TOpt(TObj("conv")), sv.uid("conv"))])
        return val

    reg.add(Contract("finam.data.tools.units.to_units", params={"xdata": Pay, "units": TOpt(TObj("units")), "check_equivalent": Bool,
                                                                 "report_conversion": Bool},
                     pure=True, verify=False, result_fn=lambda ctx: tu_res(ctx),
                     raises={"FinamDataError": lambda ctx: z3.BoolVal(True)},
                     note="assumed here (value function of pint's conversion); decided in C17"))
    reg.add(Contract("finam.data.tools.core.check", params={"xdata": Pay, "info": TRef("Info")}, pure=True, verify=False,
                     raises={"FinamDataError": lambda ctx: z3.BoolVal(True)},
                     note="assumed: raises FinamDataError unless shape/units match the info, no effect"))

    def tu_res(ctx):
        # the converted value is a function of (data, target units); units objects are opaque
        u = ctx.units
        ue = None
        for g, x in sv.alts_of(u):
            if isinstance(x, sv.SObj):
                ue = x.e
        if ue is None:
            ue = z3.Const("no_units", sv.OpaqueS)
        val = sv.SPay(z3.Function("to_units_of", sv.RealS, sv.OpaqueS, sv.RealS)(ctx.xdata.e, ue))
        rc = ctx.args.get("report_conversion")
        if rc is not None and sv.is_true(sv.simp(rc.e)):
            return sv.STup([val, sv.mk(TOpt(TObj("conv")), sv.uid("conv"))])
        return val

    def conv_of(ctx, s, x):
        """spec: transform between compatible grids (if one was stored at connect), then conversion to the consumer's units"""
        tr = ctx.get(s, "_transform")
        te = None
        for g, v in sv.alts_of(tr):
            if isinstance(v, sv.SObj):
                te = v.e
        y = x if te is None else If(is_none(tr), x, TRANSF(te, x))
        info = ctx.get(s, "_input_info")
        units = ctx.get(strip_none(info).e, "meta").val(z3.Const("str:units", sv.StrS))
        ue = None
        for g, v in sv.alts_of(units):
            if isinstance(v, sv.SObj):
                ue = v.e
        if ue is None:
            ue = z3.Const("no_units", sv.OpaqueS)
        return z3.Function("to_units_of", sv.RealS, sv.OpaqueS, sv.RealS)(y, ue)

    # ---- _convert_and_check
    reg.add(Contract(
        f"{INP}._convert_and_check", self_cls="Input", props=["C08.3", "C17.4", "C15.5"], params={"data": Pay}, result=Pay,
        requires=lambda ctx: Not(is_none(ctx.get(ctx.self, "_input_info"))),
        ensures=lambda ctx, r: r.e == conv_of(ctx, ctx.self, ctx.data.e), modifies=lambda ctx: [], pure=True,
        raises={"FinamDataError": lambda ctx: z3.BoolVal(True)},
    ))

    # ---- pull_data, non-static input
    def pd_post(ctx, r):
        s = ctx.self
        src = ctx.old.get(s, "_source")
        tgt = ctx.target
        eff_tgt = sv.ite(ctx.ex.truthy(tgt, ctx.path), tgt, s)
        l0 = pull_log(ctx.old)
        return And(log_appended(ctx, src, ctx.time, eff_tgt), r.e == conv_of(ctx, s, GOT(l0.n)), buffers_only_evicted(ctx))

    reg.add(Contract(
        f"{INP}.pull_data", self_cls="Input", props=["C08.3", "C13.2"], params={"time": TimeOpt, "target": TOpt(TRef("IInput"))},
        result=Pay, primary=False, name="pull_data<non-static>",
        requires=lambda ctx: And(Not(is_none(ctx.get(ctx.self, "_source"))), Not(ctx.get(ctx.self, "_static").e),
                                 Not(is_none(ctx.get(ctx.self, "_input_info")))),
        ensures=pd_post, modifies=lambda ctx: [(None, f) for f in RETENTION_FIELDS] + [(WORLD, "$pull_log")],
        raises={"FinamTimeError": lambda ctx: z3.BoolVal(True), "FinamNoDataError": lambda ctx: z3.BoolVal(True),
                "FinamDataError": lambda ctx: z3.BoolVal(True)},
    ))

    # ---- pull_data, static input: fetch once, then serve the cached value without touching the source (C20.1)
    def ps_post(ctx, r):
        s = ctx.self
        c0 = ctx.old
        cached0 = c0.get(s, "_cached_data")
        cached1 = ctx.get(s, "_cached_data")
        src = c0.get(s, "_source")
        tgt = ctx.target
        eff_tgt = sv.ite(ctx.ex.truthy(tgt, ctx.path), tgt, s)
        l0, l1 = pull_log(c0), pull_log(ctx)
        first = And(log_appended(ctx, src, ctx.time, eff_tgt), Not(is_none(cached1)),
                    strip_none(cached1).e == conv_of(ctx, s, GOT(l0.n)), Not(is_none(r)), strip_none(r).e == strip_none(cached1).e)
        later = And(l1.n == l0.n, Not(is_none(r)), strip_none(r).e == strip_none(cached0).e, sv.value_eq(cached1, cached0))
        return If(is_none(cached0), first, later)

    reg.add(Contract(
        f"{INP}.pull_data", self_cls="Input", props=["C20.1", "C08.3"], params={"time": TimeOpt, "target": TOpt(TRef("IInput"))},
        result=Pay, primary=False, name="pull_data<static>",
        requires=lambda ctx: And(Not(is_none(ctx.get(ctx.self, "_source"))), ctx.get(ctx.self, "_static").e,
                                 Not(is_none(ctx.get(ctx.self, "_input_info")))),
        ensures=ps_post, modifies=lambda ctx: [(None, f) for f in RETENTION_FIELDS] + [(WORLD, "$pull_log"), (ctx.self, "_cached_data")],
        raises={"FinamTimeError": lambda ctx: z3.BoolVal(True), "FinamNoDataError": lambda ctx: z3.BoolVal(True),
                "FinamDataError": lambda ctx: z3.BoolVal(True)},
    ))


def install(ex):
    def call_transform(ex, fn, args, kwargs, path, node):
        if isinstance(fn, sv.SObj) and fn.okind == "transform":
            x = ex.expect(args[0], sv.SPay, path, node)
            from .base import UNITS_OF
            r = TRANSF(fn.e, x.e)
            # the transformation re-orders magnitudes: the unit label of the data is unaffected
            path.assume(UNITS_OF(r) == UNITS_OF(x.e))
            from .base import ISMASKED
            path.assume(ISMASKED(r) == ISMASKED(x.e))      # ... and a masked slice stays masked (the mask is re-ordered with the values)
            return sv.SPay(r)
        return None

    ex.hooks.setdefault("call_value", []).append(call_transform)


BOUNDED = {"C08": [{"name": "metadata-products", "script": "replay/drivers/bnd_info.py", "args": ["--json"], "timeout": 600},
                   {"name": "units-catalogue", "script": "replay/drivers/bnd_units.py", "args": ["--json"], "timeout": 600},
                   {"name": "prepare-payload-forms", "script": "replay/drivers/bnd_prepare.py", "args": ["--json"], "timeout": 600},
                   {"name": "grid-layouts", "script": "replay/drivers/bnd_grids.py", "args": ["--json"], "timeout": 3000}]}
REPLAY = {f"{INP}.pull_data": "seq_output.py", f"{INP}._convert_and_check": "seq_output.py"}


# =================================================================================================
# constructors of the input classes (C19.1 / C20.1): the slot is what it was declared to be
# =================================================================================================
def register_ctor(reg):
    reg.field("_logger", TOpt(TObj("logger")))
    reg.field("base_logger_name", TOpt(sv.Str))
    for cls, extra in (("Input", {}), ("CallbackInput", {"callback": TObj("callback")})):
        qual = f"finam.sdk.input.{cls}.__init__"
        params = dict(extra)
        params.update({"name": sv.Str, "info": TOpt(TRef("Info")), "static": sv.Bool})

        def post(ctx, r):
            s = ctx.self
            return {"static flag as declared": ctx.get(s, "_static").e == ctx.static.e,
                    "info as declared": sv.value_eq(ctx.get(s, "_input_info"), ctx.info),
                    "not connected yet": And(is_none(ctx.get(s, "_source")), Not(ctx.get(s, "_in_info_exchanged").e)),
                    "name as declared": ctx.get(s, "_name").e == ctx.name.e}

        reg.add(Contract(qual, self_cls=cls, props=["C19.1", "C20.1", "C07.3"], params=params, ensures=post,
                         modifies=lambda ctx: [(ctx.self, f) for f in ("_source", "base_logger_name", "_name", "_static", "_input_info", "_in_info_exchanged",
                                                                      "_cached_data", "_transform", "callback", "_logger_name", "_logger")],
                         name=f"__init__<{cls}>", primary=False))
