"""Contracts for finam.sdk.input.Input and the assumed contract of tools.prepare."""
import z3

from pyvc import sv
from pyvc.contract import Contract
from pyvc.sv import And, Or, Not, Implies, If, Time, Pay, TRef, TOpt, Bool, Int, TTup, TObj
from .base import (WORLD, TimeOpt, RETENTION_FIELDS, PREP, SRCVAL, pull_log, log_appended, is_none, strip_none,
                   buffers_only_evicted)

INP = "finam.sdk.input.Input"


def own_buffer_unchanged(ctx):
    s = ctx.self
    d0, d1 = ctx.old.get(s, "data"), ctx.get(s, "data")
    i = z3.Int(sv.uid("ob"))
    from .base import fexists, entry_is_str, entry_str_e
    fx0, fx1 = fexists(ctx.old), fexists(ctx)
    fn = lambda k: entry_str_e(d0.at(k).items[1])
    # upstream evictions remove upstream files only (spill file names carry the id of their slot): own files stay
    own_files = z3.ForAll([i], Implies(And(0 <= i, i < d0.n, entry_is_str(d0.at(i).items[1]), fx0.dom(fn(i))), fx1.dom(fn(i))))
    return And(d1.n == d0.n, z3.ForAll([i], Implies(And(0 <= i, i < d0.n), sv.value_eq(d1.at(i), d0.at(i)))),
               ctx.get(s, "_total_mem").e == ctx.old.get(s, "_total_mem").e, own_files)


def register(reg):
    # ---- tools.prepare: assumed here, decided in C08.4 / C17 / C18 (bounded + deductive parts there)
    def prep_result(ctx):
        info_e = ctx.ex.key_expr(ctx.info)
        data = ctx.data
        val = sv.SPay(PREP(data.e, info_e))
        rc = ctx.args.get("report_conversion")
        if rc is not None and sv.is_true(sv.simp(rc.e)):
            conv = sv.mk(TOpt(TObj("conv")), sv.uid("conv"))
            return sv.STup([val, conv])
        return val

    reg.add(Contract(
        "finam.data.tools.core.prepare", params={"data": Pay, "info": TRef("Info"), "time_entries": Int, "force_copy": Bool,
                                                 "report_conversion": Bool},
        pure=True, verify=False, result_fn=prep_result, raises={"FinamDataError": lambda ctx: z3.BoolVal(True)},
        requires=lambda ctx: Not(is_none(ctx.info)),
        note="assumed: value function PREP(data, info); may refuse with FinamDataError",
    ))
    reg.add(Contract("finam.data.tools.core.strip_time", params={"xdata": Pay, "grid": TOpt(TObj("grid"))}, pure=True, verify=False,
                     result_fn=lambda ctx: ctx.xdata, raises={"FinamDataError": lambda ctx: z3.BoolVal(True)},
                     note="assumed: strips the leading time axis of length one, values unchanged (payload = R)"))

    # ---- Input.pull_data (caller-facing; the body is decided in C08.3)
    def pd_mod(ctx):
        return [(None, f) for f in RETENTION_FIELDS] + [(WORLD, "$pull_log")]

    def pd_post(ctx, r):
        s = ctx.self
        src = ctx.old.get(s, "_source")
        tgt = ctx.target
        eff_tgt = sv.ite(ctx.ex.truthy(tgt, ctx.path), tgt, s)
        l0 = pull_log(ctx.old)
        return And(log_appended(ctx, src, ctx.time, eff_tgt), r.e == SRCVAL(s.e, l0.n), buffers_only_evicted(ctx),
                   own_buffer_unchanged(ctx))

    reg.add(Contract(
        f"{INP}.pull_data", self_cls="Input", props=["C08.3"], params={"time": TimeOpt, "target": TOpt(TRef("IInput"))},
        result=Pay, verify=False,
        requires=lambda ctx: And(Not(is_none(ctx.get(ctx.self, "_source"))), Not(ctx.get(ctx.self, "_static").e)),
        ensures=pd_post, modifies=pd_mod,
        raises={"FinamTimeError": lambda ctx: z3.BoolVal(True), "FinamNoDataError": lambda ctx: z3.BoolVal(True),
                "FinamDataError": lambda ctx: z3.BoolVal(True)},
        raise_frame_empty=False,
        note="non-static input: exactly one request (source, time, target or self) reaches the source; upstream buffers are only evicted",
    ))
