"""Contracts for finam.adapters.time: time caching / interpolation adapters (C11, C10) and delays (C13)."""
import z3

from pyvc import sv
from pyvc.contract import Contract
from pyvc.sv import And, Or, Not, Implies, If, Time, Pay, Entry, TRef, TOpt, Int, Real, Delta
from .base import (WORLD, TimeOpt, absdiff, entry_is_str, entry_pay_e, entry_str_e, fexists, is_none, sorted_strict,
                   strip_none, suffix_of, times_set, tm, val_in, RETENTION_FIELDS)
from .c_output import files_ok, names_ok, removed_dropped, only_removed

T = "finam.adapters.time"
CACHING = ["NextTime", "PreviousTime", "LinearTime", "StepTime"]
MOD_BUF = lambda ctx: [(ctx.self, "data"), (ctx.self, "_total_mem"), (WORLD, "$fexists")]


def out_info_set(ctx, a):
    """the adapter's infos are exchanged (spilled entries are re-labelled with the input units)"""
    return And(Not(is_none(ctx.get(a, "_output_info"))), Not(is_none(ctx.get(a, "_input_info"))))


def buf_inv(ctx, a):
    d = ctx.get(a, "data")
    h = ctx.get(a, "$hist")
    return And(times_set(h), sorted_strict(h), suffix_of(d, h), times_set(d), sorted_strict(d), files_ok(ctx, d),
               out_info_set(ctx, a))


def val(ctx, lst, k):
    return val_in(ctx, lst.at(k).items[1])


# --------------------------------------------------------------------------------------------- specs over a history
def spec_next(ctx, h, t, r):
    k = z3.Int("k!next")
    return z3.Exists([k], And(0 <= k, k < h.n, tm(h, k) >= t, Or(k == 0, tm(h, k - 1) < t), r == val(ctx, h, k)))


def spec_prev(ctx, h, t, r):
    k = z3.Int("k!prev")
    return z3.Exists([k], And(0 <= k, k < h.n, tm(h, k) <= t, Or(k == h.n - 1, tm(h, k + 1) > t), r == val(ctx, h, k)))


# The interpolation formulas are spec functions: defined (axiom) in the unit that verifies the
# arithmetic of `_interpolate`, uninterpreted where only the choice of entries matters.
LIN = z3.Function("Lin", sv.IntS, sv.IntS, sv.IntS, sv.RealS, sv.RealS, sv.RealS)
STEPF = z3.Function("Step", sv.IntS, sv.IntS, sv.IntS, sv.RealS, sv.RealS, sv.RealS, sv.RealS)


def interp_axioms(ctx):
    t, t0, t1 = z3.Ints("ax_t ax_t0 ax_t1")
    v0, v1, st = z3.Reals("ax_v0 ax_v1 ax_st")
    dt = sv.rdiv(z3.ToReal(t - t0), z3.ToReal(t1 - t0))
    return [
        z3.ForAll([t, t0, t1, v0, v1], LIN(t, t0, t1, v0, v1) == v0 + dt * (v1 - v0), patterns=[LIN(t, t0, t1, v0, v1)]),
        z3.ForAll([t, t0, t1, st, v0, v1], STEPF(t, t0, t1, st, v0, v1) == If(dt > st, v1, v0),
                  patterns=[STEPF(t, t0, t1, st, v0, v1)]),
    ]


def spec_linear(ctx, h, t, r):
    k = z3.Int("k!lin")
    t0, t1 = tm(h, k), tm(h, k + 1)
    v0, v1 = val(ctx, h, k), val(ctx, h, k + 1)
    on = z3.Exists([k], And(0 <= k, k < h.n, tm(h, k) == t, r == val(ctx, h, k)))
    between = z3.Exists([k], And(0 <= k, k + 1 < h.n, t0 < t, t < t1, r == LIN(t, t0, t1, v0, v1)))
    return Or(on, between)


def spec_step(ctx, h, t, r, step):
    k = z3.Int("k!step")
    t0, t1 = tm(h, k), tm(h, k + 1)
    v0, v1 = val(ctx, h, k), val(ctx, h, k + 1)
    on = z3.Exists([k], And(0 <= k, k < h.n, tm(h, k) == t, r == val(ctx, h, k)))
    between = z3.Exists([k], And(0 <= k, k + 1 < h.n, t0 < t, t < t1, r == STEPF(t, t0, t1, step, v0, v1)))
    return Or(on, between)


def spec_of(cls, ctx, h, t, r, a):
    if cls == "NextTime":
        return spec_next(ctx, h, t, r)
    if cls == "PreviousTime":
        return spec_prev(ctx, h, t, r)
    if cls == "LinearTime":
        return spec_linear(ctx, h, t, r)
    return spec_step(ctx, h, t, r, ctx.get(a, "step").e)


def res_e(r):
    """payload expression of a result that must be a payload (not a file name)"""
    return entry_pay_e(r) if isinstance(r, sv.SUnion) else r.e


def is_payload(r):
    return Not(entry_is_str(r)) if isinstance(r, sv.SUnion) else z3.BoolVal(isinstance(r, sv.SPay))


def register(reg):
    for cls in CACHING:
        qual = f"{T}.{cls}._interpolate"

        # ---------------------------------------------------------------- _interpolate (C11.2, C10.3)
        def ip_pre(ctx):
            d = ctx.get(ctx.self, "data")
            t = ctx.time.e
            return And(d.n >= 1, times_set(d), sorted_strict(d), files_ok(ctx, d), out_info_set(ctx, ctx.self),
                       tm(d, z3.IntVal(0)) <= t, t <= tm(d, d.n - 1))

        def ip_post(ctx, r, cls=cls):
            d = ctx.get(ctx.self, "data")
            return And(is_payload(r), spec_of(cls, ctx, d, ctx.time.e, res_e(r), ctx.self))

        def ip_inv(ctx):
            d = ctx.get(ctx.self, "data")
            q = z3.Int(sv.uid("q"))
            return z3.ForAll([q], Implies(And(0 <= q, q < ctx.k), tm(d, q) < ctx.time.e))

        reg.add(Contract(
            qual, self_cls=cls, props=["C11.2", "C10.3"], params={"time": Time}, result=Pay,
            requires=ip_pre, ensures=ip_post, modifies=lambda ctx: [], loops={1: dict(invariant=ip_inv)},
            axioms=interp_axioms,
        ))

        # ---------------------------------------------------------------- _get_data (C11.1, C11.3, C11.L)
        def gd_nodata(ctx):
            return ctx.old.get(ctx.self, "data").n == 0

        def gd_timeerr(ctx):
            h = ctx.old.get(ctx.self, "$hist")
            t = ctx.time.e
            return And(h.n > 0, Or(t < tm(h, z3.IntVal(0)), t > tm(h, h.n - 1)))

        def gd_pre(ctx):
            a = ctx.self
            d, h = ctx.get(a, "data"), ctx.get(a, "$hist")
            return And(buf_inv(ctx, a), Implies(And(h.n - d.n > 0), tm(d, z3.IntVal(0)) <= ctx.time.e))

        def gd_post(ctx, r, cls=cls):
            a = ctx.self
            h = ctx.get(a, "$hist")
            d0, d1 = ctx.old.get(a, "data"), ctx.get(a, "data")
            t = ctx.time.e
            kept = And(d1.n >= 1, tm(d1, z3.IntVal(0)) <= t)
            return And(is_payload(r), spec_of(cls, ctx, h, t, res_e(r), a), buf_inv(ctx, a), kept,
                       removed_dropped(ctx, d0, d1), only_removed(ctx, d0))

        reg.add(Contract(
            f"{T}.TimeCachingAdapter._get_data", self_cls=cls, props=["C11.1", "C11.3", "C10.4", "C09.3"],
            params={"time": Time, "_target": TOpt(TRef("IInput"))}, result=Pay,
            requires=gd_pre, ensures=gd_post, modifies=MOD_BUF,
            raises={"FinamNoDataError": gd_nodata, "FinamTimeError": gd_timeerr},
            must_raise={"FinamNoDataError": gd_nodata, "FinamTimeError": gd_timeerr}, raise_frame_empty=True,
            name=f"_get_data",
        ))

    # ---------------------------------------------------------------- _clear_cached_data (C11.3, C09.2, C10.4)
    def cc_pre(ctx):
        a = ctx.self
        d = ctx.get(a, "data")
        return And(buf_inv(ctx, a), d.n >= 1, tm(d, z3.IntVal(0)) <= ctx.time.e)

    def cc_post(ctx, r):
        a = ctx.self
        d0, d1 = ctx.old.get(a, "data"), ctx.get(a, "data")
        t = ctx.time.e
        return And(buf_inv(ctx, a), d1.n >= 1, tm(d1, z3.IntVal(0)) <= t,
                   suffix_of(d1, d0), removed_dropped(ctx, d0, d1), only_removed(ctx, d0))

    def cc_inv(ctx):
        a = ctx.self
        d0, d = ctx.old.get(a, "data"), ctx.get(a, "data")
        h = ctx.get(a, "$hist")
        return And(d.n >= 1, suffix_of(d, h), suffix_of(d, d0), times_set(d), sorted_strict(d), files_ok(ctx, d),
                   tm(d, z3.IntVal(0)) <= ctx.time.e, removed_dropped(ctx, d0, d), only_removed(ctx, d0))

    reg.add(Contract(
        f"{T}.TimeCachingAdapter._clear_cached_data", self_cls="TimeCachingAdapter", props=["C11.3", "C09.2", "C10.4"],
        params={"time": Time}, requires=cc_pre, ensures=cc_post, modifies=MOD_BUF,
        loops={1: dict(invariant=cc_inv, decreases=lambda ctx: ctx.get(ctx.self, "data").n)},
    ))

    register_delays(reg)
    register_buffers(reg)
    register_adapter_ctors(reg)


_AD = {"name": "time-adapter-histories", "script": "replay/drivers/seq_adapter.py", "args": ["--json"], "timeout": 3000}
_SPILL = {"name": "composition-spill-placement", "script": "replay/drivers/bnd_spill.py", "args": ["--json"], "timeout": 1200}
_CHAIN = {"name": "upstream-adapter-chains", "script": "replay/drivers/bnd_chain.py", "args": ["--json"], "timeout": 600}
BOUNDED = {"C09": [_AD, _CHAIN], "C10": [_AD, _SPILL], "C11": [_AD, _CHAIN], "C12": [_AD, _CHAIN]}
REPLAY = {}
for _cls in CACHING:
    REPLAY[(f"{T}.{_cls}._interpolate", _cls)] = "seq_adapter.py"
    REPLAY[(f"{T}.TimeCachingAdapter._get_data", _cls)] = "seq_adapter.py"
for _q in (f"{T}.TimeCachingAdapter._clear_cached_data", f"{T}.TimeCachingAdapter._finalize", f"{T}.TimeCachingAdapter._unpack",
           f"{T}.TimeCachingAdapter._source_updated", "finam.adapters.time_integration.TimeIntegrationAdapter._source_updated",
           "finam.adapters.time_integration.TimeIntegrationAdapter._get_data", "finam.adapters.time_integration.SumOverTime._interpolate",
           "finam.adapters.time_integration.AvgOverTime._interpolate", "finam.sdk.adapter.Adapter.finalize"):
    REPLAY[_q] = "seq_adapter.py"


# =================================================================================================
# delay adapters (C13)
# =================================================================================================
def tmax(a, b):
    return If(a >= b, a, b)


def tmin(a, b):
    return If(a <= b, a, b)


def init_time(ctx, a):
    return strip_none(ctx.get(a, "initial_time")).e


def has_init(ctx, a):
    return Not(is_none(ctx.get(a, "initial_time")))


def pulls_eff0(ctx, a):
    """first element of the effective pull history of a DelayToPull: [initial_time] while empty"""
    p = ctx.get(a, "_pulls")
    return If(p.n == 0, init_time(ctx, a), strip_none(p.at(z3.IntVal(0))).e)


def wd_spec(cls, ctx, a, t):
    """with_delay(t) of the three delay adapters, as a term over the state in ctx"""
    if cls == "DelayFixed":
        return tmax(t - ctx.get(a, "delay").e, init_time(ctx, a))
    if cls == "DelayToPush":
        pt = ctx.get(a, "push_time")
        return If(is_none(pt), init_time(ctx, a), tmin(t, strip_none(pt).e))
    if cls == "DelayToPull":
        return tmax(pulls_eff0(ctx, a) - ctx.get(a, "additional_delay").e, init_time(ctx, a))
    raise KeyError(cls)


def register_delays(reg):
    from .base import PREP, SRCVAL, pull_log, log_appended, buffers_only_evicted, WORLD, RETENTION_FIELDS

    def t_of(r):
        return strip_none(r).e if isinstance(r, sv.SUnion) else r.e

    def not_none(r):
        return Not(is_none(r))

    for cls in ("DelayFixed", "DelayToPush", "DelayToPull"):
        def wd_post(ctx, r, cls=cls):
            a = ctx.self
            base = And(not_none(r), t_of(r) == wd_spec(cls, ctx.old, a, ctx.time.e))
            if cls == "DelayToPull":
                # lazy initialisation only: the effective pull history is unchanged
                p0, p1 = ctx.old.get(a, "_pulls"), ctx.get(a, "_pulls")
                i = z3.Int(sv.uid("pi"))
                return And(base, pulls_eff0(ctx, a) == pulls_eff0(ctx.old, a), p1.n >= 1,
                           Implies(p0.n > 0, And(p1.n == p0.n, z3.ForAll([i], Implies(And(0 <= i, i < p0.n), sv.value_eq(p1.at(i), p0.at(i)))))),
                           Implies(p0.n == 0, p1.n == 1))
            return base

        reg.add(Contract(
            f"{T}.{cls}.with_delay", self_cls=cls, props=["C13.1"], params={"time": Time}, result=TimeOpt,
            requires=lambda ctx: has_init(ctx, ctx.self), ensures=wd_post,
            modifies=(lambda ctx: [(ctx.self, "_pulls")]) if cls == "DelayToPull" else (lambda ctx: []),
            pure=(cls != "DelayToPull"),
        ))

    # DelayToPush._source_updated
    reg.add(Contract(
        f"{T}.DelayToPush._source_updated", self_cls="DelayToPush", props=["C13.1"], params={"time": Time},
        ensures=lambda ctx, r: And(not_none(ctx.get(ctx.self, "push_time")), strip_none(ctx.get(ctx.self, "push_time")).e == ctx.time.e),
        modifies=lambda ctx: [(ctx.self, "push_time")],
    ))

    # DelayToPull._pulled: keeps the last `steps` requests
    def pulled_post(ctx, r):
        a = ctx.self
        p0, p1 = ctx.old.get(a, "_pulls"), ctx.get(a, "_pulls")
        steps = ctx.get(a, "steps").e
        i = z3.Int(sv.uid("pi"))
        off = p0.n + 1 - p1.n
        return And(p1.n == If(p0.n + 1 <= steps, p0.n + 1, steps), sv.value_eq(p1.at(p1.n - 1), ctx.time),
                   z3.ForAll([i], Implies(And(0 <= i, i < p1.n - 1), sv.value_eq(p1.at(i), p0.at(i + off)))))

    def pulled_inv(ctx):
        a = ctx.self
        p0, p1 = ctx.old.get(a, "_pulls"), ctx.get(a, "_pulls")
        steps = ctx.get(a, "steps").e
        i = z3.Int(sv.uid("pi"))
        off = p0.n + 1 - p1.n
        return And(p1.n >= 1, p1.n <= p0.n + 1, p1.n >= If(p0.n + 1 <= steps, p0.n + 1, steps), sv.value_eq(p1.at(p1.n - 1), ctx.time),
                   z3.ForAll([i], Implies(And(0 <= i, i < p1.n - 1), sv.value_eq(p1.at(i), p0.at(i + off)))))

    reg.add(Contract(
        f"{T}.DelayToPull._pulled", self_cls="DelayToPull", props=["C13.1"], params={"time": Time},
        requires=lambda ctx: ctx.get(ctx.self, "steps").e >= 1, ensures=pulled_post,
        modifies=lambda ctx: [(ctx.self, "_pulls")],
        loops={1: dict(invariant=pulled_inv, decreases=lambda ctx: ctx.get(ctx.self, "_pulls").n)},
    ))

    # TimeDelayAdapter.get_data: exactly one request for the shifted time reaches the source (C13.2, C02.4)
    for cls in ("DelayFixed", "DelayToPush", "DelayToPull"):
        def gd_post(ctx, r, cls=cls):
            a = ctx.self
            src = ctx.old.get(a, "_source")
            shifted = sv.STime(wd_spec(cls, ctx.old, a, ctx.time.e))
            tgt = ctx.target
            eff_tgt = sv.ite(ctx.ex.truthy(tgt, ctx.path), tgt, a)
            l0 = pull_log(ctx.old)
            info_e = ctx.ex.key_expr(ctx.old.get(a, "_output_info"))
            post = And(log_appended(ctx, src, shifted, eff_tgt), r.e == PREP(SRCVAL(a.e, l0.n), info_e))
            if cls == "DelayToPull":
                # the *original* request time is what is remembered for later pulls
                p0, p1 = ctx.old.get(a, "_pulls"), ctx.get(a, "_pulls")
                steps = ctx.get(a, "steps").e
                n_eff = If(p0.n == 0, z3.IntVal(1), p0.n)
                post = And(post, p1.n == If(n_eff + 1 <= steps, n_eff + 1, steps), sv.value_eq(p1.at(p1.n - 1), ctx.time))
            return post

        def gd_mod(ctx, cls=cls):
            m = [(None, f) for f in RETENTION_FIELDS] + [(WORLD, "$pull_log")]
            if cls == "DelayToPull":
                m.append((ctx.self, "_pulls"))
            return m

        def gd_pre(ctx, cls=cls):
            a = ctx.self
            c = And(has_init(ctx, a), Not(is_none(ctx.get(a, "_source"))), Not(is_none(ctx.get(a, "_output_info"))),
                    Not(ctx.get(a, "_static").e))
            if cls == "DelayToPull":
                c = And(c, ctx.get(a, "steps").e >= 1)
            return c

        reg.add(Contract(
            "finam.sdk.adapter.TimeDelayAdapter.get_data", self_cls=cls, props=["C13.2", "C02.4"],
            params={"time": Time, "target": TOpt(TRef("IInput"))}, result=Pay,
            requires=gd_pre, ensures=gd_post, modifies=gd_mod,
            raises={"FinamTimeError": lambda ctx: z3.BoolVal(True), "FinamNoDataError": lambda ctx: z3.BoolVal(True),
                    "FinamDataError": lambda ctx: z3.BoolVal(True)},
            name="get_data",
        ))


# =================================================================================================
# buffering adapters: notification fills the buffer, finalize empties it (C10.4, C01.4, C11)
# =================================================================================================
def register_buffers(reg):
    from .base import PREP, SRCVAL, pull_log, RETENTION_FIELDS
    from .c_output import fin_post_of, files_ok as _files_ok

    from . import c_output as _co
    reg.add(Contract(
        f"{T}.TimeCachingAdapter._finalize", self_cls="TimeCachingAdapter", props=["C10.4"], params={},
        requires=lambda ctx: _files_ok(ctx, ctx.get(ctx.self, "data")),
        ensures=lambda ctx, r: fin_post_of(ctx), modifies=lambda ctx: [(ctx.self, "data"), (WORLD, "$fexists")],
        loops={1: dict(invariant=lambda ctx: _co.FIN_INV(ctx))},
    ))

    # ---- Adapter.finalize for the buffering adapters: no spill file of the buffer survives
    reg.add(Contract(
        "finam.sdk.adapter.Adapter.finalize", self_cls="TimeCachingAdapter", props=["C10.4"], params={},
        requires=lambda ctx: _files_ok(ctx, ctx.get(ctx.self, "data")),
        ensures=lambda ctx, r: fin_post_of(ctx), modifies=lambda ctx: [(ctx.self, "data"), (WORLD, "$fexists")],
        name="finalize",
    ))

    # ---- _source_updated: one entry (time, packed pulled value) is appended
    for owner, cls in (("finam.adapters.time.TimeCachingAdapter", "TimeCachingAdapter"),
                       ("finam.adapters.time_integration.TimeIntegrationAdapter", "TimeIntegrationAdapter")):
        def su_pre(ctx):
            a = ctx.self
            d = ctx.get(a, "data")
            return And(times_set(d), sorted_strict(d), files_ok(ctx, d), names_ok(ctx, a, d), ctx.get(a, "_mem_counter").e >= 0,
                       Not(is_none(ctx.get(a, "_source"))), Not(ctx.get(a, "_static").e), Not(is_none(ctx.get(a, "_input_info"))),
                       Implies(d.n > 0, tm(d, d.n - 1) < ctx.time.e))

        def su_post(ctx, r, cls=cls):
            a = ctx.self
            d0, d1 = ctx.old.get(a, "data"), ctx.get(a, "data")
            i = z3.Int(sv.uid("su"))
            l0 = pull_log(ctx.old)
            new = d1.at(d0.n)
            post = And(d1.n == d0.n + 1, z3.ForAll([i], Implies(And(0 <= i, i < d0.n), sv.value_eq(d1.at(i), d0.at(i)))),
                       Not(is_none(new.items[0])), strip_none(new.items[0]).e == ctx.time.e,
                       val_in(ctx, new.items[1]) == SRCVAL(a.e, l0.n),
                       times_set(d1), sorted_strict(d1), files_ok(ctx, d1), names_ok(ctx, a, d1))
            if cls == "TimeIntegrationAdapter":
                p0, p1 = ctx.old.get(a, "_prev_time"), ctx.get(a, "_prev_time")
                post = And(post, Not(is_none(p1)), strip_none(p1).e == If(is_none(p0), ctx.time.e, strip_none(p0).e))
            return post

        def su_mod(ctx, cls=cls):
            m = [(None, f) for f in RETENTION_FIELDS] + [(WORLD, "$pull_log"), (WORLD, "$fdata"), (ctx.self, "_mem_counter")]
            if cls == "TimeIntegrationAdapter":
                m.append((ctx.self, "_prev_time"))
            return m

        reg.add(Contract(
            f"{owner}._source_updated", self_cls=cls, props=["C10.1", "C11.1", "C01.4"], params={"time": Time},
            requires=su_pre, ensures=su_post, modifies=su_mod,
            raises={"FinamTimeError": lambda ctx: z3.BoolVal(True), "FinamNoDataError": lambda ctx: z3.BoolVal(True),
                    "FinamDataError": lambda ctx: z3.BoolVal(True)},
            name="_source_updated",
        ))

        # Adapter.source_updated for the caching adapters: the new entry is buffered before the targets are told (C11.1 / C01.4)
        def su_order(cc, argmap):
            d = cc.get(cc.self, "data")
            return And(d.n >= 1, Not(is_none(d.at(d.n - 1).items[0])), sv.value_eq(d.at(d.n - 1).items[0], argmap["time"]))

        reg.add(Contract(
            "finam.sdk.adapter.Adapter.source_updated", self_cls=cls, props=["C11.1", "C01.4", "C12.1"], params={"time": Time},
            requires=su_pre, modifies=lambda ctx, su_mod=su_mod: su_mod(ctx) + [(WORLD, "$notify_log")],
            ensures=lambda ctx, r: z3.BoolVal(True),
            raises={"FinamTimeError": lambda ctx: z3.BoolVal(True), "FinamNoDataError": lambda ctx: z3.BoolVal(True),
                    "FinamDataError": lambda ctx: z3.BoolVal(True)},
            call_checks={"notify_targets": su_order},
            name=f"source_updated<{cls}>", primary=False,
        ))


# =================================================================================================
# constructors of the time adapters (C11 / C12 / C13): the configuration is what was passed, the state starts empty
# =================================================================================================
def register_adapter_ctors(reg):
    from pyvc.sv import Real, TOpt, Bool, Int
    from pyvc.sv import Delta
    TI_ = "finam.adapters.time_integration"
    specs = [
        (f"{T}.StepTime", "StepTime", {"step": Real}, {"step": "step"}, ["C11.3"]),
        (f"{T}.DelayFixed", "DelayFixed", {"delay": Delta}, {"delay": "delay"}, ["C13.1"]),
        (f"{T}.DelayToPull", "DelayToPull", {"steps": Int, "additional_delay": Delta}, {"steps": "steps", "additional_delay": "additional_delay"}, ["C13.1"]),
        (f"{TI_}.AvgOverTime", "AvgOverTime", {"step": TOpt(Real)}, {"step": "_step"}, ["C12.3"]),
        (f"{TI_}.SumOverTime", "SumOverTime", {"step": TOpt(Real), "per_time": Bool, "initial_interval": Delta},
         {"step": "_step", "per_time": "_per_time", "initial_interval": "_initial_interval"}, ["C12.2"]),
    ]
    for qual, cls, params, stored, props in specs:
        def post(ctx, r, stored=stored, cls=cls):
            s = ctx.self
            out = {f"{f} is the argument {p}": sv.value_eq(ctx.get(s, f), ctx.arg(p)) for p, f in stored.items()}
            if cls in ("StepTime", "AvgOverTime", "SumOverTime"):
                out["the buffer starts empty"] = ctx.get(s, "data").n == 0
            if cls in ("AvgOverTime", "SumOverTime"):
                out["no window start yet"] = is_none(ctx.get(s, "_prev_time"))
            if cls == "DelayToPull":
                out["no request history yet"] = ctx.get(s, "_pulls").n == 0
            return out

        reg.add(Contract(f"{qual}.__init__", self_cls=cls, props=props, params=params, ensures=post, modifies=None,
                         raises={"ValueError": lambda ctx: z3.BoolVal(False)},
                         name=f"__init__<{cls}>", primary=False))
