"""Assembly of all contract modules, per-property metadata."""
from . import base, iface, c_output, c_input, c_time, c_integration, c_schedule, c_connect, c_info, c_components, c_grid, c_mask, c_units, c_regrid

MODULES = [c_output, c_input, c_time, c_integration, c_schedule, c_connect, c_info, c_components, c_grid, c_mask, c_units, c_regrid]

LEVEL = {}          # property -> evidence level (default "proof")
EXPLAIN = {}        # property -> what the run covers
ASSUMPTIONS = {"*": []}    # property -> extra assumptions
BOUNDED = {}        # property -> list of bounded stand-ins {name, script, args}
REPLAY = {}         # function qualname (or (qualname, self_cls)) -> replay driver file


def register(reg):
    base.schema(reg)
    base.schema2(reg)
    base.schema3(reg)
    iface.register(reg)
    for m in MODULES:
        m.register(reg)
        for k in ("LEVEL", "EXPLAIN", "REPLAY"):
            globals()[k].update(getattr(m, k, {}))
        for p, lst in getattr(m, "BOUNDED", {}).items():
            BOUNDED.setdefault(p, [])
            for b in lst:
                if b not in BOUNDED[p]:
                    BOUNDED[p].append(b)
        for p, lst in getattr(m, "ASSUMPTIONS", {}).items():
            ASSUMPTIONS.setdefault(p, [])
            for x in lst:
                if x not in ASSUMPTIONS[p]:
                    ASSUMPTIONS[p].append(x)


def install(ex):
    base.install(ex)
    base.install2(ex)
    for m in MODULES:
        if hasattr(m, "install"):
            m.install(ex)
