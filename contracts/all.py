"""Assembly of all contract modules, per-property metadata."""
from . import base, iface, c_output, c_input, c_time, c_integration, c_schedule, c_connect, c_info, c_components, c_grid, c_mask, c_units, c_regrid, c_adapters

MODULES = [c_output, c_input, c_time, c_integration, c_schedule, c_connect, c_info, c_components, c_grid, c_mask, c_units, c_regrid, c_adapters]

LEVEL = {}          # property -> evidence level (default "proof")
EXPLAIN = {}        # property -> what the run covers
ASSUMPTIONS = {"*": []}    # property -> extra assumptions
BOUNDED = {}        # property -> list of bounded stand-ins {name, script, args}
REPLAY = {}         # function qualname (or (qualname, self_cls)) -> replay driver file


def register(reg):
    base.schema(reg)
    base.schema2(reg)
    base.schema3(reg)
    iface.register(reg)
    for m in MODULES:
        m.register(reg)
        if hasattr(m, "register_lifecycle"):
            m.register_lifecycle(reg)
        for k in ("LEVEL", "EXPLAIN", "REPLAY"):
            globals()[k].update(getattr(m, k, {}))
        for p, lst in getattr(m, "BOUNDED", {}).items():
            BOUNDED.setdefault(p, [])
            for b in lst:
                if b not in BOUNDED[p]:
                    BOUNDED[p].append(b)
        for p, lst in getattr(m, "ASSUMPTIONS", {}).items():
            ASSUMPTIONS.setdefault(p, [])
            for x in lst:
                if x not in ASSUMPTIONS[p]:
                    ASSUMPTIONS[p].append(x)
    apply_depends(reg)


# Units a property depends on beyond the ones written for it: the check of property P runs every unit whose target matches
# (lesson of the seeded changes: an edit is usually caught by the unit of the function it touches, so that unit has to be part of
# the check of every property that relies on the function)
DEPENDS = [
    (("finam.schedule._find_dependencies", "Composition._update_recursive", "Composition.run", "finam.schedule._get_start_time"),
     ("C01", "C02", "C03", "C04", "C05", "C13", "C20")),
    (("finam.adapters.time.Delay", "finam.sdk.adapter.TimeDelayAdapter", "finam.adapters.time.TimeDelayAdapter"), ("C01", "C02", "C03", "C04", "C05", "C06", "C09", "C13", "C20")),
    (("finam.sdk.input.Input.", "finam.sdk.input.CallbackInput."), ("C05", "C07", "C08", "C15", "C17", "C20")),
    (("finam.data.tools.info.Info.",), ("C05", "C06", "C07", "C15", "C17", "C18")),
    (("StructuredGrid.compatible_with", "StructuredGrid.__eq__", "grid_spec.NoGrid."), ("C07", "C15")),
    (("finam.data.tools.mask.masks_", "finam.data.tools.mask.mask_specified"), ("C07", "C18")),
    (("finam.data.tools.units.", "finam.data.tools.core.prepare", "finam.data.tools.core._mask_for"), ("C07", "C08", "C17", "C18")),
    (("finam.sdk.output.Output.", "finam.sdk.output.CallbackOutput."), ("C01", "C03", "C05", "C06", "C08", "C09", "C10", "C20")),
    # the buffering adapters inherit the spill helpers of Output
    (("finam.sdk.output.Output._pack", "finam.sdk.output.Output._unpack", "finam.sdk.output.Output._check_", "finam.sdk.output.Output._clear_data",
      "finam.sdk.output.Output.__init__", "finam.sdk.output.Output.finalize"), ("C11", "C12", "C13")),
    # mask comparison goes through the canonical layout of the grids
    (("StructuredGrid.to_canonical", "StructuredGrid.from_canonical", "StructuredGrid.get_transform_to"), ("C07", "C08", "C18")),
    # the components finam ships: what the scheduling proofs assume about IComponent.update is checked on them
    (("finam.components.",), ("C01", "C02", "C03", "C20")),
    (("finam.adapters.time.", "finam.adapters.time_integration.", "finam.sdk.adapter.Adapter."), ("C01", "C05", "C06", "C09", "C10", "C11", "C12", "C13")),
    # metadata exchange through adapters: what connect (and with it cycle detection and validation) waits for
    (("finam.sdk.adapter.Adapter.get_info", "finam.sdk.adapter.Adapter.exchange_info", "finam.sdk.adapter.TimeDelayAdapter.get_info"), ("C03", "C04", "C06", "C07", "C19", "C20")),
    # validation guards the premises of the data-flow properties (single consumer below a buffering adapter, connected inputs ...)
    (("finam.schedule._check_", "Composition._validate_composition"), ("C01", "C03", "C05", "C06", "C09", "C10", "C11", "C12", "C13", "C19", "C20")),
    (("finam.tools.connect_helper.",), ("C04", "C05", "C06", "C07")),
    # geometry of a structured grid: what regridding and layout conversion take their coordinates from
    (("StructuredGrid.cell_axes", "StructuredGrid.data_axes", "StructuredGrid.data_shape", "StructuredGrid.cell_count", "StructuredGrid.point_count"), ("C14", "C15", "C16")),
    (("finam.adapters.base.",), ("C05", "C07", "C08", "C09")),
    (("Composition.connect", "Composition._connect_components", "Composition._validate_composition"), ("C03", "C04", "C05", "C06", "C10", "C19")),
    (("Composition._finalize_components", "Composition._check_status", "finam.sdk.component.Component."), ("C03", "C10")),
]


def apply_depends(reg):
    for c in reg.units:
        have = {p.split(".")[0] for p in c.props}
        for pats, props in DEPENDS:
            if any(pat in c.target for pat in pats):
                for p in props:
                    if p not in have:
                        c.props.append(f"{p}.dep")
                        have.add(p)


def install(ex):
    base.install(ex)
    base.install2(ex)
    for m in MODULES:
        if hasattr(m, "install"):
            m.install(ex)
