"""Contracts for bundled components: WeightedSum (C20.4)."""
import z3

from pyvc import sv
from pyvc.contract import Contract
from pyvc.sv import And, Or, Not, Implies, If, Bool, Int, Str, Pay, Time, TRef, TOpt, TDict, TList, TTup, TObj
from .base import WORLD, TimeOpt, is_none, strip_none, pull_log, RETENTION_FIELDS

WS = "finam.components.mergers.WeightedSum"
CONCAT = z3.Function("str.concat", sv.StrS, sv.StrS, sv.StrS)
W_SUFFIX = z3.Const("str:_weight", sv.StrS)
SUMW = z3.Function("WeightedSum.partial", sv.IntS, sv.RealS)       # sum over the first k input pairs (spec function of the unit)
PULLV = z3.Function("pulled_value", sv.IntS, sv.RealS)             # value delivered by the n-th logged pull


def pay_e(v):
    for g, x in sv.alts_of(v):
        if isinstance(x, sv.SPay):
            return x.e
    return z3.Real("nopay!dummy")


def register(reg):
    f = reg.field
    f("_inputs", TDict(Str, TRef("IInput")), "Component")
    f("_status", Int, "Component")
    f("_input_names", TList(Str))
    f("_in_data", TOpt(TDict(Str, Pay)))
    f("_out_data", TOpt(Pay))
    f("_last_update", TimeOpt)

    INS = "Component._inputs"

    def names(ctx):
        return ctx.get(ctx.self, "_input_names")

    def ins(ctx):
        return ctx.get(ctx.self, INS)

    def wkey(n):
        return CONCAT(n, W_SUFFIX)

    def pre(ctx):
        s = ctx.self
        i, j = z3.Int("ws_i"), z3.Int("ws_j")
        k = z3.Const("ws_k", sv.StrS)
        nm = names(ctx)
        return And(
            Not(is_none(ctx.get(s, "_in_data"))), ctx.get(s, "Component._status").e == 5,     # VALIDATED
            z3.ForAll([i], Implies(And(0 <= i, i < nm.n), And(ins(ctx).dom(nm.at(i).e), ins(ctx).dom(wkey(nm.at(i).e))))),
            z3.ForAll([k], Implies(ins(ctx).dom(k), ins(ctx).val(k).e > 0)),
            Or(is_none(ctx.get(s, "_last_update")), strip_none(ctx.get(s, "_last_update")).e != ctx.time.e),
        )

    def pulls_logged(ctx, res, upto):
        """the first `upto` inputs (in the order of the input map) were pulled for exactly `time`; res holds what they delivered"""
        l0, l1 = pull_log(ctx.old), pull_log(ctx)
        keys = ins(ctx).keys
        j = z3.Int(sv.uid("pj"))
        i = z3.Int(sv.uid("pi"))
        inp = lambda q: ins(ctx).val(keys.at(q).e).e
        return And(
            l1.n == l0.n + upto,
            z3.ForAll([i], Implies(And(0 <= i, i < l0.n), sv.value_eq(l1.at(i), l0.at(i)))),
            z3.ForAll([j], Implies(And(0 <= j, j < upto),
                                   And(sv.value_eq(l1.at(l0.n + j).items[1], ctx.time),                       # same time as requested
                                       strip_none(l1.at(l0.n + j).items[2]).e == inp(j), Not(is_none(l1.at(l0.n + j).items[2])),
                                       res.dom(keys.at(j).e), pay_e(res.val(keys.at(j).e)) == PULLV(l0.n + j)))),
        )

    def c1_inv(ctx):
        res = ctx.local("$res")
        keys = ins(ctx).keys
        k = z3.Const(sv.uid("ck"), sv.StrS)
        j = z3.Int(sv.uid("cj"))
        return And(pulls_logged(ctx, res, ctx.k),
                   z3.ForAll([k], res.dom(k) == z3.Exists([j], And(0 <= j, j < ctx.k, keys.at(j).e == k))))

    def term(ctx0, q):
        """value * weight of the q-th input pair, in terms of what the pulls of this call deliver"""
        nm = names(ctx0)
        l0 = pull_log(ctx0)
        idx = ins(ctx0).idx
        return PULLV(l0.n + idx(nm.at(q).e)) * PULLV(l0.n + idx(wkey(nm.at(q).e)))

    def sum_axioms(ctx):
        """SUMW(0) = 0, SUMW(k+1) = SUMW(k) + value_k * weight_k"""
        i = z3.Int("sw_i")
        nm = names(ctx)
        return [SUMW(0) == 0,
                z3.ForAll([i], Implies(And(0 <= i, i < nm.n), SUMW(i + 1) == SUMW(i) + term(ctx, i)), patterns=[SUMW(i + 1)])]

    def loop2_inv(ctx):
        s = ctx.self
        data_o = ctx.get(s, "_in_data")
        data = strip_dict(data_o)
        res = ctx.local("result")
        return And(
            Not(is_none(data_o)),
            If(ctx.k == 0, is_none(res), Not(is_none(res))),
            Implies(ctx.k > 0, strip_none(res).e == SUMW(ctx.k)),
            pulls_logged(ctx, data, ins(ctx).keys.n), all_inputs_present(ctx, data),
        )

    def strip_dict(v):
        for g, x in sv.alts_of(v):
            if isinstance(x, sv.SDict):
                return x
        raise KeyError("no dict alternative")

    def all_inputs_present(ctx, data):
        k = z3.Const(sv.uid("ak"), sv.StrS)
        return z3.ForAll([k], data.dom(k) == ins(ctx).dom(k))

    def post(ctx, r):
        s = ctx.self
        nm = names(ctx)
        data_o = ctx.get(s, "_in_data")
        data = strip_dict(data_o)
        return And(
            Not(is_none(data_o)),
            pulls_logged(ctx, data, ins(ctx).keys.n),                                   # every input pulled, for the requested time
            Not(is_none(ctx.get(s, "_last_update"))), strip_none(ctx.get(s, "_last_update")).e == ctx.time.e,
            Implies(nm.n > 0, And(Not(is_none(r)), strip_none(r).e == SUMW(nm.n))),      # the weighted sum over all pairs
            sv.value_eq(ctx.get(s, "_out_data"), r),
        )

    reg.add(Contract(
        f"{WS}._get_data", self_cls="WeightedSum", props=["C20.4"], params={"_caller": TRef("IOutput"), "time": Time},
        result=TOpt(Pay), requires=pre, ensures=post, axioms=sum_axioms,
        modifies=lambda ctx: [(None, f) for f in RETENTION_FIELDS + ["_cached_data"]] +
        [(WORLD, "$pull_log"), (ctx.self, "_in_data"), (ctx.self, "_out_data"), (ctx.self, "_last_update")],
        raises={"FinamTimeError": lambda ctx: z3.BoolVal(True), "FinamNoDataError": lambda ctx: z3.BoolVal(True),
                "FinamDataError": lambda ctx: z3.BoolVal(True)},
        loops={"c1": dict(invariant=c1_inv, locals={"$res": TDict(Str, Pay)}),
               1: dict(invariant=loop2_inv, locals={"result": TOpt(Pay)})},
        name="_get_data<new time>",
    ))


REPLAY_EXTRA = {"finam.sdk.component.Component.update": "finished_status.py", "finam.sdk.component.Component.validate": "finished_status.py"}
BOUNDED = {"C20": [{"name": "pull-based-and-static-slots", "script": "replay/drivers/bnd_c20.py", "args": ["--json"], "timeout": 900}]}
REPLAY = {f"{WS}._get_data": "bnd_c20.py", **REPLAY_EXTRA}


# =================================================================================================
# sdk.Component: the life-cycle wrappers around the user hooks (C03.1)
# =================================================================================================
def register_lifecycle(reg):
    from .c_schedule import st
    register_merger_guards(reg)
    register_callback_component(reg)
    register_other_components(reg)
    COMP = "finam.sdk.component.Component"
    reg.field("$hook_status", sv.Int)      # ghost: the status the component had when its hook returned
    reg.field("frozen", sv.Bool)
    reg.field("_outputs", TDict(Str, TRef("IOutput")), "Component")
    SF = "Component._status"
    status = lambda ctx: ctx.get(ctx.self, SF).e
    hooked = lambda ctx: ctx.get(ctx.self, "$hook_status").e

    # the user hooks: may report a failure (FAILED); _update may also report that the component is FINISHED
    # (documented: "After the method call, the component should have status UPDATED or FINISHED")
    for name, may in (("_initialize", ("FAILED",)), ("_validate", ("FAILED",)), ("_update", ("FAILED", "FINISHED"))):
        def post(ctx, r, may=may):
            s0, s1 = ctx.old.get(ctx.self, SF).e, status(ctx)
            return And(hooked(ctx) == s1, Or(s1 == s0, *[s1 == st(m) for m in may]))
        reg.add(Contract(f"iface:Component.{name}", params={}, note="method", verify=False,
                         modifies=lambda ctx: [(ctx.self, SF), (ctx.self, "$hook_status")], ensures=post))

    def wrapper(name, target, keep, pre):
        def post(ctx, r):
            h = hooked(ctx)
            return {f"ends {target} unless the hook reported {' / '.join(keep)} (a reported state is never overwritten)":
                    status(ctx) == If(Or(*[h == st(k) for k in keep]), h, st(target))}
        reg.add(Contract(f"{COMP}.{name}", self_cls="Component", props=["C03.1", "C03.3"], params={}, ensures=post, modifies=None,
                         requires=lambda ctx: Or(*[status(ctx) == st(p) for p in pre]),
                         virtual=[f"_{name}"], name=f"{name}<Component>", primary=False))

    # (initialize additionally freezes the slot lists: IOList is not modelled; its status logic is the same pattern as validate)
    wrapper("validate", "VALIDATED", ("FAILED",), ("CONNECTED",))
    wrapper("update", "UPDATED", ("FAILED", "FINISHED"), ("VALIDATED", "UPDATED"))


    # ------------------------------------------------------------------ finalize / connect wrappers (C03.1, C06)
    reg.field("$slot_log", TList(TRef(None)))    # ghost: slots whose ping() / finalize() the wrappers called, in order
    LOG = "$slot_log"

    def logged(ctx, obj):
        f0, f1 = ctx.old.get(WORLD, LOG), ctx.get(WORLD, LOG)
        i = z3.Int(sv.uid("sl"))
        return And(f1.n == f0.n + 1, f1.at(f0.n).e == obj, z3.ForAll([i], Implies(And(0 <= i, i < f0.n), f1.at(i).e == f0.at(i).e)))

    slot_mod = lambda ctx: [(None, f) for f in RETENTION_FIELDS + ["_connected_inputs"]] + [(WORLD, LOG), (WORLD, "$pinged")]
    reg.add(Contract("iface:IInput.ping", params={}, note="method", verify=False, modifies=slot_mod,
                     ensures=lambda ctx, r: logged(ctx, ctx.self.e)))
    reg.add(Contract("iface:IOutput.finalize", params={}, note="method", verify=False, modifies=slot_mod,
                     ensures=lambda ctx, r: logged(ctx, ctx.self.e)))
    for prop_name, fld in (("inputs", "Component._inputs"), ("outputs", "Component._outputs")):
        reg.add(Contract(f"{COMP}.{prop_name}", self_cls="Component", pure=True, verify=False,
                         result_fn=lambda ctx, fld=fld: ctx.get(ctx.self, fld)))
    for hook in ("_finalize", "_connect"):
        def hpost(ctx, r):
            return hooked(ctx) == status(ctx)
        reg.add(Contract(f"iface:Component.{hook}", params=({"start_time": TimeOpt} if hook == "_connect" else {}), note="method",
                         verify=False, modifies=lambda ctx: [(ctx.self, SF), (ctx.self, "$hook_status"), (ctx.self, "$hook_arg")], ensures=hpost
                         if hook == "_finalize" else (lambda ctx, r: And(hooked(ctx) == status(ctx),
                                                                         sv.value_eq(ctx.get(ctx.self, "$hook_arg"), ctx.start_time)))))
    reg.field("$hook_arg", TimeOpt)              # ghost: the start time the _connect hook was called with

    def each_logged(ctx, slots, upto):
        """the first `upto` slots (in map order) were logged by this call, in order, and nothing else"""
        l0, l1 = ctx.old.get(WORLD, LOG), ctx.get(WORLD, LOG)
        i, j = z3.Int(sv.uid("el")), z3.Int(sv.uid("ek"))
        return And(l1.n == l0.n + upto,
                   z3.ForAll([i], Implies(And(0 <= i, i < l0.n), l1.at(i).e == l0.at(i).e)),
                   z3.ForAll([j], Implies(And(0 <= j, j < upto), l1.at(l0.n + j).e == slots.val(slots.keys.at(j).e).e)))

    def fin_post(ctx, r):
        h = hooked(ctx)
        outs = ctx.old.get(ctx.self, "Component._outputs")
        return {"ends FINALIZED unless the hook reported FAILED": status(ctx) == If(h == st("FAILED"), h, st("FINALIZED")),
                "every output of the component is finalized exactly once, in order": each_logged(ctx, outs, outs.keys.n)}

    reg.add(Contract(f"{COMP}.finalize", self_cls="Component", props=["C03.1", "C03.3", "C10.4"], params={}, ensures=fin_post, modifies=None,
                     requires=lambda ctx: Or(*[status(ctx) == st(p) for p in ("VALIDATED", "UPDATED", "FINISHED")]),
                     loops={1: dict(invariant=lambda ctx: And(each_logged(ctx, ctx.old.get(ctx.self, "Component._outputs"), ctx.k),
                                                               status(ctx) == hooked(ctx)))},
                     virtual=["_finalize"], name="finalize<Component>", primary=False))

    def con_post(ctx, r):
        s0 = ctx.old.get(ctx.self, SF).e
        ins = ctx.old.get(ctx.self, "Component._inputs")
        first = s0 == st("INITIALIZED")
        return {"first call (INITIALIZED): every input is pinged once, in order; the component is CONNECTING; the hook is not called":
                Implies(first, And(each_logged(ctx, ins, ins.keys.n), status(ctx) == st("CONNECTING"),
                                   ctx.get(ctx.self, "$hook_status").e == ctx.old.get(ctx.self, "$hook_status").e)),
                "later calls: the hook decides the status and receives the composition start time; no slot is touched":
                Implies(Not(first), And(status(ctx) == hooked(ctx), sv.value_eq(ctx.get(ctx.self, "$hook_arg"), ctx.start_time),
                                        each_logged(ctx, ins, 0)))}

    reg.add(Contract(f"{COMP}.connect", self_cls="Component", props=["C06.1", "C03.1"], params={"start_time": TimeOpt}, ensures=con_post,
                     modifies=None,
                     requires=lambda ctx: Or(*[status(ctx) == st(p) for p in ("INITIALIZED", "CONNECTING", "CONNECTING_IDLE")]),
                     loops={1: dict(invariant=lambda ctx: And(each_logged(ctx, ctx.old.get(ctx.self, "Component._inputs"), ctx.k),
                                                               status(ctx) == ctx.old.get(ctx.self, SF).e,
                                                               ctx.get(ctx.self, "$hook_status").e == ctx.old.get(ctx.self, "$hook_status").e))},
                     raises={"FinamTimeError": lambda ctx: z3.BoolVal(False)},
                     virtual=["_connect"], name="connect<Component>", primary=False))

    reg.add(Contract(f"{COMP}.initialize", self_cls="Component", props=["C03.1", "C06.1"], params={}, modifies=None,
                     ensures=lambda ctx, r: {"ends INITIALIZED unless the hook reported FAILED":
                                             status(ctx) == If(hooked(ctx) == st("FAILED"), hooked(ctx), st("INITIALIZED"))},
                     requires=lambda ctx: status(ctx) == st("CREATED"),
                     virtual=["_initialize"], dropped_attrs=["frozen"], name="initialize<Component>", primary=False))



# =================================================================================================
# WeightedSum._check_grid / _compatible_units (C20.4): only inputs on the *same* grid (cells stored in the same layout) and with
# compatible units are merged - the sum is taken element by element
# =================================================================================================
def register_merger_guards(reg):
    from .c_info import GridT, UnitsT, GEQ, UC, ref_or0, obj_or, NOMASK, grid_of, units_of
    reg.field("_grid", GridT, "WeightedSum")
    reg.field("_units", UnitsT, "WeightedSum")
    G, U = "WeightedSum._grid", "WeightedSum._units"

    def g_bad(ctx):
        g0 = ctx.get(ctx.self, G)
        return And(Not(is_none(g0)), Not(GEQ(ref_or0(g0), ref_or0(grid_of(ctx, ctx.info)))))

    reg.add(Contract(
        f"{WS}._check_grid", self_cls="WeightedSum", props=["C20.4"], params={"info": TRef("Info")},
        requires=lambda ctx: And(ctx.info.e > 0, Not(is_none(grid_of(ctx, ctx.info)))),
        ensures=lambda ctx, r: {"the first grid is remembered, later ones are equal to it (same cells in the same layout)":
                                And(Not(is_none(ctx.get(ctx.self, G))),
                                    If(is_none(ctx.old.get(ctx.self, G)), ref_or0(ctx.get(ctx.self, G)) == ref_or0(grid_of(ctx, ctx.info)),
                                       And(ref_or0(ctx.get(ctx.self, G)) == ref_or0(ctx.old.get(ctx.self, G)),
                                           GEQ(ref_or0(ctx.get(ctx.self, G)), ref_or0(grid_of(ctx, ctx.info))))))},
        modifies=lambda ctx: [(ctx.self, G)], raises={"FinamMetaDataError": g_bad}, must_raise={"FinamMetaDataError": g_bad},
        raise_frame_empty=True, tags=["grid-eq-relation"], name="_check_grid<WeightedSum>",
    ))

    def u_bad(ctx):
        u0 = ctx.get(ctx.self, U)
        return And(Not(is_none(u0)), Not(UC(obj_or(u0, NOMASK), obj_or(units_of(ctx, ctx.info), NOMASK))))

    reg.add(Contract(
        f"{WS}._compatible_units", self_cls="WeightedSum", props=["C20.4", "C17.5"], params={"info": TRef("Info")},
        requires=lambda ctx: And(ctx.info.e > 0, ctx.get(ctx.info, "meta").dom(sv.const_str("units").e), Not(is_none(units_of(ctx, ctx.info)))),
        ensures=lambda ctx, r: {"the first units are remembered, later ones are compatible with them":
                                And(Not(is_none(ctx.get(ctx.self, U))),
                                    If(is_none(ctx.old.get(ctx.self, U)), obj_or(ctx.get(ctx.self, U), NOMASK) == obj_or(units_of(ctx, ctx.info), NOMASK),
                                       obj_or(ctx.get(ctx.self, U), NOMASK) == obj_or(ctx.old.get(ctx.self, U), NOMASK)))},
        modifies=lambda ctx: [(ctx.self, U)], raises={"FinamMetaDataError": u_bad}, must_raise={"FinamMetaDataError": u_bad},
        raise_frame_empty=True, name="_compatible_units<WeightedSum>",
    ))


# =================================================================================================
# CallbackComponent._update / _next_time (C01.7, C02.5): the scheduling proofs assume of IComponent.update that the inputs are requested
# for the time the component announced as next_time; for the component finam ships this is proved here (timedelta steps; calendar
# steps and the other bundled components: bounded stand-in bnd_components.py)
# =================================================================================================
CB = "finam.components.callback.CallbackComponent"


def register_callback_component(reg):
    from pyvc.sv import Delta
    PUSHLOG = "$push_log"
    reg.field("_input_infos", TDict(Str, TRef("Info")), "CallbackComponent")
    reg.field("_step", Delta, "CallbackComponent")
    reg.field("_callback", TObj("callback"), "CallbackComponent")
    INS, OUTS, INFOS = "Component._inputs", "Component._outputs", "CallbackComponent._input_infos"
    STEP = "CallbackComponent._step"

    def t_now(ctx):
        return strip_none(ctx.get(ctx.self, "_time")).e

    def announced(ctx0):
        return strip_none(ctx0.get(ctx0.self, "_time")).e + ctx0.get(ctx0.self, STEP).e

    def pre(ctx):
        s = ctx.self
        infos, ins = ctx.get(s, INFOS), ctx.get(s, INS)
        k = z3.Const("cbk", sv.StrS)
        outs = ctx.get(s, OUTS)
        return And(Not(is_none(ctx.get(s, "_time"))),
                   z3.ForAll([k], Implies(outs.dom(k), outs.val(k).e != s.e)),       # a component is not one of its own slots
                   z3.ForAll([k], Implies(infos.dom(k), And(ins.dom(k), ins.val(k).e > 0))))    # class invariant (_initialize adds one input per info)

    def pulls(ctx, res, upto):
        """the first `upto` inputs (in the order of the info map) were pulled, each for the announced time, nothing else was requested"""
        l0, l1 = pull_log(ctx.old), pull_log(ctx)
        infos, ins = ctx.old.get(ctx.self, INFOS), ctx.old.get(ctx.self, INS)
        i, j = z3.Int(sv.uid("cpi")), z3.Int(sv.uid("cpj"))
        parts = [l1.n == l0.n + upto,
                 z3.ForAll([i], Implies(And(0 <= i, i < l0.n), sv.value_eq(l1.at(i), l0.at(i)))),
                 z3.ForAll([j], Implies(And(0 <= j, j < upto),
                                        And(Not(is_none(l1.at(l0.n + j).items[1])), strip_none(l1.at(l0.n + j).items[1]).e == announced(ctx.old),
                                            Not(is_none(l1.at(l0.n + j).items[2])),
                                            strip_none(l1.at(l0.n + j).items[2]).e == ins.val(infos.keys.at(j).e).e)))]
        return And(*parts)

    def c1_inv(ctx):
        return And(pulls(ctx, None, ctx.k), t_now(ctx) == announced(ctx.old), Not(is_none(ctx.get(ctx.self, "_time"))),
                   ctx.get(WORLD, PUSHLOG).n == ctx.old.get(WORLD, PUSHLOG).n)

    def pushes_at_announced(ctx):
        p0, p1 = ctx.old.get(WORLD, PUSHLOG), ctx.get(WORLD, PUSHLOG)
        i = z3.Int(sv.uid("cpp"))
        return And(p1.n >= p0.n, z3.ForAll([i], Implies(And(p0.n <= i, i < p1.n),
                                                       And(Not(is_none(p1.at(i).items[1])), strip_none(p1.at(i).items[1]).e == announced(ctx.old)))))

    def l1_inv(ctx):
        infos = ctx.old.get(ctx.self, INFOS)
        return And(pulls(ctx, None, infos.keys.n), t_now(ctx) == announced(ctx.old), Not(is_none(ctx.get(ctx.self, "_time"))), pushes_at_announced(ctx))

    def post(ctx, r):
        infos = ctx.old.get(ctx.self, INFOS)
        return {"the component advances to the time it announced (next_time = time + step)": And(Not(is_none(ctx.get(ctx.self, "_time"))), t_now(ctx) == announced(ctx.old)),
                "every input is requested once, for the announced time": pulls(ctx, None, infos.keys.n),
                "outputs are published for the announced time": pushes_at_announced(ctx)}

    reg.add(Contract(
        f"{CB}._update", self_cls="CallbackComponent", props=["C01.7", "C02.5"], params={}, requires=pre, ensures=post,
        modifies=lambda ctx: [(None, f) for f in RETENTION_FIELDS + ["_cached_data", "data", "_connected_inputs", "_total_mem", "$fexists"]] +
        [(WORLD, "$pull_log"), (WORLD, PUSHLOG), (WORLD, "$notify_log"), (None, "_time")],
        raises={"FinamTimeError": lambda ctx: z3.BoolVal(True), "FinamNoDataError": lambda ctx: z3.BoolVal(True), "FinamDataError": lambda ctx: z3.BoolVal(True),
                "FinamStaticDataError": lambda ctx: z3.BoolVal(True), "KeyError": lambda ctx: z3.BoolVal(True)},
        loops={"c1": dict(invariant=c1_inv, locals={"$res": TDict(Str, Pay)}), 1: dict(invariant=l1_inv)},
        tags=["callback-component"], name="_update<CallbackComponent>",
    ))
    reg.add(Contract(
        f"{CB}._next_time", self_cls="CallbackComponent", props=["C01.7", "C02.5"], params={}, pure=True, modifies=lambda ctx: [], result=Time,
        requires=lambda ctx: Not(is_none(ctx.get(ctx.self, "_time"))),
        ensures=lambda ctx, r: {"announces time + step": r.e == announced(ctx)}, name="_next_time<CallbackComponent>",
    ))


def register_other_components(reg):
    """the same two facts for the other bundled time components with inputs: next_time announces time + step (DebugConsumer, TimeTrigger,
    CsvWriter); TimeTrigger._update advances to it, requests its input for it and publishes for it"""
    from pyvc.sv import Delta
    PUSHLOG = "$push_log"
    for cls, mod in (("DebugConsumer", "finam.components.debug"), ("TimeTrigger", "finam.components.control"), ("CsvWriter", "finam.components.writers")):
        reg.field("_step", Delta, cls)
        reg.add(Contract(
            f"{mod}.{cls}._next_time", self_cls=cls, props=["C01.7", "C02.5"], params={}, pure=True, modifies=lambda ctx: [], result=Time,
            requires=lambda ctx: And(Not(is_none(ctx.get(ctx.self, "_time"))), ctx.get(ctx.self, "Component._status").e >= 2),
            ensures=lambda ctx, r, cls=cls: {"announces time + step": r.e == strip_none(ctx.get(ctx.self, "_time")).e + ctx.get(ctx.self, f"{cls}._step").e},
            raises={"ValueError": lambda ctx: z3.BoolVal(False)}, name=f"_next_time<{cls}>",
        ))

    TT = "finam.components.control.TimeTrigger"
    INS, OUTS = "Component._inputs", "Component._outputs"
    IN, OUT = sv.const_str("In").e, sv.const_str("Out").e

    def announced(ctx0):
        return strip_none(ctx0.get(ctx0.self, "_time")).e + ctx0.get(ctx0.self, "TimeTrigger._step").e

    def pre(ctx):
        s = ctx.self
        ins, outs = ctx.get(s, INS), ctx.get(s, OUTS)
        return And(Not(is_none(ctx.get(s, "_time"))), ctx.get(s, "Component._status").e >= 2, ins.dom(IN), ins.val(IN).e > 0, outs.dom(OUT), outs.val(OUT).e > 0,
                   outs.val(OUT).e != s.e, ins.val(IN).e != s.e)

    def post(ctx, r):
        l0, l1 = pull_log(ctx.old), pull_log(ctx)
        p0, p1 = ctx.old.get(WORLD, PUSHLOG), ctx.get(WORLD, PUSHLOG)
        inp = ctx.old.get(ctx.self, INS).val(IN).e
        out = ctx.old.get(ctx.self, OUTS).val(OUT).e
        return {"the component advances to the time it announced": And(Not(is_none(ctx.get(ctx.self, "_time"))), strip_none(ctx.get(ctx.self, "_time")).e == announced(ctx.old)),
                "the input is requested once, for the announced time": And(l1.n == l0.n + 1, Not(is_none(l1.at(l0.n).items[1])), strip_none(l1.at(l0.n).items[1]).e == announced(ctx.old),
                                                                           Not(is_none(l1.at(l0.n).items[2])), strip_none(l1.at(l0.n).items[2]).e == inp),
                "what was pulled is published once, for the announced time": And(p1.n == p0.n + 1, p1.at(p0.n).items[0].e == out, Not(is_none(p1.at(p0.n).items[1])),
                                                                                 strip_none(p1.at(p0.n).items[1]).e == announced(ctx.old))}

    reg.add(Contract(
        f"{TT}._update", self_cls="TimeTrigger", props=["C01.7", "C02.5"], params={}, requires=pre, ensures=post,
        modifies=lambda ctx: [(None, f) for f in RETENTION_FIELDS + ["_cached_data", "data", "_connected_inputs", "_total_mem", "$fexists", "_time"]] +
        [(WORLD, "$pull_log"), (WORLD, PUSHLOG), (WORLD, "$notify_log")],
        raises={"FinamTimeError": lambda ctx: z3.BoolVal(True), "FinamNoDataError": lambda ctx: z3.BoolVal(True), "FinamDataError": lambda ctx: z3.BoolVal(True),
                "FinamStaticDataError": lambda ctx: z3.BoolVal(True)},
        name="_update<TimeTrigger>",
    ))


def install(ex):
    from .c_info import GEQ

    def call_cb(ex, fn, args, kwargs, path, node):
        c = ex.cur_contract
        if isinstance(fn, sv.SObj) and fn.okind == "callback" and c is not None and "callback-component" in c.tags:
            # the user callback: any mapping from output names to values (None: nothing to publish)
            return sv.mk(TDict(Str, TOpt(TObj("payload"))), sv.uid("cbout"), ())
        return None

    ex.hooks.setdefault("call_value", []).insert(0, call_cb)

    def grid_eq(ex, a, b, path, node):
        c = ex.cur_contract
        if c is not None and "grid-eq-relation" in c.tags:
            if isinstance(a, sv.SUnion):
                a = ex.expect(a, sv.SRef, path, node, what="none")
            if isinstance(b, sv.SUnion):
                b = ex.expect(b, sv.SRef, path, node, what="none")
            if isinstance(a, sv.SRef) and isinstance(b, sv.SRef):
                return GEQ(a.e, b.e)
        return None

    ex.hooks.setdefault("eq", []).insert(0, grid_eq)
