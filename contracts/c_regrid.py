"""Contracts for finam.adapters.regrid (C16): which source value reaches which target location.

The numeric search structures (scipy KDTree / LinearNDInterpolator) are assumed libraries; what is verified is the
*pairing* done by finam around them: the k-th coordinate row handed to the tree belongs to the k-th entry of the
compressed data (same mask, same memory order), and the j-th answer of the tree is written to the j-th unmasked
target location (same mask, same order as the coordinates of the query).
Grids enter through an interface: data_points (ghost array DP(grid), one row per location in the grid's memory
order -- that this row is the right physical coordinate is C14), order, data_shape.
"""
import z3

from pyvc import sv, arr
from pyvc.arr import SArr
from pyvc.contract import Contract
from pyvc.path import Unsupported
from pyvc.sv import And, Or, Not, Implies, If, Bool, Int, Real, Str, TRef, TOpt, TList, TTup, TObj

from . import c_mask
from .c_mask import NOMASK, FLEX, NONE_, order_const, unmasked_vec

R = "finam.adapters.regrid"
AR = f"{R}.ARegridding"
RANKS = (1, 2)

DPF = z3.Function("grid_data_points", sv.IntS, sv.IntS, sv.IntS, sv.RealS)   # DP(grid)[row, component]
NLOC = z3.Function("grid_data_size", sv.IntS, sv.IntS)
GDIM = z3.Function("grid_dim", sv.IntS, sv.IntS)
ORDER_C = z3.Function("grid_order_is_C", sv.IntS, sv.BoolS)
DS = z3.Function("grid_data_shape", sv.IntS, sv.IntS, sv.IntS)                 # data_shape[k]
C_STR, F_STR = sv.const_str("C").e, sv.const_str("F").e


def data_points(g):
    return SArr((NLOC(g.e), GDIM(g.e)), lambda idx, g=g: DPF(g.e, idx[0], idx[1]), "real", ident=f"DP({g.e})")


def order_sv(g):
    return sv.SStr(If(ORDER_C(g.e), C_STR, F_STR))


def shape_of(g, d):
    return [DS(g.e, z3.IntVal(k)) for k in range(d)]


def grid_ok(g, d):
    s = shape_of(g, d)
    return And(g.e > 0, *[n >= 0 for n in s], NLOC(g.e) == arr.size_of(s), GDIM(g.e) >= 1)


def mask_kinds(tag, d, shape):
    return {"None": sv.NONE, "FLEX": FLEX, "NONE": NONE_, "nomask": NOMASK, f"arr{d}": arr.fresh_arr(tag, d, "bool", shape=tuple(shape))}


def per_order(g, fn):
    """clause for both memory orders of the grid"""
    return And(Implies(ORDER_C(g.e), fn("C")), Implies(Not(ORDER_C(g.e)), fn("F")))


def rows_selected(res, pts, Mk, order):
    """res = pts[not ravel_order(Mk)]: row k of res is the row of the k-th unmasked location in that order"""
    b = unmasked_vec(Mk, order)
    sel, _rnk, cnt = arr.sel_fns(b.ident)
    k, c = z3.Int("rk"), z3.Int("rc")
    return And(z3.BoolVal(isinstance(res, SArr) and res.rank == 2), res.shape[0] == cnt, res.shape[1] == pts.shape[1],
               z3.ForAll([k, c], Implies(And(0 <= k, k < cnt, 0 <= c, c < pts.shape[1]), res.at((k, c)) == pts.at((sel(k), c)))))


def register(reg):
    register_nearest_data(reg)
    f = reg.field
    for nm in ("input_grid", "output_grid"):
        f(nm, TOpt(TRef("GridBase")))
    for nm in ("input_mask", "output_mask", "downstream_mask"):
        f(nm, TOpt(TObj("mask")))
    f("_out_mask_checked", Bool)
    f("ids", TOpt(TObj("ids")))
    f("transformer", TOpt(TObj("transformer")))

    reg.add(Contract("iface:GridBase.data_points", params={}, note="property: ghost array DP(grid), one row per data location in the grid's memory order (C14)",
                     pure=True, verify=False, result_fn=lambda ctx: data_points(ctx.self)))
    reg.add(Contract("iface:GridBase.order", params={}, note="property: 'C' or 'F'", pure=True, verify=False, result_fn=lambda ctx: order_sv(ctx.self)))

    # ------------------------------------------------------------------ _need_mask
    for kn, v in c_mask.kinds("NM").items():
        reg.add(Contract(f"{AR}._need_mask", self_cls="RegridNearest", props=["C16.1"], params={"mask": v}, result=Bool, pure=True, modifies=lambda ctx: [],
                         ensures=lambda ctx, r, v=v: r.e == z3.BoolVal(c_mask.specified(v) and v is not NOMASK),
                         name=f"_need_mask<{kn}>", primary=False, inline_calls=[f"{c_mask.M}.mask_specified"]))

    # ------------------------------------------------------------------ _get_in_coords / _get_out_coords
    for d in RANKS:
        for which, gfield, mfield, fn in (("in", "input_grid", "input_mask", "_get_in_coords"), ("out", "output_grid", "output_mask", "_get_out_coords")):
            g = sv.SRef(z3.Int(f"rg.{which}grid"), "GridBase")
            for kn, mk in mask_kinds(f"RM{which}{d}", d, shape_of(g, d)).items():
                if kn == "None":
                    continue      # excluded by _get_info ("Missing ... mask specification") before coordinates are built

                def pre(ctx, g=g, mk=mk, gfield=gfield, mfield=mfield, d=d, which=which):
                    p, ex, s = ctx.path, ctx.ex, ctx.self
                    p.heap_set(ex, s, gfield, g)
                    p.heap_set(ex, s, mfield, mk)
                    extra = []
                    if which == "out":
                        p.heap_set(ex, s, "transformer", sv.NONE)     # same CRS on both sides (pyproj is an assumed library otherwise)
                        extra.append(ctx.get(s, "_out_mask_checked").e)
                    return And(grid_ok(g, d), *extra)

                def post(ctx, r, g=g, mk=mk):
                    pts = data_points(g)
                    if isinstance(mk, SArr):
                        return {"rows are the unmasked locations in the grid's memory order": per_order(g, lambda o: rows_selected(r, pts, mk, o))}
                    return {"all locations in the grid's memory order": And(z3.BoolVal(isinstance(r, SArr) and r.rank == 2),
                                                                              arr.eq_everywhere(r, pts) if isinstance(r, SArr) and r.rank == 2 else z3.BoolVal(False))}

                reg.add(Contract(
                    f"{AR}.{fn}", self_cls="RegridNearest", props=["C16.1"], params={}, pure=True, modifies=lambda ctx: [],
                    requires=pre, ensures=post,
                    axioms=lambda ctx, mk=mk: (sum([arr.sel_axioms(unmasked_vec(mk, o)) for o in ("C", "F")], []) if isinstance(mk, SArr) else []) + arr.ravel_axioms(),
                    name=f"{fn}<d={d},{kn}>", primary=False,
                    inline_calls=[f"{c_mask.M}.mask_specified", f"{AR}._need_mask", f"{AR}._do_transform"],
                ))


# =================================================================================================
# RegridNearest._get_data (C16.2): which source value is written to which target location.  The tree's answer `ids` is an arbitrary
# integer vector (scipy assumed); proved is the composition around it: compress the input in the *input* grid's memory order, gather,
# lay the result out in the *output* grid's memory order under the output mask.
# =================================================================================================
RN = f"{R}.RegridNearest"
IDS = z3.Function("regrid_ids", sv.IntS, sv.IntS)            # ids[k]: position in the compressed input that serves the k-th output location
NIDS = z3.Const("regrid_n_ids", sv.IntS)


def register_nearest_data(reg):
    reg.add(Contract("iface:GridBase.data_shape", params={}, note="property: extents of the data array", pure=True, verify=False,
                     result_fn=lambda ctx: sv.STup([sv.SInt(DS(ctx.self.e, z3.IntVal(k))) for k in range(ctx.ex.cur_contract.grid_rank)])))
    ids = SArr((NIDS,), lambda idx: IDS(idx[0]), "int", ident="ids")
    for d in (1, 2):
        gi = sv.SRef(z3.Int("rn.ingrid"), "GridBase")
        go = sv.SRef(z3.Int("rn.outgrid"), "GridBase")
        IN = arr.fresh_arr(f"RNIN{d}", d + 1, "real", shape=(z3.IntVal(1),) + tuple(shape_of(gi, d)))
        for kn, mk in mask_kinds(f"RNM{d}", d, shape_of(go, d)).items():
            if kn in ("None",):
                continue

            def pre(ctx, gi=gi, go=go, mk=mk, d=d, ids=ids):
                p, ex, s = ctx.path, ctx.ex, ctx.self
                p.heap_set(ex, s, "input_grid", gi)
                p.heap_set(ex, s, "output_grid", go)
                p.heap_set(ex, s, "output_mask", mk)
                p.heap_set(ex, s, "input_mask", NONE_)          # unmasked source (masked sources: bounded stand-in)
                p.heap_set(ex, s, "ids", ids)
                n_out = arr.size_of(shape_of(go, d))
                k = z3.Int("rnk")
                n_in = arr.size_of([z3.IntVal(1)] + shape_of(gi, d))
                cnts = [n_out]
                if isinstance(mk, SArr):
                    cnts = [arr.sel_fns(unmasked_vec(mk, o).ident)[2] for o in ("C", "F")]     # number of unmasked target locations
                return And(grid_ok(gi, d), grid_ok(go, d), gi.e != go.e, *[n >= 1 for n in shape_of(gi, d) + shape_of(go, d)],
                           *[NIDS == c_ for c_ in cnts],                                       # one answer per queried (unmasked) target location

                           z3.ForAll([k], Implies(And(0 <= k, k < NIDS), And(0 <= IDS(k), IDS(k) < n_in))))     # KDTree.query answers with valid positions

            def post(ctx, r, gi=gi, go=go, mk=mk, d=d, IN=IN):
                if not (isinstance(r, SArr) and r.rank == d):
                    return {"result has the output grid's rank": z3.BoolVal(False)}
                idx = [z3.Int(f"ri{k}") for k in range(d)]
                so, si = shape_of(go, d), [z3.IntVal(1)] + shape_of(gi, d)

                def clause(oi, oo):
                    flat_pos = arr.ravel(oo, so, idx)
                    if isinstance(mk, SArr):
                        _sel, rnk, _cnt = arr.sel_fns(unmasked_vec(mk, oo).ident)
                        guard, k = Not(mk.at(tuple(idx))), rnk(flat_pos)
                    else:
                        guard, k = z3.BoolVal(True), flat_pos
                    return z3.ForAll(idx, Implies(And(arr.in_box(so, idx), guard), r.at(tuple(idx)) == IN.at(arr.unravel(oi, si, IDS(k)))))

                return {"shape of the output grid": And(*[r.shape[k] == so[k] for k in range(d)]),
                        "target location j (output memory order, unmasked locations counted) receives input position ids[j] (input memory order)":
                        And(*[Implies(And(ORDER_C(gi.e) == (oi == "C"), ORDER_C(go.e) == (oo == "C")), clause(oi, oo)) for oi in "CF" for oo in "CF"])}

            c = Contract(
                f"{RN}._get_data", self_cls="RegridNearest", props=["C16.2"], params={"time": sv.Time, "target": TOpt(TRef("IInput"))},
                requires=pre, ensures=post, modifies=lambda ctx: [], pure=True,
                axioms=lambda ctx, mk=mk: (sum([arr.sel_axioms(unmasked_vec(mk, o)) for o in ("C", "F")], []) if isinstance(mk, SArr) else []) + arr.ravel_axioms(),
                raises={"FinamDataError": lambda ctx: z3.BoolVal(False)},
                virtual=["pull_data"], name=f"_get_data<nearest,d={d},{kn}>", primary=False,
                inline_calls=[f"{c_mask.M}.mask_specified", f"{c_mask.M}.is_masked_array", f"{c_mask.M}.to_compressed", f"{c_mask.M}.from_compressed",
                              f"{c_mask.M}.to_masked", f"{AR}._check_in_data"],
            )
            c.grid_rank = d
            c.regrid_in = IN
            reg.add(c)
    # the pulled source data: an arbitrary array with a time axis of length one over the input grid's data shape
    reg.add(Contract("iface:RegridNearest.pull_data", params={"time": sv.Time, "target": TOpt(TRef("IInput"))}, note="method", verify=False, pure=True,
                     result_fn=lambda ctx: ctx.ex.cur_contract.regrid_in))


def install(ex):
    def gather(ex, base, idx, path, node):
        if isinstance(base, SArr) and base.rank == 1 and isinstance(idx, SArr) and idx.rank == 1 and idx.dtype == "int":
            k = z3.Int(sv.uid("gk"))
            ex.safe(path, "index", z3.ForAll([k], Implies(And(0 <= k, k < idx.shape[0]), And(0 <= idx.at((k,)), idx.at((k,)) < base.shape[0]))), node)
            return SArr(idx.shape, lambda i, base=base, idx=idx: base.at((idx.at(i),)), base.dtype, ident=None, units=base.units)
        return None

    ex.hooks.setdefault("subscript", []).insert(0, gather)


EXPLAIN = {"C16": "VCs from the real ARegridding._need_mask / _get_in_coords / _get_out_coords (pairing of coordinate rows with the compression order) and "
                  "RegridNearest._get_data (target location j in the output grid's memory order, unmasked locations counted, receives position ids[j] of the input "
                  "flattened in the input grid's memory order; unmasked sources, ranks 1-2, every output mask kind) "
                  "plus the bounded native stand-in bnd_regrid.py (real links through RegridNearest / RegridLinear against a coordinate-based oracle)"}
BOUNDED = {"C16": [{"name": "regrid-links", "script": "replay/drivers/bnd_regrid.py", "args": ["--json"], "timeout": 1200},
                   {"name": "grid-layouts", "script": "replay/drivers/bnd_grids.py", "args": ["--json"], "timeout": 3000}]}
REPLAY = {f"{AR}._get_in_coords": "bnd_regrid.py", f"{AR}._get_out_coords": "bnd_regrid.py", f"{AR}._need_mask": "bnd_regrid.py"}
