"""Heap schema, shared spec functions and library models used by several contract modules."""
import z3

from pyvc import sv
from pyvc.sv import (Bool, Delta, Entry, Int, Pay, Real, Str, TDict, TList, TObj, TOpt, TRef, TSet, TTup, TUnion, Time,
                     And, Or, Not, Implies, If)
from pyvc.path import Unsupported

TimeOpt = TOpt(Time)
HistT = TList(TTup(TimeOpt, Entry))  # [(time, payload | file name)]


def schema(reg):
    f = reg.field
    # Output / adapters
    f("data", HistT)
    f("_time", TimeOpt)
    f("_targets", TList(TRef("IInput")))
    f("_connected_inputs", TDict(TRef("IInput"), TimeOpt))
    f("_total_mem", Int)
    f("_mem_counter", Int)
    f("_mem_limit", TOpt(Int))
    f("_mem_location", TOpt(Str))
    f("_static", Bool)
    f("_output_info", TOpt(TRef("Info")))
    f("_input_info", TOpt(TRef("Info")))
    f("_out_infos_exchanged", Int)
    f("_in_info_exchanged", Bool)
    f("_name", Str)
    f("_source", TOpt(TRef("IOutput")))
    f("_cached_data", TOpt(Pay))
    f("_transform", TOpt(TObj("transform")))
    f("base_logger_name", TOpt(Str))
    # time adapters
    f("delay", Delta)
    f("initial_time", TimeOpt)
    f("push_time", TimeOpt)
    f("steps", Int)
    f("additional_delay", Delta)
    f("_pulls", TList(Time))
    f("step", Real)
    f("_step", TOpt(Real))
    f("_prev_time", TimeOpt)
    f("_per_time", Bool)
    f("_initial_interval", Delta)
    # ghost
    f("$files", TDict(Str, Pay))  # ghost file store (content of spill files), on the world object
    f("$hist", HistT)  # ghost: everything ever published by an output


WORLD = sv.SRef(z3.IntVal(-1), None)  # the "world" object carrying ghost global state


# ---------------------------------------------------------------------------------------------
# spec helpers
# ---------------------------------------------------------------------------------------------
def t_of(entry_tuple):
    """time component (as z3 Int) of a history entry; caller must know it is not None"""
    t = entry_tuple.items[0]
    return sv._strip(t) if hasattr(sv, "_strip") else strip_none(t).e


def strip_none(v):
    if isinstance(v, sv.SUnion):
        alts = [(g, x) for g, x in v.alts if not isinstance(x, sv.SNone)]
        r = alts[-1][1]
        for g, x in reversed(alts[:-1]):
            r = sv.ite(g, x, r)
        return r
    return v


def is_none(v):
    if isinstance(v, sv.SNone):
        return z3.BoolVal(True)
    if isinstance(v, sv.SUnion):
        return Or(*[g for g, x in v.alts if isinstance(x, sv.SNone)])
    return z3.BoolVal(False)


def times_set(lst, tag="i"):
    """all entry times of a history are datetimes (not None)"""
    i = z3.Int(sv.uid(tag))
    return z3.ForAll([i], Implies(And(0 <= i, i < lst.n), Not(is_none(lst.at(i).items[0]))))


def tm(lst, i):
    return strip_none(lst.at(i).items[0]).e


def sorted_strict(lst):
    i = z3.Int(sv.uid("si"))
    j = z3.Int(sv.uid("sj"))
    return z3.ForAll([i, j], Implies(And(0 <= i, i < j, j < lst.n), tm(lst, i) < tm(lst, j)))


def absdiff(a, b):
    return If(a >= b, a - b, b - a)


def entry_is_str(entry):
    """z3 Bool: the entry (str | payload) is a file name"""
    if isinstance(entry, sv.SUnion):
        return Or(*[g for g, x in entry.alts if isinstance(x, sv.SStr)])
    return z3.BoolVal(isinstance(entry, sv.SStr))


def entry_parts(entry):
    s = p = None
    for g, x in sv.alts_of(entry):
        if isinstance(x, sv.SStr):
            s = x
        elif isinstance(x, sv.SPay):
            p = x
    return s, p


FILEPAY = z3.Function("filepay", sv.StrS, sv.RealS)  # magnitude stored in a spill file


def val_of(entry):
    """Val(entry): the payload an entry stands for (in RAM: itself; spilled: the file content)"""
    s, p = entry_parts(entry)
    if s is None:
        return p.e
    if p is None:
        return FILEPAY(s.e)
    return If(entry_is_str(entry), FILEPAY(s.e), p.e)


# ---------------------------------------------------------------------------------------------
# library models
# ---------------------------------------------------------------------------------------------
NBYTES = z3.Function("nbytes", sv.RealS, sv.IntS)
SHARE = z3.Function("may_share_memory", sv.RealS, sv.RealS, sv.BoolS)


def install(ex):
    def getattr_hook(ex, base, attr, path, node):
        if isinstance(base, sv.SPay):
            if attr == "nbytes":
                e = NBYTES(base.e)
                path.assume(e >= 0)
                return sv.SInt(e)
            if attr in ("data", "magnitude"):
                return base
            if attr == "size":
                e = z3.Function("size", sv.RealS, sv.IntS)(base.e)
                path.assume(e >= 0)
                return sv.SInt(e)
            if attr == "to_reduced_units":
                return sv.SPy("libfn", lambda ex, p, a, k, n, base=base: base)
        return None

    ex.hooks.setdefault("getattr", []).append(getattr_hook)

    def may_share(ex, path, args, kwargs, node):
        a, b = args
        return sv.SBool(SHARE(a.e, b.e))

    ex.ext_models["numpy.may_share_memory"] = may_share
    ex.pure_ext.add("np.may_share_memory")
