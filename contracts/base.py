"""Heap schema, shared spec functions and library models used by several contract modules."""
import z3

from pyvc import sv
from pyvc.sv import (Bool, Delta, Entry, Int, Pay, Real, Str, TDict, TList, TObj, TOpt, TRef, TSet, TTup, TUnion, Time,
                     And, Or, Not, Implies, If)
from pyvc.path import Unsupported

TimeOpt = TOpt(Time)
HistT = TList(TTup(TimeOpt, Entry))  # [(time, payload | file name)]


def schema(reg):
    f = reg.field
    # Output / adapters
    f("data", HistT)
    f("_time", TimeOpt)
    f("_targets", TList(TRef("IInput")))
    f("_connected_inputs", TDict(TRef("IInput"), TimeOpt))
    f("_total_mem", Int)
    f("_mem_counter", Int)
    f("_mem_limit", TOpt(Int))
    f("_mem_location", TOpt(Str))
    f("_static", Bool)
    f("_output_info", TOpt(TRef("Info")))
    f("_input_info", TOpt(TRef("Info")))
    f("_out_infos_exchanged", Int)
    f("_in_info_exchanged", Bool)
    f("_name", Str)
    f("_source", TOpt(TRef("IOutput")))
    f("_cached_data", TOpt(Pay))
    f("_transform", TOpt(TObj("transform")))
    f("base_logger_name", TOpt(Str))
    # time adapters
    f("delay", Delta)
    f("initial_time", TimeOpt)
    f("push_time", TimeOpt)
    f("steps", Int)
    f("additional_delay", Delta)
    f("_pulls", TList(Time))
    f("step", Real)
    f("_step", TOpt(Real))
    f("_prev_time", TimeOpt)
    f("_per_time", Bool)
    f("_initial_interval", Delta)
    # ghost
    f("$files", TDict(Str, Pay))  # ghost file store (content of spill files), on the world object
    f("$hist", HistT)  # ghost: everything ever published by an output


WORLD = sv.WORLD  # the "world" object carrying ghost global state


# ---------------------------------------------------------------------------------------------
# spec helpers
# ---------------------------------------------------------------------------------------------
def t_of(entry_tuple):
    """time component (as z3 Int) of a history entry; caller must know it is not None"""
    t = entry_tuple.items[0]
    return sv._strip(t) if hasattr(sv, "_strip") else strip_none(t).e


def strip_none(v):
    if isinstance(v, sv.SNone):
        return sv.STime(z3.Int("none!dummy"))  # never used: callers guard with Not(is_none(v))
    if isinstance(v, sv.SUnion) and all(isinstance(x, sv.SNone) for _g, x in v.alts):
        return sv.STime(z3.Int("none!dummy"))
    if isinstance(v, sv.SUnion):
        alts = [(g, x) for g, x in v.alts if not isinstance(x, sv.SNone)]
        r = alts[-1][1]
        for g, x in reversed(alts[:-1]):
            r = sv.ite(g, x, r)
        return r
    return v


def is_none(v):
    if isinstance(v, sv.SNone):
        return z3.BoolVal(True)
    if isinstance(v, sv.SUnion):
        return Or(*[g for g, x in v.alts if isinstance(x, sv.SNone)])
    return z3.BoolVal(False)


def times_set(lst, tag="i"):
    """all entry times of a history are datetimes (not None)"""
    i = z3.Int(sv.uid(tag))
    return z3.ForAll([i], Implies(And(0 <= i, i < lst.n), Not(is_none(lst.at(i).items[0]))))


def tm(lst, i):
    return strip_none(lst.at(i).items[0]).e


def sorted_strict(lst):
    i = z3.Int(sv.uid("si"))
    j = z3.Int(sv.uid("sj"))
    return z3.ForAll([i, j], Implies(And(0 <= i, i < j, j < lst.n), tm(lst, i) < tm(lst, j)))


def absdiff(a, b):
    return If(a >= b, a - b, b - a)


def entry_is_str(entry):
    """z3 Bool: the entry (str | payload) is a file name"""
    if isinstance(entry, sv.SUnion):
        return Or(*[g for g, x in entry.alts if isinstance(x, sv.SStr)])
    return z3.BoolVal(isinstance(entry, sv.SStr))


def entry_parts(entry):
    s = p = None
    for g, x in sv.alts_of(entry):
        if isinstance(x, sv.SStr):
            s = x
        elif isinstance(x, sv.SPay):
            p = x
    return s, p


def entry_str_e(entry):
    s, _p = entry_parts(entry)
    return s.e if s is not None else z3.Const("nostr", sv.StrS)


def entry_pay_e(entry):
    _s, p = entry_parts(entry)
    return p.e if p is not None else z3.Const("nopay", sv.RealS)


FILEPAY = z3.Function("filepay", sv.StrS, sv.RealS)  # magnitude stored in a spill file


def val_of(entry):
    """Val(entry): the payload an entry stands for (in RAM: itself; spilled: the file content)"""
    s, p = entry_parts(entry)
    if s is None:
        return p.e
    if p is None:
        return FILEPAY(s.e)
    return If(entry_is_str(entry), FILEPAY(s.e), p.e)


# ---------------------------------------------------------------------------------------------
# library models
# ---------------------------------------------------------------------------------------------
NBYTES = z3.Function("nbytes", sv.RealS, sv.IntS)
ISMASKED = z3.Function("is_masked_array", sv.RealS, sv.BoolS)
ANYMASKED = z3.Function("has_masked_values", sv.RealS, sv.BoolS)   # numpy.ma.is_masked(x)
DROPMASK = z3.Function("without_mask", sv.RealS, sv.RealS)        # a masked payload whose mask was lost (values of masked cells exposed)
UNITS_OF = z3.Function("units_of", sv.RealS, sv.OpaqueS)          # unit label of a payload value
REQUANT = z3.Function("requantified", sv.RealS, sv.OpaqueS, sv.RealS)   # the magnitude of a payload under another unit label
SHARE = z3.Function("may_share_memory", sv.RealS, sv.RealS, sv.BoolS)


def install(ex):
    def getattr_hook(ex, base, attr, path, node):
        if isinstance(base, sv.SPay):
            if attr == "nbytes":
                e = NBYTES(base.e)
                path.assume(e >= 0)
                return sv.SInt(e)
            if attr in ("data", "magnitude"):
                return base
            if attr == "units":
                return sv.SObj(z3.Function("units_of", sv.RealS, sv.OpaqueS)(base.e), "units")
            if attr == "size":
                e = z3.Function("size", sv.RealS, sv.IntS)(base.e)
                path.assume(e >= 0)
                return sv.SInt(e)
            if attr == "to_reduced_units":
                return sv.SPy("libfn", lambda ex, p, a, k, n, base=base: base)
        return None

    ex.hooks.setdefault("getattr", []).append(getattr_hook)

    def isinstance_hook(ex, path, v, cname, node):
        # data payloads are pint quantities wrapping numpy arrays
        if isinstance(v, sv.SPay):
            if cname == "Quantity":
                return z3.BoolVal(True)
            if cname in ("ndarray", "MaskedArray", "str", "list", "tuple", "Info"):
                return z3.BoolVal(False)
        return None

    ex.hooks.setdefault("isinstance", []).append(isinstance_hook)

    # payload = one real number per location; the leading time axis has one entry: iterating over a payload yields
    # that single time slice, stacking a one-element list gives the payload back (assumption listed in the evidence)
    def seq_hook(ex, it, path, node):
        if isinstance(it, sv.SPay):
            from pyvc.expr import Seq
            return Seq(z3.IntVal(1), lambda i, it=it: it)
        return None

    ex.hooks.setdefault("sequence", []).append(seq_hook)

    def np_stack(ex, path, args, kwargs, node, masked_aware=False):
        lst = args[0]
        items = getattr(lst, "items", None)
        if items is not None and len(items) == 1:
            y = ex.expect(items[0], sv.SPay, path, node)
            if masked_aware:
                return y
            # numpy.stack of masked slices does not carry the mask over (numpy.ma.stack does): a masked payload loses its mask
            return sv.SPay(If(ISMASKED(y.e), DROPMASK(y.e), y.e), getattr(y, "units", None))
        raise Unsupported("np.stack of a list that is not a single time slice", node)

    ex.ext_models["numpy.stack"] = np_stack
    ex.ext_models["numpy.ma.stack"] = lambda ex, path, args, kwargs, node: np_stack(ex, path, args, kwargs, node, masked_aware=True)

    def may_share(ex, path, args, kwargs, node):
        a, b = args
        return sv.SBool(SHARE(a.e, b.e))

    ex.ext_models["numpy.may_share_memory"] = may_share
    ex.pure_ext.add("np.may_share_memory")


# ---------------------------------------------------------------------------------------------
# retention vocabulary (C08-C10)
# ---------------------------------------------------------------------------------------------
RETENTION_FIELDS = ["data", "_connected_inputs", "_total_mem", "$fexists"]


def entry_eq(a, b):
    return sv.value_eq(a, b)


def suffix_of(d1, d0, tag="sx"):
    """d1 is a suffix of d0 that keeps the newest entry (if any); stated in both index directions
    (logically redundant, gives the solver a trigger on either list)"""
    i = z3.Int(sv.uid(tag))
    q = z3.Int(sv.uid(tag + "q"))
    off = d0.n - d1.n
    return And(d1.n <= d0.n, d1.n >= 0, Implies(d0.n >= 1, d1.n >= 1),
               z3.ForAll([i], Implies(And(0 <= i, i < d1.n), entry_eq(d1.at(i), d0.at(i + off)))),
               z3.ForAll([q], Implies(And(off <= q, q < d0.n), entry_eq(d0.at(q), d1.at(q - off)))))


def fexists(ctx):
    return ctx.get(WORLD, "$fexists")


def fdata(ctx):
    return ctx.get(WORLD, "$fdata")


def val_in(ctx, entry):
    """Val(F, entry) in the file store of ctx's heap"""
    s, p = entry_parts(entry)
    if s is None:
        return p.e
    fv = fdata(ctx).val(s.e).e
    if p is None:
        return fv
    return If(entry_is_str(entry), fv, p.e)


JOIN = z3.Function("os.path.join", sv.StrS, sv.StrS, sv.StrS)
JOIN_INV = z3.Function("os.path.join#inv1", sv.StrS, sv.StrS)
JOIN_DIR = z3.Function("os.path.join#dir", sv.StrS, sv.StrS)


def schema2(reg):
    f = reg.field
    f("$fexists", TSet(Str))
    f("$fdata", TDict(Str, Pay))
    f("$is_static", Bool)
    f("$needs_push", Bool)
    f("$needs_pull", Bool)
    f("$units", TOpt(TObj("units")))
    f("$itime", TimeOpt)
    f("$grid", TOpt(TObj("grid")))


def install2(ex):
    def np_save(ex, path, args, kwargs, node, masked_ok=False):
        fn = ex.expect(args[0], sv.SStr, path, node)
        mag = ex.expect(args[1], sv.SPay, path, node)
        if not masked_ok:
            # assumed contract of np.save: a MaskedArray cannot be written (NotImplementedError)
            ex.safe(path, "np.save-masked-array", Not(ISMASKED(mag.e)), node)
        ctxs = ex
        st = path.heap_get(ex, WORLD, "$fexists")
        ns = sv.SSet(lambda k, st=st, fn=fn: Or(k == fn.e, st.dom(k)), None, st.kwrap)
        ns.ksort = sv.StrS
        path.heap_set(ex, WORLD, "$fexists", ns)
        fd = path.heap_get(ex, WORLD, "$fdata")
        path.heap_set(ex, WORLD, "$fdata", ex.dict_set(fd, fn, mag))
        ex.note_write(path, WORLD, "$fexists", node)
        ex.note_write(path, WORLD, "$fdata", node)
        return sv.NONE

    def np_load(ex, path, args, kwargs, node):
        fn = ex.expect(args[0], sv.SStr, path, node)
        st = path.heap_get(ex, WORLD, "$fexists")
        ex.safe(path, "file-exists", st.dom(fn.e), node)
        return path.heap_get(ex, WORLD, "$fdata").val(fn.e)

    def os_remove(ex, path, args, kwargs, node):
        fn = ex.expect(args[0], sv.SStr, path, node)
        st = path.heap_get(ex, WORLD, "$fexists")
        ex.safe(path, "file-exists", st.dom(fn.e), node)
        ns = sv.SSet(lambda k, st=st, fn=fn: And(k != fn.e, st.dom(k)), None, st.kwrap)
        ns.ksort = sv.StrS
        path.heap_set(ex, WORLD, "$fexists", ns)
        ex.note_write(path, WORLD, "$fexists", node)
        return sv.NONE

    def os_join(ex, path, args, kwargs, node):
        a = ex.expect(args[0], sv.SStr, path, node)
        b = ex.expect(args[1], sv.SStr, path, node)
        r = JOIN(a.e, b.e)
        path.assume(JOIN_INV(r) == b.e)
        path.assume(JOIN_DIR(r) == a.e)
        return sv.SStr(r)

    def quantity(ex, path, args, kwargs, node):
        """pint Quantity(magnitude, units): a payload value carries its unit label (units_of).  Re-wrapping a value with the
        label it already has is the identity; with any other label it is a *different* payload (REQUANT), so a wrong label
        cannot go unnoticed in contracts that state the delivered value"""
        mag = ex.expect(args[0], sv.SPay, path, node)
        u = args[1] if len(args) > 1 else None
        ue = None
        if isinstance(u, sv.SObj):
            ue = u.e
        elif isinstance(u, sv.SUnion):
            # an optional unit (e.g. the "units" entry of an Info): None stands for "dimensionless"
            for g, x in reversed(u.alts):
                e = x.e if isinstance(x, sv.SObj) else z3.Const("units:dimensionless", sv.OpaqueS)
                ue = e if ue is None else sv.If(g, e, ue)
        c = ex.cur_contract
        if ue is None or (c is not None and "unit-labels-transparent" in c.tags and ex.frame_depth == 0):
            return sv.SPay(mag.e, u)
        own = UNITS_OF(mag.e)
        if sv.simp(ue).eq(sv.simp(own)):
            return sv.SPay(mag.e, u)
        r = REQUANT(mag.e, ue)
        path.assume(UNITS_OF(r) == ue)
        path.assume(Implies(ue == own, r == mag.e))
        return sv.SPay(r, u)

    def unit_one(ex, path, args, kwargs, node):
        # pint unit algebra is not modelled in the arithmetic: a unit is the real 1 (magnitudes only)
        return sv.SReal(z3.RealVal(1))

    ex.ext_models["pint.application_registry.Unit"] = unit_one
    ex.pure_ext.add("tools.UNITS.Unit")
    def is_masked(ex, path, args, kwargs, node):
        v = ex.expect(args[0], sv.SPay, path, node)
        return sv.SBool(ISMASKED(v.e))

    ex.ext_models["numpy.ma.isMaskedArray"] = is_masked
    ex.pure_ext.add("np.ma.isMaskedArray")

    def any_masked(ex, path, args, kwargs, node):
        # numpy.ma.is_masked: some element is actually masked (stronger than being a MaskedArray)
        v = ex.expect(args[0], sv.SPay, path, node)
        path.assume(Implies(ANYMASKED(v.e), ISMASKED(v.e)))
        return sv.SBool(ANYMASKED(v.e))

    ex.ext_models["numpy.ma.is_masked"] = any_masked
    ex.pure_ext.add("np.ma.is_masked")

    def dump_hook(ex, base, attr, path, node):
        if isinstance(base, sv.SPay) and attr == "dump":
            # MaskedArray.dump(file): pickles data and mask; np.load(allow_pickle=True) restores the array
            return sv.SPy("libfn", lambda ex2, p, a, k, n, base=base: np_save(ex2, p, [a[0], base], k, n, masked_ok=True))
        return None

    ex.hooks.setdefault("getattr", []).append(dump_hook)
    ex.ext_models["numpy.save"] = np_save
    ex.ext_models["numpy.load"] = np_load
    ex.ext_models["os.remove"] = os_remove
    ex.ext_models["os.path.join"] = os_join
    ex.ext_models["pint.application_registry.Quantity"] = quantity
    ex.pure_ext |= {"np.load", "os.path.join", "tools.UNITS.Quantity"}


# ---------------------------------------------------------------------------------------------
# pulls: ghost log of requests that reached a source (C13, C02, C20)
# ---------------------------------------------------------------------------------------------
PullRec = TTup(TRef("IOutput"), TimeOpt, TOpt(TRef("IInput")))  # (source, time, target)
PREP = z3.Function("prepare", sv.RealS, sv.IntS, sv.RealS)  # prepare(data, info): payload in the info's units/shape
SRCVAL = z3.Function("served", sv.IntS, sv.IntS, sv.RealS)  # what the n-th logged pull delivered


def schema3(reg):
    reg.field("$pull_log", TList(PullRec))
    reg.field("$notify_log", TList(TTup(TRef("IInput"), TimeOpt)))  # ghost: (target, time) of every source_updated call


def notify_log(ctx):
    return ctx.get(WORLD, "$notify_log")


def notified(ctx, l0, l1, targets, upto, time_sv):
    """l1 = l0 ++ [(targets[i], time) for i < upto]"""
    i = z3.Int(sv.uid("ni"))
    return And(l1.n == l0.n + upto,
               z3.ForAll([i], Implies(And(0 <= i, i < l0.n), sv.value_eq(l1.at(i), l0.at(i)))),
               z3.ForAll([i], Implies(And(0 <= i, i < upto),
                                      And(sv.value_eq(l1.at(l0.n + i).items[0], targets.at(i)),
                                          sv.value_eq(l1.at(l0.n + i).items[1], time_sv)))))


def pull_log(ctx):
    return ctx.get(WORLD, "$pull_log")


def log_appended(ctx, src, time_sv, target_sv):
    """the pull log grew by exactly one record (src, time, target)"""
    l0, l1 = pull_log(ctx.old), pull_log(ctx)
    i = z3.Int(sv.uid("li"))
    rec = l1.at(l0.n)
    return And(l1.n == l0.n + 1,
               z3.ForAll([i], Implies(And(0 <= i, i < l0.n), sv.value_eq(l1.at(i), l0.at(i)))),
               sv.value_eq(rec.items[0], src), sv.value_eq(rec.items[1], time_sv), sv.value_eq(rec.items[2], target_sv))


def buffers_only_evicted(ctx, but=None):
    """every buffer is a suffix of what it was (upstream get_data only evicts)"""
    o = z3.Int(sv.uid("o"))
    d0, d1 = ctx.old.get(o, "data"), ctx.get(o, "data")
    body = suffix_of(d1, d0)
    return z3.ForAll([o], body, patterns=[d1.n])
