"""Contracts for finam.data.tools.units (C17): compatibility = same dimension, equivalence, conversion, memo cache.

pint is an assumed library, modelled as dimensional analysis:
  DIM(u)                 physical dimension of a unit (opaque)
  FAC(u1,u2), OFF(u1,u2) (1 * u1).to(u2) is defined iff DIM(u1) == DIM(u2) and maps x to FAC*x + OFF  (FAC != 0);
                         otherwise pint raises DimensionalityError
  numpy.isclose(a, b)    |a - b| <= 1e-8 + 1e-5 * |b|   (default tolerances; reals instead of floats)
The memo cache _UNIT_PAIRS_CACHE is module state ($unit_cache on the world object).
"""
import z3

from pyvc import sv
from pyvc.contract import Contract
from pyvc.path import Unsupported
from pyvc.calls import RaisedInExpr
from pyvc.sv import And, Or, Not, Implies, If, Bool, Int, Real, Str, TRef, TOpt, TList, TTup, TObj, TDict, Pay

U = "finam.data.tools.units"
UnitT = TObj("units")

DIM = z3.Function("unit_dimension", sv.OpaqueS, sv.OpaqueS)
FAC = z3.Function("unit_factor", sv.OpaqueS, sv.OpaqueS, sv.RealS)
OFF = z3.Function("unit_offset", sv.OpaqueS, sv.OpaqueS, sv.RealS)
UC = z3.Function("units_compatible", sv.OpaqueS, sv.OpaqueS, sv.BoolS)   # the relation used by the callers' contracts (c_info)
UE = z3.Function("units_equivalent", sv.OpaqueS, sv.OpaqueS, sv.BoolS)
ATOL, RTOL = z3.RealVal("1e-8"), z3.RealVal("1e-5")

_AX, (P1, P2) = sv.tuple_key_axioms([sv.OpaqueS, sv.OpaqueS])


def rabs(x):
    return If(x >= 0, x, -x)


def isclose(a, b):
    return rabs(a - b) <= ATOL + RTOL * rabs(b)


def conv1(u1, u2):
    """magnitude of (1.0 * u1).to(u2)"""
    return FAC(u1, u2) * 1 + OFF(u1, u2)


def defs():
    a, b = z3.Const("ua", sv.OpaqueS), z3.Const("ub", sv.OpaqueS)
    return _AX + [
        z3.ForAll([a, b], UC(a, b) == (DIM(a) == DIM(b)), patterns=[UC(a, b)]),
        # the answer finam gives (defined through the implementation's tolerance; its relation to "converts 1 to 1" is clause C17.1b)
        z3.ForAll([a, b], UE(a, b) == And(DIM(a) == DIM(b), isclose(conv1(a, b), z3.RealVal(1))), patterns=[UE(a, b)]),
    ]


def forall_k(k, body, pat):
    """quantifier with a trigger when the trigger term is a genuine application over the bound variable"""
    ok = z3.is_app(pat) and pat.num_args() > 0 and pat.decl().kind() == z3.Z3_OP_UNINTERPRETED and any(a.eq(k) for a in pat.children())
    return z3.ForAll([k], body, patterns=[pat]) if ok else z3.ForAll([k], body)


def cache(ctx):
    return ctx.get(sv.WORLD, "$unit_cache")


def cache_inv(ctx):
    """every memoised pair holds exactly what a fresh computation gives: answers cannot depend on earlier queries"""
    c = cache(ctx)
    k = z3.Const("ck", sv.OpaqueS)
    v = c.val(k)
    if isinstance(v, sv.SNone):
        return forall_k(k, Not(c.dom(k)), c.dom(k))   # an emptied dictionary
    return forall_k(k, Implies(c.dom(k), And(v.items[0].e == UC(P1(k), P2(k)), v.items[1].e == UE(P1(k), P2(k)))), c.dom(k))


def cache_grows(ctx):
    """the cache only gains entries (nothing memoised is dropped or changed)"""
    c0, c1 = cache(ctx.old), cache(ctx)
    k = z3.Const("cg", sv.OpaqueS)
    return forall_k(k, Implies(c0.dom(k), And(c1.dom(k), sv.value_eq(c1.val(k), c0.val(k)))), c1.dom(k))


def register(reg):
    reg.module_state[("finam.data.tools.units", "_UNIT_PAIRS_CACHE")] = "$unit_cache"
    reg.field("$unit_cache", TDict(TObj("unitpair"), TTup(Bool, Bool)))
    MOD = lambda ctx: [(sv.WORLD, "$unit_cache")]
    INL = [f"{U}._get_pint_units"]

    # ------------------------------------------------------------------ _cache_units
    def cu_post(ctx, r):
        u1, u2 = ctx.unit1.e, ctx.unit2.e
        compat, equiv = r.items[0], r.items[1]
        c = cache(ctx)
        ke = sv.tuple_key([u1, u2])
        return {
            "compatible-iff-same-dimension": compat.e == (DIM(u1) == DIM(u2)),
            "answer-is-a-function-of-the-pair": And(compat.e == UC(u1, u2), equiv.e == UE(u1, u2)),
            "converts-1-to-1=>equivalent": Implies(And(DIM(u1) == DIM(u2), conv1(u1, u2) == 1), equiv.e),
            "equivalent=>compatible": Implies(equiv.e, compat.e),
            "equivalent=>converts-1-to-1-within-1e-5": Implies(equiv.e, rabs(conv1(u1, u2) - 1) <= z3.RealVal("1.001e-5")),
            "equivalent=>converts-1-to-1": Implies(equiv.e, conv1(u1, u2) == 1),
            "memoised": And(c.dom(ke), c.val(ke).items[0].e == compat.e, c.val(ke).items[1].e == equiv.e),
            "cache-invariant": cache_inv(ctx),
            "cache-grows-only": _others_kept(ctx, ke),
        }

    def _others_kept(ctx, ke):
        c0, c1 = cache(ctx.old), cache(ctx)
        k = z3.Const("cg", sv.OpaqueS)
        return forall_k(k, Implies(k != ke, And(c1.dom(k) == c0.dom(k), Implies(c0.dom(k), sv.value_eq(c1.val(k), c0.val(k))))), c0.dom(k))

    reg.add(Contract(
        f"{U}._cache_units", props=["C17.1"], params={"unit1": UnitT, "unit2": UnitT}, result=TTup(Bool, Bool),
        requires=cache_inv, ensures=cu_post, modifies=MOD, axioms=lambda ctx: defs(),
    ))

    # ------------------------------------------------------------------ compatible_units / equivalent_units
    for nm, rel, prop in (("compatible_units", UC, "C17.1"), ("equivalent_units", UE, "C17.1")):
        def post(ctx, r, rel=rel):
            return {
                "answer-independent-of-history": r.e == rel(ctx.unit1.e, ctx.unit2.e),
                "cache-invariant": cache_inv(ctx),
                "cache-grows-only": cache_grows(ctx),
            }
        reg.add(Contract(
            f"{U}.{nm}", props=[prop], params={"unit1": UnitT, "unit2": UnitT}, result=Bool,
            requires=cache_inv, ensures=post, modifies=MOD, axioms=lambda ctx: defs(),
            name=f"{nm}<Unit,Unit>", primary=False, inline_calls=INL,
        ))

    # ------------------------------------------------------------------ clear_units_cache
    reg.add(Contract(
        f"{U}.clear_units_cache", props=["C17.1"], params={}, requires=cache_inv,
        ensures=lambda ctx, r: {"cache-invariant": cache_inv(ctx), "empty": Not(z3.Exists([z3.Const("ce", sv.OpaqueS)], cache(ctx).dom(z3.Const("ce", sv.OpaqueS))))},
        modifies=MOD, axioms=lambda ctx: defs(),
    ))

    # ------------------------------------------------------------------ to_units
    def tu_units(ctx):
        return ctx.xdata.units.e

    def tu_bad(ctx):
        u, u2 = ctx.units.e, tu_units(ctx)
        return And(u != u2, Not(And(ctx.check_equivalent.e, UE(u, u2))), DIM(u2) != DIM(u))

    def tu_post(ctx, r):
        u, u2 = ctx.units.e, tu_units(ctx)
        x = ctx.xdata.e
        data = r.items[0] if isinstance(r, sv.STup) else r
        relabel = And(ctx.check_equivalent.e, UE(u, u2))
        out = {
            "labelled-with-target-units": z3.BoolVal(isinstance(data, sv.SPay) and data.units is not None) if not isinstance(data, sv.SPay) or data.units is None
            else data.units.e == u,
            "same-units: unchanged": Implies(u == u2, data.e == x),
            "equivalent: relabelled, numbers unchanged": Implies(And(u != u2, relabel), data.e == x),
            "foreign units: factor and offset of dimensional analysis": Implies(And(u != u2, Not(relabel)), data.e == FAC(u2, u) * x + OFF(u2, u)),
            "cache-invariant": cache_inv(ctx),
        }
        if isinstance(r, sv.STup):
            conv = r.items[1]
            out["conversion-reported-iff-converted"] = (z3.BoolVal(isinstance(conv, sv.SNone)) if isinstance(conv, (sv.SNone, sv.STup))
                                                         else z3.BoolVal(False)) == Or(u == u2, relabel)
        return out

    register_prepare(reg)

    for rep in (False, True):
        reg.add(Contract(
            f"{U}.to_units", props=["C17.2"],
            params={"xdata": sv.SPay(z3.Real("tu.x"), sv.SObj(z3.Const("tu.u2", sv.OpaqueS), "units")), "units": UnitT, "check_equivalent": Bool,
                    "report_conversion": sv.SBool(z3.BoolVal(rep))},
            requires=cache_inv, ensures=tu_post, modifies=MOD, axioms=lambda ctx: defs(),
            raises={"DimensionalityError": tu_bad}, must_raise={"DimensionalityError": tu_bad},
            name=f"to_units<report={rep}>", primary=False, inline_calls=INL + [f"{U}.check_quantified", f"{U}.is_quantified"],
            tags=["plain-payloads"],
        ))


MASKAPPLY = z3.Function("masked_with", sv.RealS, sv.OpaqueS, sv.RealS)   # np.ma.array(data=x, mask=m): payload x under mask m


def register_prepare(reg):
    """tools.prepare, unit branches (C17.3): payloads are opaque element-wise values (a real stands for every entry),
    shape handling (_check_input_shape) is an assumed contract here and covered by the bounded stand-in bnd_prepare.py"""
    from .base import ISMASKED
    from .c_info import MSPEC, obj_or, NOMASK as NOM, is_none
    CORE = "finam.data.tools.core"

    reg.add(Contract(f"{CORE}._check_input_shape", params={"data": Pay, "info": TRef("Info"), "time_entries": Int}, pure=True, verify=False,
                     result_fn=lambda ctx: ctx.data, raises={"FinamDataError": lambda ctx: z3.BoolVal(True)},
                     note="assumed: adds / checks the time axis and the grid shape, values and units unchanged (bounded stand-in bnd_prepare.py)"))

    reg.add(Contract(f"{CORE}._mask_for", params={"data": Pay, "info": TRef("Info")}, pure=True, verify=False,
                     result_fn=lambda ctx: ctx.get(ctx.info, "_mask"),
                     note="assumed: the info's mask (payloads are opaque here; that the mask is laid out like a flat payload, i.e. in the "
                          "grid's memory order, is checked by the bounded stand-in bnd_prepare.py - finding F18c)"))

    def info_units(ctx):
        meta = ctx.get(ctx.info, "meta")
        return meta.val(sv.const_str("units").e)

    def pre(ctx):
        u = info_units(ctx)
        return And(ctx.info.e > 0, ctx.get(ctx.info, "meta").dom(sv.const_str("units").e), Not(is_none(u)), cache_inv(ctx))

    def iu(ctx):
        from .base import strip_none
        return strip_none(info_units(ctx)).e

    def masked_value(ctx, x):
        mk = ctx.get(ctx.info, "_mask")
        apply = And(MSPEC(obj_or(mk, NOM)), Not(ISMASKED(x)))   # (a mask of None counts as specified: an all-False mask is attached)
        return If(apply, MASKAPPLY(x, obj_or(mk, NOM)), x)

    for quantified in (True, False):
        for rep in (False, True):
            def bad(ctx, quantified=quantified):
                return Not(UC(ctx.data.units.e, iu(ctx))) if quantified else z3.BoolVal(False)

            def post(ctx, r, quantified=quantified, rep=rep):
                data = r.items[0] if isinstance(r, sv.STup) else r
                x = ctx.data.e
                xm = masked_value(ctx, x)
                if not (isinstance(data, sv.SPay) and isinstance(data.units, sv.SObj)):
                    return {"result-is-a-quantity": z3.BoolVal(False)}
                out = {}
                if quantified:
                    ud = ctx.data.units.e
                    out["equivalent units: numbers unchanged"] = Implies(UE(ud, iu(ctx)), data.e == xm)
                    out["foreign units: factor and offset of dimensional analysis"] = Implies(Not(UE(ud, iu(ctx))), And(data.e == FAC(ud, iu(ctx)) * xm + OFF(ud, iu(ctx)), data.units.e == iu(ctx)))
                    out["label is the data's or the info's unit"] = Or(data.units.e == iu(ctx), And(UE(ud, iu(ctx)), data.units.e == ud))
                    if rep:
                        conv = r.items[1]
                        out["conversion-reported-iff-converted"] = z3.BoolVal(isinstance(conv, sv.SNone)) == UE(ud, iu(ctx)) if isinstance(conv, (sv.SNone, sv.STup)) else z3.BoolVal(False)
                else:
                    out["unquantified data: labelled with the info's units, numbers unchanged"] = And(data.e == xm, data.units.e == iu(ctx))
                out["cache-invariant"] = cache_inv(ctx)
                return out

            d = sv.SPay(z3.Real("pr.x"), sv.SObj(z3.Const("pr.ud", sv.OpaqueS), "units")) if quantified else sv.SPay(z3.Real("pr.x"))
            reg.add(Contract(
                f"{CORE}.prepare", props=["C17.3"],
                params={"data": d, "info": TRef("Info"), "time_entries": Int, "force_copy": Bool, "report_conversion": sv.SBool(z3.BoolVal(rep))},
                requires=pre, ensures=post, modifies=lambda ctx: [(sv.WORLD, "$unit_cache")], axioms=lambda ctx: defs(),
                raises={"FinamDataError": lambda ctx: z3.BoolVal(True)}, must_raise={"FinamDataError": bad},
                name=f"prepare<{'quantified' if quantified else 'plain'},report={rep}>", primary=False,
                tags=["plain-payloads"], fields={"meta": TDict(Str, TOpt(UnitT))},   # Info invariant: meta["units"] is None or a pint.Unit (Info.__init__, copy_with)
                inline_calls=[f"{U}._get_pint_units", f"{U}.is_quantified", f"{U}.compatible_units", f"{U}.equivalent_units"],
            ))


def install(ex):
    def is_unit(v):
        return isinstance(v, sv.SObj) and v.okind == "units"

    def isinst(ex, path, v, cname, node):
        if is_unit(v):
            return z3.BoolVal(cname == "Unit")
        if isinstance(v, sv.SPay) and is_unit(getattr(v, "units", None)):
            return z3.BoolVal(cname == "Quantity")
        return None

    ex.hooks.setdefault("isinstance", []).append(isinst)

    def binop(ex, op, a, b, path, node):
        import ast
        if isinstance(op, ast.Mult) and isinstance(a, (sv.SReal, sv.SInt)) and is_unit(b):
            return sv.SPay(sv.to_real(a.e), b)     # number * Unit: a Quantity
        return None

    ex.hooks.setdefault("binop", []).append(binop)

    def pay_attr(ex, base, attr, path, node):
        if not (isinstance(base, sv.SPay) and is_unit(getattr(base, "units", None))):
            return None
        u1 = base.units
        if attr == "magnitude":
            return sv.SPay(base.e)
        if attr == "units":
            return u1
        if attr == "to":
            def to(ex, path, args, kwargs, node, base=base, u1=u1):
                u2 = args[0]
                if isinstance(u2, sv.SUnion):
                    u2 = ex.expect(u2, sv.SObj, path, node, what="none")    # .to(None) is an error in pint
                if not is_unit(u2):
                    raise Unsupported(f"Quantity.to({u2})", node)
                same = DIM(u1.e) == DIM(u2.e)
                k = ex.choose(path, [same, Not(same)])
                if k == 1:
                    raise RaisedInExpr(path, ex.make_exc("DimensionalityError", node))
                return sv.SPay(FAC(u1.e, u2.e) * base.e + OFF(u1.e, u2.e), u2)
            return sv.SPy("libfn", to)
        return None

    ex.hooks.setdefault("getattr", []).insert(0, pay_attr)

    old_isclose = ex.ext_models.get("numpy.isclose")

    def np_isclose(ex, path, args, kwargs, node):
        a, b = args[0], args[1]
        tol = {"rtol": RTOL, "atol": ATOL}
        for k, v in kwargs.items():
            if k in tol and isinstance(v, (sv.SReal, sv.SInt)):
                tol[k] = sv.to_real(v.e)
            else:
                raise Unsupported(f"np.isclose({k}=...)", node)
        if not all(isinstance(x, (sv.SReal, sv.SInt, sv.SPay)) for x in (a, b)):
            if old_isclose is not None:
                return old_isclose(ex, path, args, kwargs, node)
            raise Unsupported("np.isclose on arrays", node)
        x, y = sv.to_real(a.e), sv.to_real(b.e)
        return sv.SBool(rabs(x - y) <= tol["atol"] + tol["rtol"] * rabs(y))

    ex.ext_models["numpy.isclose"] = np_isclose
    ex.pure_ext.add("np.isclose")

    from .base import ISMASKED

    def chain(name, fn):
        old = ex.ext_models.get(name)

        def model(ex, path, args, kwargs, node):
            r = fn(ex, path, args, kwargs, node)
            if r is NotImplemented:
                if old is None:
                    raise Unsupported(f"call of external function {name} on {args}", node)
                return old(ex, path, args, kwargs, node)
            return r

        ex.ext_models[name] = model

    def ma_isarray(ex, path, args, kwargs, node):
        a = args[0]
        if isinstance(a, sv.SPay):
            return sv.SBool(ISMASKED(a.e))
        return NotImplemented

    chain("numpy.ma.isarray", ma_isarray)
    ex.pure_ext.add("np.ma.isarray")

    def ma_array(ex, path, args, kwargs, node):
        d = kwargs.get("data") if "data" in kwargs else (args[0] if args else None)
        if not isinstance(d, sv.SPay):
            return NotImplemented
        mk = kwargs.get("mask")
        if mk is None:
            raise Unsupported("np.ma.array of a payload without mask", node)
        from .c_info import obj_or, NOMASK as NOM
        r = MASKAPPLY(d.e, obj_or(mk, NOM))
        path.assume(ISMASKED(r))
        return sv.SPay(r)     # a plain masked array (no units)

    chain("numpy.ma.array", ma_array)

    def np_asarray(ex, path, args, kwargs, node):
        if isinstance(args[0], sv.SPay) and getattr(args[0], "units", None) is None:
            return args[0]
        return NotImplemented

    chain("numpy.asarray", np_asarray)

    def copy_copy(ex, path, args, kwargs, node):
        if isinstance(args[0], sv.SPay):
            return args[0]     # a copy has the same value (payload identity is not modelled)
        return NotImplemented

    chain("copy.copy", copy_copy)

    def pay_copy(ex, base, attr, path, node):
        if isinstance(base, sv.SPay) and attr == "copy":
            return sv.SPy("libfn", lambda ex, p, a, k, n, base=base: base)
        return None

    ex.hooks.setdefault("getattr", []).insert(0, pay_copy)

    def isinst2(ex, path, v, cname, node):
        c = ex.cur_contract
        if isinstance(v, sv.SPay) and c is not None and "plain-payloads" in c.tags and getattr(v, "units", None) is None:
            # in these units a payload without units is a plain numpy array (lists / scalars: bounded stand-in)
            return z3.BoolVal(cname == "ndarray")
        return None

    ex.hooks["isinstance"].insert(0, isinst2)

    old_q = ex.ext_models.get("pint.application_registry.Quantity")

    def quantity(ex, path, args, kwargs, node):
        c = ex.cur_contract
        if len(args) == 2 and isinstance(args[1], sv.SUnion) and c is not None and "plain-payloads" in c.tags:
            args = [args[0], ex.expect(args[1], sv.SObj, path, node, what="none")]   # Quantity(x, None) would be dimensionless
        if len(args) == 2 and is_unit(args[1]) and isinstance(args[0], (sv.SReal, sv.SPay)) and c is not None and "plain-payloads" in c.tags:
            # units of C17: the label is carried next to the magnitude (data.units), values are magnitudes
            return sv.SPay(args[0].e, args[1])
        return old_q(ex, path, args, kwargs, node)

    ex.ext_models["pint.application_registry.Quantity"] = quantity


REPLAY = {f"{U}._cache_units": "units_equiv.py", f"{U}.equivalent_units": "units_equiv.py", f"{U}.compatible_units": "units_equiv.py",
          f"{U}.to_units": "units_equiv.py", "finam.data.tools.core.prepare": "bnd_prepare.py"}
BOUNDED = {"C17": [{"name": "prepare-payload-forms", "script": "replay/drivers/bnd_prepare.py", "args": ["--json"], "timeout": 600},
                   {"name": "units-catalogue", "script": "replay/drivers/bnd_units.py", "args": ["--json"], "timeout": 600},
                   {"name": "metadata-products", "script": "replay/drivers/bnd_info.py", "args": ["--json"], "timeout": 600}]}
EXPLAIN = {"C17": "VCs from the real _cache_units / compatible_units / equivalent_units / clear_units_cache / to_units against dimensional analysis "
                  "(pint assumed: DIM, FAC, OFF); the memo cache is module state with the invariant 'every entry equals a fresh computation'"}
