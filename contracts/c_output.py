"""Contracts for finam.sdk.output.Output (C08, C09, C10, C20)."""
import z3

from pyvc import sv
from pyvc.contract import Contract
from pyvc.sv import And, Or, Not, Implies, If, Time, Pay, Entry, TRef, TOpt, Int, Str
from .base import (WORLD, TimeOpt, absdiff, entry_is_str, entry_parts, entry_str_e, entry_pay_e, fexists, is_none, sorted_strict, strip_none,
                   suffix_of, times_set, tm, val_in, NBYTES)

OUT = "finam.sdk.output.Output"
MOD_RET = lambda ctx: [(ctx.self, "data"), (ctx.self, "_connected_inputs"), (ctx.self, "_total_mem"), (WORLD, "$fexists")]


# ------------------------------------------------------------------------------------------- invariants
def files_ok(ctx, d, tag="f"):
    """every spilled entry names an existing file; names are pairwise distinct"""
    i = z3.Int(sv.uid(tag + "i"))
    j = z3.Int(sv.uid(tag + "j"))
    fx = fexists(ctx)

    def fn(k):
        s, _p = entry_parts(d.at(k).items[1])
        return entry_str_e(d.at(k).items[1])

    def isf(k):
        return entry_is_str(d.at(k).items[1])

    return And(
        z3.ForAll([i], Implies(And(0 <= i, i < d.n, isf(i)), fx.dom(fn(i)))),
        z3.ForAll([i, j], Implies(And(0 <= i, i < j, j < d.n, isf(i), isf(j)), fn(i) != fn(j))),
    )


def all_pulled(ci):
    c = z3.Int(sv.uid("c"))
    return z3.ForAll([c], Implies(ci.dom(c), Not(is_none(ci.val(c)))))


def head_le_requests(d, ci):
    c = z3.Int(sv.uid("c"))
    return z3.ForAll([c], Implies(ci.dom(c), And(Not(is_none(ci.val(c))), tm(d, z3.IntVal(0)) <= strip_none(ci.val(c)).e)))


def out_inv(ctx, o):
    """OutInv for a non-static output / buffer"""
    d = ctx.get(o, "data")
    h = ctx.get(o, "$hist")
    ci = ctx.get(o, "_connected_inputs")
    return And(
        times_set(h), sorted_strict(h), suffix_of(d, h),
        times_set(d), sorted_strict(d),
        Implies(h.n - d.n > 0, head_le_requests(d, ci)),
        files_ok(ctx, d),
    )


def nearest_in(ctx, h, t, result, tag="near"):
    k = z3.Int("k!" + tag)
    j = z3.Int("j!" + tag)
    nearest = z3.ForAll([j], Implies(And(0 <= j, j < h.n), absdiff(t, tm(h, k)) <= absdiff(t, tm(h, j))))
    return z3.Exists([k], And(0 <= k, k < h.n, result.e == val_in(ctx, h.at(k).items[1]), nearest))


def register(reg):
    # ------------------------------------------------------------------ _unpack (C10.2 core)
    def unpack_pre(ctx):
        return Implies(entry_is_str(ctx.where), fexists(ctx).dom(entry_str_e(ctx.where)))

    reg.add(Contract(
        f"{OUT}._unpack", self_cls="Output", props=["C10.2", "C08.1"], params={"where": Entry}, result=Pay,
        requires=unpack_pre, pure=True, modifies=lambda ctx: [],
        ensures=lambda ctx, r: And(Not(entry_is_str(r)), entry_pay_e(r) == val_in(ctx, ctx.where)),
        raises={"FinamNoDataError": lambda ctx: And(entry_is_str(ctx.where),
                                                    Or(is_none(ctx.get(ctx.self, "_output_info")),
                                                       ctx.get(ctx.self, "_out_infos_exchanged") .e < ctx.get(ctx.self, "_connected_inputs").keys.n))},
        note="Val(F, entry): in-RAM payload itself, spilled: the file content (units: see C10.2)",
        tags=["unit-labels-transparent"],   # the file holds a bare magnitude; that it is reloaded with the units it was stored with is
                                            # decided by the bounded stand-in seq_adapter.py (finding F10d), not by this unit
    ))

    reg.add(Contract(
        "finam.adapters.time.TimeCachingAdapter._unpack", self_cls="TimeCachingAdapter", props=["C10.2", "C11.2"], params={"where": Entry}, result=Pay,
        requires=lambda ctx: And(unpack_pre(ctx), Implies(entry_is_str(ctx.where), Not(is_none(ctx.get(ctx.self, "_input_info"))))),
        pure=True, modifies=lambda ctx: [], tags=["unit-labels-transparent"],
        ensures=lambda ctx, r: And(Not(entry_is_str(r)), entry_pay_e(r) == val_in(ctx, ctx.where)),
    ))

    # ------------------------------------------------------------------ _interpolate (C08.1)
    def interp_pre(ctx):
        d = ctx.get(ctx.self, "data")
        return And(d.n >= 1, times_set(d), sorted_strict(d), files_ok(ctx, d), info_ready(ctx))

    def info_ready(ctx):
        return And(Not(is_none(ctx.get(ctx.self, "_output_info"))),
                   ctx.get(ctx.self, "_out_infos_exchanged").e >= ctx.get(ctx.self, "_connected_inputs").keys.n)

    def out_of_range(ctx):
        d = ctx.old.get(ctx.self, "data")
        t = ctx.time.e
        return Or(t < tm(d, z3.IntVal(0)), t > tm(d, d.n - 1))

    def interp_inv(ctx):
        d = ctx.get(ctx.self, "data")
        q = z3.Int(sv.uid("q"))
        return z3.ForAll([q], Implies(And(0 <= q, q < ctx.k), tm(d, q) < ctx.time.e))

    reg.add(Contract(
        f"{OUT}._interpolate", self_cls="Output", props=["C08.1", "C09.3", "C10.3"], params={"time": Time}, result=Pay,
        requires=interp_pre,
        ensures=lambda ctx, r: nearest_in(ctx, ctx.get(ctx.self, "data"), ctx.time.e, r),
        raises={"FinamTimeError": out_of_range}, must_raise={"FinamTimeError": out_of_range},
        modifies=lambda ctx: [], raise_frame_empty=True,
        loops={1: dict(invariant=interp_inv)},
    ))

    # ------------------------------------------------------------------ _clear_data (C09.2, C10.4)
    def clear_pre(ctx):
        d = ctx.get(ctx.self, "data")
        return And(out_inv(ctx, ctx.self), d.n >= 1, tm(d, z3.IntVal(0)) <= ctx.time.e)

    def ci_updated(ctx):
        ci0 = ctx.old.get(ctx.self, "_connected_inputs")
        ci1 = ctx.get(ctx.self, "_connected_inputs")
        c = z3.Int(sv.uid("c"))
        tgt = ctx.ex.key_expr(ctx.target)
        return And(
            ci1.dom(tgt), Not(is_none(ci1.val(tgt))), strip_none(ci1.val(tgt)).e == ctx.time.e,
            z3.ForAll([c], Implies(c != tgt, And(ci1.dom(c) == ci0.dom(c), sv.value_eq(ci1.val(c), ci0.val(c))))),
        )

    def length_bound(ctx):
        d = ctx.get(ctx.self, "data")
        ci = ctx.get(ctx.self, "_connected_inputs")
        c = z3.Int("c!slow")
        slow = z3.Exists([c], And(ci.dom(c), Not(is_none(ci.val(c))), tm(d, z3.IntVal(1)) > strip_none(ci.val(c)).e))
        return Implies(all_pulled(ci), Or(d.n == 1, slow))

    def clear_post(ctx, r):
        d0, d1 = ctx.old.get(ctx.self, "data"), ctx.get(ctx.self, "data")
        return And(out_inv(ctx, ctx.self), d1.n >= 1, ci_updated(ctx), length_bound(ctx),
                   removed_dropped(ctx, d0, d1), only_removed(ctx, d0))

    def clear_inv(ctx):
        d = ctx.get(ctx.self, "data")
        h = ctx.get(ctx.self, "$hist")
        tmin = ctx.local("t_min")
        d0 = ctx.old.get(ctx.self, "data")
        return And(d.n >= 1, suffix_of(d, h), suffix_of(d, d0), times_set(d), sorted_strict(d), files_ok(ctx, d),
                   Implies(h.n - d.n > 0, tm(d, z3.IntVal(0)) <= tmin.e),
                   removed_dropped(ctx, d0, d), only_removed(ctx, d0))

    reg.add(Contract(
        f"{OUT}._clear_data", self_cls="Output", props=["C09.2", "C10.4"],
        params={"time": Time, "target": TOpt(TRef("IInput"))},
        requires=clear_pre, ensures=clear_post, modifies=MOD_RET,
        loops={1: dict(invariant=clear_inv, decreases=lambda ctx: ctx.get(ctx.self, "data").n)},
    ))
    register2(reg)
    register3(reg)
    register_static(reg)
    register_ctor(reg)


# ================================================================================================
# second part: get_data, pinged, _pack, finalize, push_data
# ================================================================================================
FSTR = "fstr:{}-{}.npy"


def ctr_of(fn_e):
    """counter component of a spill file name  join(loc, f"{id}-{counter}.npy")"""
    from .base import JOIN_INV

    return z3.Function(FSTR + "#inv1", sv.StrS, sv.IntS)(JOIN_INV(fn_e))


def owner_of(fn_e):
    from .base import JOIN_INV

    return z3.Function(FSTR + "#inv0", sv.StrS, sv.IntS)(JOIN_INV(fn_e))


def names_ok(ctx, o, h, tag="n"):
    """every spilled entry ever published carries a name made from a counter value already used"""
    i = z3.Int(sv.uid(tag))
    s = lambda k: entry_str_e(h.at(k).items[1])
    cnt = ctx.get(o, "_mem_counter").e
    oe = o.e if isinstance(o, sv.SV) else o
    return z3.ForAll([i], Implies(And(0 <= i, i < h.n, entry_is_str(h.at(i).items[1])),
                                  And(ctr_of(s(i)) < cnt, ctr_of(s(i)) >= 0, owner_of(s(i)) == oe)))


def removed_dropped(ctx, d0, d1, tag="rd"):
    """files of entries dropped from the front of d0 are gone"""
    i = z3.Int(sv.uid(tag))
    s = lambda k: entry_str_e(d0.at(k).items[1])
    fx1 = fexists(ctx)
    return z3.ForAll([i], Implies(And(0 <= i, i < d0.n - d1.n, entry_is_str(d0.at(i).items[1])), Not(fx1.dom(s(i)))))


def only_removed(ctx, d0, tag="or"):
    """the file store lost nothing but files named by entries of d0, and gained nothing"""
    x = z3.Const(sv.uid(tag), sv.StrS)
    i = z3.Int(sv.uid(tag + "i"))
    s = lambda k: entry_str_e(d0.at(k).items[1])
    fx0, fx1 = fexists(ctx.old), fexists(ctx)
    named = z3.Exists([i], And(0 <= i, i < d0.n, entry_is_str(d0.at(i).items[1]), s(i) == x))
    return z3.ForAll([x], And(Implies(fx1.dom(x), fx0.dom(x)), Implies(And(fx0.dom(x), Not(fx1.dom(x))), named)))


def register2(reg):

    # ------------------------------------------------------------------ get_data (C08.1, C09.3, C20.1)
    def gd_nodata(ctx):
        o = ctx.self
        c0 = ctx.old
        return Or(is_none(c0.get(o, "_output_info")),
                  c0.get(o, "_out_infos_exchanged").e < c0.get(o, "_connected_inputs").keys.n,
                  c0.get(o, "data").n == 0)

    def gd_timeerr(ctx):
        h = ctx.old.get(ctx.self, "$hist")
        t = ctx.time.e
        return And(Not(gd_nodata(ctx)), Or(t < tm(h, z3.IntVal(0)), t > tm(h, h.n - 1)))

    def gd_pre(ctx):
        o = ctx.self
        ci = ctx.get(o, "_connected_inputs")
        tgt = ctx.ex.key_expr(ctx.target)
        h = ctx.get(o, "$hist")
        return And(Not(ctx.get(o, "_static").e), out_inv(ctx, o), names_ok(ctx, o, h), ci.dom(tgt),
                   Implies(Not(is_none(ci.val(tgt))), strip_none(ci.val(tgt)).e <= ctx.time.e))

    def gd_post(ctx, r):
        o = ctx.self
        h = ctx.get(o, "$hist")
        d0, d1 = ctx.old.get(o, "data"), ctx.get(o, "data")
        return And(nearest_in(ctx, h, ctx.time.e, r), out_inv(ctx, o), ci_updated_of(ctx), length_bound_of(ctx),
                   removed_dropped(ctx, d0, d1), only_removed(ctx, d0))

    reg.add(Contract(
        f"{OUT}.get_data", self_cls="Output", props=["C08.1", "C09.3", "C10.3", "C10.4"],
        params={"time": Time, "target": TOpt(TRef("IInput"))}, result=Pay,
        requires=gd_pre, ensures=gd_post, modifies=MOD_RET,
        raises={"FinamNoDataError": gd_nodata, "FinamTimeError": gd_timeerr},
        must_raise={"FinamNoDataError": gd_nodata, "FinamTimeError": gd_timeerr},
        raise_frame_empty=True,
    ))

    # ------------------------------------------------------------------ pinged (C09.1)
    def pg_dup(ctx):
        ci = ctx.old.get(ctx.self, "_connected_inputs")
        return And(Not(ctx.isinstance(ctx.source, "IAdapter")), ci.dom(ctx.source.e))

    def pg_post(ctx, r):
        ci0 = ctx.old.get(ctx.self, "_connected_inputs")
        ci1 = ctx.get(ctx.self, "_connected_inputs")
        c = z3.Int(sv.uid("c"))
        s = ctx.source.e
        return And(ci1.dom(s), is_none(ci1.val(s)),
                   z3.ForAll([c], Implies(c != s, And(ci1.dom(c) == ci0.dom(c), sv.value_eq(ci1.val(c), ci0.val(c))))),
                   out_inv(ctx, ctx.self))

    reg.add(Contract(
        f"{OUT}.pinged", self_cls="Output", props=["C09.1"], params={"source": TRef("IInput")},
        requires=lambda ctx: And(out_inv(ctx, ctx.self), ctx.get(ctx.self, "$hist").n == ctx.get(ctx.self, "data").n),
        ensures=pg_post, raises={"ValueError": pg_dup}, must_raise={"ValueError": pg_dup}, raise_frame_empty=True,
        modifies=lambda ctx: [(ctx.self, "_connected_inputs")],
    ))

    # ------------------------------------------------------------------ _pack (C10.1)
    def spill_cond(ctx):
        o = ctx.self
        c0 = ctx.old
        lim = c0.get(o, "_mem_limit")
        tot = c0.get(o, "_total_mem").e
        nb = NBYTES(ctx.data.e)
        return And(Not(is_none(lim)), 0 <= strip_none(lim).e, strip_none(lim).e < tot + nb)

    def pack_post(ctx, r):
        from .base import JOIN_DIR, fdata

        o = ctx.self
        c0 = ctx.old
        class _E:
            pass
        s, p = _E(), _E()
        s.e, p.e = entry_str_e(r), entry_pay_e(r)
        isf = entry_is_str(r)
        x = z3.Const(sv.uid("x"), sv.StrS)
        fx0, fx1 = fexists(c0), fexists(ctx)
        fd0, fd1 = fdata(c0), fdata(ctx)
        cnt0, cnt1 = c0.get(o, "_mem_counter").e, ctx.get(o, "_mem_counter").e
        tot0, tot1 = c0.get(o, "_total_mem").e, ctx.get(o, "_total_mem").e
        loc = c0.get(o, "_mem_location")
        loc_s = strip_none(loc)
        spilled = And(
            isf, fx1.dom(s.e), ctr_of(s.e) == cnt0, owner_of(s.e) == o.e, cnt1 == cnt0 + 1, tot1 == tot0,
            fd1.val(s.e).e == ctx.data.e,
            Implies(And(Not(is_none(loc)), ctx.ex.truthy(loc_s, ctx.path)), JOIN_DIR(s.e) == loc_s.e),  # below the configured location
            z3.ForAll([x], Implies(x != s.e, And(fx1.dom(x) == fx0.dom(x), fd1.val(x).e == fd0.val(x).e))),
        )
        in_ram = And(Not(isf), p.e == ctx.data.e, cnt1 == cnt0, tot1 == tot0 + NBYTES(ctx.data.e),
                     z3.ForAll([x], And(fx1.dom(x) == fx0.dom(x), fd1.val(x).e == fd0.val(x).e)))
        return If(spill_cond(ctx), spilled, in_ram)

    for scls in ("Output", "TimeCachingAdapter"):
        reg.add(Contract(
            f"{OUT}._pack", self_cls=scls, props=["C10.1", "C09.4", "C08.1"], params={"data": Pay}, result=Entry,
            requires=lambda ctx: ctx.get(ctx.self, "_mem_counter").e >= 0,
            ensures=pack_post,
            modifies=lambda ctx: [(ctx.self, "_total_mem"), (ctx.self, "_mem_counter"), (WORLD, "$fexists"), (WORLD, "$fdata")],
        ))

    # ------------------------------------------------------------------ finalize (C10.4)
    def fin_pre(ctx):
        d = ctx.get(ctx.self, "data")
        return files_ok(ctx, d)

    def fin_post(ctx, r):
        return fin_post_of(ctx)

    def _unused_fin_post(ctx, r):
        d0 = ctx.old.get(ctx.self, "data")
        i = z3.Int(sv.uid("fi"))
        s = lambda k: entry_str_e(d0.at(k).items[1])
        gone = z3.ForAll([i], Implies(And(0 <= i, i < d0.n, entry_is_str(d0.at(i).items[1])), Not(fexists(ctx).dom(s(i)))))
        return And(ctx.get(ctx.self, "data").n == 0, gone, only_removed(ctx, d0))

    global FIN_INV
    def fin_inv(ctx):
        d0 = ctx.old.get(ctx.self, "data")
        d = ctx.get(ctx.self, "data")
        i = z3.Int(sv.uid("fi"))
        x = z3.Const(sv.uid("fx"), sv.StrS)
        s = lambda k: entry_str_e(d0.at(k).items[1])
        isf = lambda k: entry_is_str(d0.at(k).items[1])
        fx0, fx1 = fexists(ctx.old), fexists(ctx)
        removed = lambda y: z3.Exists([i], And(0 <= i, i < ctx.k, isf(i), s(i) == y))
        return And(d.n == d0.n,
                   z3.ForAll([i], Implies(And(0 <= i, i < d0.n), sv.value_eq(d.at(i), d0.at(i)))),
                   z3.ForAll([x], fx1.dom(x) == And(fx0.dom(x), Not(removed(x)))))

    FIN_INV = fin_inv
    reg.add(Contract(
        f"{OUT}.finalize", self_cls="Output", props=["C10.4"], params={},
        requires=fin_pre, ensures=fin_post, modifies=lambda ctx: [(ctx.self, "data"), (WORLD, "$fexists")],
        loops={1: dict(invariant=fin_inv)},
    ))


def ci_updated_of(ctx):
    ci0 = ctx.old.get(ctx.self, "_connected_inputs")
    ci1 = ctx.get(ctx.self, "_connected_inputs")
    c = z3.Int(sv.uid("c"))
    tgt = ctx.ex.key_expr(ctx.target)
    return And(
        ci1.dom(tgt), Not(is_none(ci1.val(tgt))), strip_none(ci1.val(tgt)).e == ctx.time.e,
        z3.ForAll([c], Implies(c != tgt, And(ci1.dom(c) == ci0.dom(c), sv.value_eq(ci1.val(c), ci0.val(c))))),
    )


def length_bound_of(ctx):
    d = ctx.get(ctx.self, "data")
    ci = ctx.get(ctx.self, "_connected_inputs")
    c = z3.Int("c!slow")
    slow = z3.Exists([c], And(ci.dom(c), Not(is_none(ci.val(c))), tm(d, z3.IntVal(1)) > strip_none(ci.val(c)).e))
    return Implies(all_pulled(ci), Or(d.n == 1, slow))


def info_ready_of(ctx, o):
    return And(Not(is_none(ctx.get(o, "_output_info"))),
               ctx.get(o, "_out_infos_exchanged").e >= ctx.get(o, "_connected_inputs").keys.n)


BOUNDED = {"C08": [{"name": "output-histories", "script": "replay/drivers/seq_output.py", "args": ["--json"], "timeout": 3000}],
           "C09": [{"name": "output-histories", "script": "replay/drivers/seq_output.py", "args": ["--json"], "timeout": 3000}]}
REPLAY = {
    f"{OUT}._interpolate": ["output_hist.py", "seq_output.py"],
    f"{OUT}._clear_data": "seq_output.py", f"{OUT}.get_data": "seq_output.py", f"{OUT}.pinged": "seq_output.py",
    f"{OUT}._pack": "seq_output.py", f"{OUT}._unpack": "seq_output.py", f"{OUT}.finalize": "seq_output.py",
    f"{OUT}.push_data": "seq_output.py",
}


# ================================================================================================
# third part: notify_targets, push_data (C08.2, C01.4, C20.1)
# ================================================================================================
def register3(reg):
    from .base import RETENTION_FIELDS, PREP, notify_log, notified

    def all_suffix(ctx):
        o = z3.Int(sv.uid("o"))
        d0, d1 = ctx.old.get(o, "data"), ctx.get(o, "data")
        return z3.ForAll([o], suffix_of(d1, d0), patterns=[d1.n])

    def nt_mod(ctx):
        return [(None, f) for f in RETENTION_FIELDS] + [(WORLD, "$notify_log")]

    def nt_post(ctx, r):
        tg = ctx.old.get(ctx.self, "_targets")
        return And(all_suffix(ctx), notified(ctx, notify_log(ctx.old), notify_log(ctx), tg, tg.n, ctx.time))

    def nt_inv(ctx):
        tg = ctx.old.get(ctx.self, "_targets")
        return And(all_suffix(ctx), notified(ctx, notify_log(ctx.old), notify_log(ctx), tg, ctx.k, ctx.time))

    reg.add(Contract(
        f"{OUT}.notify_targets", self_cls="Output", props=["C08.2", "C01.4"], params={"time": TimeOpt},
        requires=lambda ctx: Or(ctx.get(ctx.self, "_static").e, Not(is_none(ctx.time))),
        ensures=nt_post, modifies=nt_mod, loops={1: dict(invariant=nt_inv)},
    ))

    # ---------------------------------------------------------------- Adapter.notify_targets / Adapter.source_updated
    AD = "finam.sdk.adapter.Adapter"
    reg.add(Contract(
        f"{AD}.notify_targets", self_cls="Adapter", props=["C08.2", "C01.4", "C13.3"], params={"time": TimeOpt},
        requires=lambda ctx: z3.BoolVal(True),
        ensures=nt_post, modifies=nt_mod, loops={1: dict(invariant=nt_inv)},
        raises={"ValueError": lambda ctx: z3.BoolVal(False)},
    ))

    # source_updated: the adapter first processes the publication itself (its hook), then tells its targets:
    # a target that pulls from inside the notification must already see the new publication (C13 delay-to-push, C11 buffers)
    def su_order_push(cc, argmap):
        a = cc.self
        pt = cc.get(a, "push_time")
        return And(Not(is_none(pt)), sv.value_eq(pt, argmap["time"]))

    reg.add(Contract(
        f"{AD}.source_updated", self_cls="DelayToPush", props=["C13.3"], params={"time": Time},
        modifies=lambda ctx: nt_mod(ctx) + [(ctx.self, "push_time")],
        ensures=lambda ctx, r: {"own hook ran": And(Not(is_none(ctx.get(ctx.self, "push_time"))), sv.value_eq(ctx.get(ctx.self, "push_time"), ctx.time)),
                                "targets notified": notified(ctx, notify_log(ctx.old), notify_log(ctx), ctx.old.get(ctx.self, "_targets"),
                                                             ctx.old.get(ctx.self, "_targets").n, ctx.time)},
        call_checks={"notify_targets": su_order_push},
        name="source_updated<DelayToPush>", primary=False,
    ))

    # ---------------------------------------------------------------- push_data, non-static output
    def has_targets(ctx):
        return ctx.old.get(ctx.self, "_targets").n > 0

    def not_exchanged(ctx):
        o = ctx.self
        c0 = ctx.old
        return And(has_targets(ctx), Or(is_none(c0.get(o, "_output_info")),
                                        c0.get(o, "_out_infos_exchanged").e < c0.get(o, "_connected_inputs").keys.n))

    def pd_pre(ctx):
        o = ctx.self
        h = ctx.get(o, "$hist")
        t_last = ctx.get(o, "_time")
        return And(Not(ctx.get(o, "_static").e), out_inv(ctx, o), names_ok(ctx, o, h), ctx.get(o, "_mem_counter").e >= 0,
                   Not(is_none(ctx.time)),
                   Implies(h.n > 0, And(Not(is_none(t_last)), strip_none(t_last).e == tm(h, h.n - 1),
                                        strip_none(ctx.time).e > tm(h, h.n - 1))))

    def pd_post(ctx, r):
        o = ctx.self
        c0 = ctx.old
        d0, d1 = c0.get(o, "data"), ctx.get(o, "data")
        tg = c0.get(o, "_targets")
        info_e = ctx.ex.key_expr(c0.get(o, "_output_info"))
        t = strip_none(ctx.time).e
        new = d1.at(d1.n - 1)
        i = z3.Int(sv.uid("pi"))
        off = d0.n + 1 - d1.n
        published = And(
            d1.n >= 1, d1.n <= d0.n + 1, Not(is_none(new.items[0])), strip_none(new.items[0]).e == t,
            val_in(ctx, new.items[1]) == PREP(ctx.data.e, info_e),
            # older entries: a suffix of the previous buffer (targets may pull and evict while being notified)
            z3.ForAll([i], Implies(And(0 <= i, i < d1.n - 1), sv.value_eq(d1.at(i), d0.at(i + off)))),
            Not(is_none(ctx.get(o, "_time"))), strip_none(ctx.get(o, "_time")).e == t,
            notified(ctx, notify_log(c0), notify_log(ctx), tg, tg.n, ctx.time),
        )
        untouched = And(d1.n == d0.n, notify_log(ctx).n == notify_log(c0).n,
                        sv.value_eq(ctx.get(o, "_time"), c0.get(o, "_time")))
        return If(has_targets(ctx), published, untouched)

    def pd_mod(ctx):
        return ([(None, f) for f in RETENTION_FIELDS] + [(WORLD, "$notify_log"), (WORLD, "$fdata"), (ctx.self, "_time"),
                                                         (ctx.self, "_mem_counter")])

    def shares(ctx):
        return has_targets(ctx)  # refusal is only possible when something would be published

    def shares_with_previous(ctx):
        """the new array shares memory with the previously published one (still in RAM)"""
        from .base import SHARE
        o = ctx.self
        c0 = ctx.old
        d0 = c0.get(o, "data")
        last = d0.at(d0.n - 1).items[1]
        info_e = ctx.ex.key_expr(c0.get(o, "_output_info"))
        return And(Not(not_exchanged(ctx)), has_targets(ctx), d0.n > 0, Not(entry_is_str(last)),
                   SHARE(entry_pay_e(last), PREP(ctx.data.e, info_e)))

    reg.add(Contract(
        f"{OUT}.push_data", self_cls="Output", props=["C08.2", "C01.4", "C10.1", "C09.5"], params={"data": Pay, "time": TimeOpt},
        requires=pd_pre, ensures=pd_post, modifies=pd_mod,
        raises={"FinamNoDataError": not_exchanged, "FinamDataError": shares},
        must_raise={"FinamNoDataError": not_exchanged, "FinamDataError": shares_with_previous},
        raise_frame_empty=True,
    ))


def fin_post_of(ctx):
    """after finalize: empty buffer, every spill file it referenced is gone, nothing else was touched"""
    d0 = ctx.old.get(ctx.self, "data")
    i = z3.Int(sv.uid("fi"))
    s = lambda k: entry_str_e(d0.at(k).items[1])
    gone = z3.ForAll([i], Implies(And(0 <= i, i < d0.n, entry_is_str(d0.at(i).items[1])), Not(fexists(ctx).dom(s(i)))))
    return And(ctx.get(ctx.self, "data").n == 0, gone, only_removed(ctx, d0))


FIN_INV = None


# ================================================================================================
# static outputs and CallbackOutput (C20.1, C20.2)
# ================================================================================================
CB_LOG_T = None


def register_static(reg):
    from .base import RETENTION_FIELDS, PREP, notify_log, notified, SHARE
    from pyvc.sv import TList, TTup, TObj

    reg.field("callback", TObj("callback"))
    reg.field("last_data", TOpt(Pay))
    reg.field("$cb_log", TList(TTup(TRef("IOutput"), TimeOpt)))   # ghost: (output, time) of every provider invocation

    def static_inv(ctx, o):
        d = ctx.get(o, "data")
        return And(ctx.get(o, "_static").e, d.n >= 0, d.n <= 1, files_ok(ctx, d),
                   Implies(d.n == 1, And(is_none(d.at(z3.IntVal(0)).items[0]), Not(is_none(ctx.get(o, "_output_info"))))))

    def info_ready(ctx, o):
        return And(Not(is_none(ctx.get(o, "_output_info"))),
                   ctx.get(o, "_out_infos_exchanged").e >= ctx.get(o, "_connected_inputs").keys.n)

    # ---- get_data on a static output: the one publication, for every request time, nothing evicted
    def sg_nodata(ctx):
        o = ctx.self
        c0 = ctx.old
        return Or(Not(info_ready(c0, o)), c0.get(o, "data").n == 0)

    def sg_post(ctx, r):
        o = ctx.self
        c0 = ctx.old
        d0, d1 = c0.get(o, "data"), ctx.get(o, "data")
        ci0, ci1 = c0.get(o, "_connected_inputs"), ctx.get(o, "_connected_inputs")
        c = z3.Int(sv.uid("c"))
        return And(r.e == val_in(ctx, d0.at(z3.IntVal(0)).items[1]), d1.n == d0.n, sv.value_eq(d1.at(z3.IntVal(0)), d0.at(z3.IntVal(0))),
                   z3.ForAll([c], And(ci1.dom(c) == ci0.dom(c), sv.value_eq(ci1.val(c), ci0.val(c)))),
                   ctx.get(o, "_total_mem").e == c0.get(o, "_total_mem").e)

    reg.add(Contract(
        f"{OUT}.get_data", self_cls="Output", props=["C20.1"], params={"time": TimeOpt, "target": TOpt(TRef("IInput"))}, result=Pay,
        primary=False, name="get_data<static>",
        requires=lambda ctx: static_inv(ctx, ctx.self), ensures=sg_post, modifies=lambda ctx: [],
        raises={"FinamNoDataError": sg_nodata}, must_raise={"FinamNoDataError": sg_nodata}, raise_frame_empty=True,
    ))

    # ---- push_data on a static output: exactly one publication, stored with time None
    def sp_has_targets(ctx):
        return ctx.old.get(ctx.self, "_targets").n > 0

    def sp_not_exchanged(ctx):
        return And(sp_has_targets(ctx), Not(info_ready(ctx.old, ctx.self)))

    def sp_second(ctx):
        return And(sp_has_targets(ctx), info_ready(ctx.old, ctx.self), ctx.old.get(ctx.self, "data").n > 0)

    def sp_post(ctx, r):
        o = ctx.self
        c0 = ctx.old
        d0, d1 = c0.get(o, "data"), ctx.get(o, "data")
        tg = c0.get(o, "_targets")
        info_e = ctx.ex.key_expr(c0.get(o, "_output_info"))
        new = d1.at(z3.IntVal(0))
        published = And(d1.n == 1, is_none(new.items[0]), val_in(ctx, new.items[1]) == PREP(ctx.data.e, info_e),
                        is_none(ctx.get(o, "_time")),
                        notified(ctx, notify_log(c0), notify_log(ctx), tg, tg.n, sv.NONE))
        untouched = And(d1.n == d0.n, notify_log(ctx).n == notify_log(c0).n)
        return If(sp_has_targets(ctx), published, untouched)

    reg.add(Contract(
        f"{OUT}.push_data", self_cls="Output", props=["C20.1"], params={"data": Pay, "time": TimeOpt},
        primary=False, name="push_data<static>",
        requires=lambda ctx: And(static_inv(ctx, ctx.self), ctx.get(ctx.self, "_mem_counter").e >= 0),
        ensures=sp_post,
        modifies=lambda ctx: [(None, f) for f in RETENTION_FIELDS] + [(WORLD, "$notify_log"), (WORLD, "$fdata"), (ctx.self, "_time"),
                                                                    (ctx.self, "_mem_counter")],
        raises={"FinamNoDataError": sp_not_exchanged, "FinamStaticDataError": sp_second, "FinamDataError": sp_has_targets},
        must_raise={"FinamNoDataError": sp_not_exchanged, "FinamStaticDataError": sp_second},
        raise_frame_empty=True,
    ))

    # ---- CallbackOutput.get_data: the provider is invoked exactly once, for exactly the requested time
    CB = "finam.sdk.output.CallbackOutput"

    def cb_log(ctx):
        return ctx.get(WORLD, "$cb_log")

    def cb_called_once(ctx):
        l0, l1 = cb_log(ctx.old), cb_log(ctx)
        i = z3.Int(sv.uid("cl"))
        return And(l1.n == l0.n + 1, l1.at(l0.n).items[0].e == ctx.self.e, sv.value_eq(l1.at(l0.n).items[1], ctx.time),
                   z3.ForAll([i], Implies(And(0 <= i, i < l0.n), sv.value_eq(l1.at(i), l0.at(i)))))

    def cg_notready(ctx):
        return Not(info_ready(ctx.old, ctx.self))

    def cg_post(ctx, r):
        o = ctx.self
        info_e = ctx.ex.key_expr(ctx.old.get(o, "_output_info"))
        l0 = cb_log(ctx.old)
        return And(cb_called_once(ctx), r.e == PREP(CBVAL(l0.n), info_e),
                   Not(is_none(ctx.get(o, "last_data"))), strip_none(ctx.get(o, "last_data")).e == r.e)

    reg.add(Contract(
        f"{CB}.get_data", self_cls="CallbackOutput", props=["C20.2"], params={"time": Time, "target": TOpt(TRef("IInput"))}, result=Pay,
        requires=lambda ctx: z3.BoolVal(True), ensures=cg_post,
        modifies=lambda ctx: [(None, f) for f in RETENTION_FIELDS + ["_cached_data", "last_data"]] + [(WORLD, "$cb_log"), (WORLD, "$pull_log")],
        raises={"FinamNoDataError": lambda ctx: z3.BoolVal(True), "FinamDataError": lambda ctx: z3.BoolVal(True),
                "FinamTimeError": lambda ctx: z3.BoolVal(True)},
        must_raise={"FinamNoDataError": cg_notready},
    ))


CBVAL = z3.Function("provider_result", sv.IntS, sv.RealS)


def install(ex):
    from pyvc.sv import TOpt as _TOpt

    def call_callback(ex, fn, args, kwargs, path, node):
        if isinstance(fn, sv.SObj) and fn.okind == "callback":
            # a provider callback: may pull the component's own inputs (upstream buffers only evict), is logged,
            # returns data or None
            from .base import RETENTION_FIELDS, suffix_of
            owner, t = args[0], args[1]
            log = path.heap_get(ex, WORLD, "$cb_log")
            n = log.n
            old = dict(path.heap)
            for f in RETENTION_FIELDS + ["_cached_data"]:
                path.heap_havoc(ex, None, f, "cb")
                ex.note_write_all(path, f, node)
            path.heap_havoc(ex, WORLD, "$pull_log", "cb")
            ex.note_write(path, WORLD, "$pull_log", node)
            rec = sv.STup([owner, t])
            path.heap_set(ex, WORLD, "$cb_log", sv.SList(sv.simp(n + 1), lambda i, log=log, n=n, rec=rec: sv.ite(i == n, rec, log.at(i)), True))
            ex.note_write(path, WORLD, "$cb_log", node)
            none = z3.Bool(sv.uid("cb.none"))
            return sv.opt(none, sv.SPay(CBVAL(n)))
        return None

    ex.hooks.setdefault("call_value", []).append(call_callback)


# =================================================================================================
# constructors of the output classes (C19.1 / C20.1): static flag and empty state as declared
# =================================================================================================
def register_ctor(reg):
    from pyvc.sv import Bool, TObj
    for cls, extra in (("Output", {"static": Bool}), ("CallbackOutput", {"callback": TObj("callback")})):
        qual = f"finam.sdk.output.{cls}.__init__"
        params = dict(extra)
        params.update({"name": TOpt(Str), "info": sv.NONE})

        def post(ctx, r, cls=cls):
            s = ctx.self
            static = ctx.static.e if cls == "Output" else z3.BoolVal(False)     # a callback output is never static
            return {"static flag as declared": ctx.get(s, "_static").e == static,
                    "nothing published, nobody connected": And(ctx.get(s, "data").n == 0, ctx.get(s, "_targets").n == 0,
                                                               ctx.get(s, "_connected_inputs").keys.n == 0, ctx.get(s, "_out_infos_exchanged").e == 0,
                                                               is_none(ctx.get(s, "_output_info"))),
                    "no memory limit of its own": And(is_none(ctx.get(s, "_mem_limit")), is_none(ctx.get(s, "_mem_location")), ctx.get(s, "_total_mem").e == 0,
                                                     ctx.get(s, "_mem_counter").e == 0)}

        reg.add(Contract(qual, self_cls=cls, props=["C19.1", "C20.1", "C09.1", "C10.5"], params=params, ensures=post,
                         raises={"ValueError": lambda ctx: is_none(ctx.name)}, must_raise={"ValueError": lambda ctx: is_none(ctx.name)},
                         modifies=lambda ctx: [(ctx.self, f) for f in ("_targets", "data", "_output_info", "base_logger_name", "_name", "_static", "_connected_inputs",
                                                                      "_out_infos_exchanged", "_time", "_mem_limit", "_mem_location", "_total_mem", "_mem_counter",
                                                                      "callback", "_logger", "last_data", "$hist")],
                         name=f"__init__<{cls}>", primary=False))
