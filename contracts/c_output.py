"""Contracts for finam.sdk.output.Output (C08, C09, C10, C20)."""
import z3

from pyvc import sv
from pyvc.contract import Contract
from pyvc.sv import And, Or, Not, Implies, If, Time, Pay, Entry
from .base import (absdiff, is_none, sorted_strict, strip_none, times_set, tm, val_of, entry_is_str)

OUT = "finam.sdk.output.Output"


def register(reg):
    # ---- _unpack: Val(entry)
    reg.add(Contract(
        f"{OUT}._unpack", self_cls="Output", params={"where": Entry}, pure=True, verify=False,
        result_fn=lambda ctx: sv.SPay(val_of(ctx.where)),
        note="spec function Val(entry); body verified in C10",
    ))

    # ---- _interpolate  (C08.1)
    def interp_pre(ctx):
        d = ctx.get(ctx.self, "data")
        return And(d.n >= 1, times_set(d), sorted_strict(d))

    def out_of_range(ctx):
        d = ctx.get(ctx.self, "data")
        t = ctx.time.e
        return Or(t < tm(d, z3.IntVal(0)), t > tm(d, d.n - 1))

    def interp_post(ctx, result):
        d = ctx.get(ctx.self, "data")
        t = ctx.time.e
        k = z3.Int("k!near")
        j = z3.Int("j!near")
        nearest = z3.ForAll([j], Implies(And(0 <= j, j < d.n), absdiff(t, tm(d, k)) <= absdiff(t, tm(d, j))))
        return z3.Exists([k], And(0 <= k, k < d.n, result.e == val_of(d.at(k).items[1]), nearest))

    def interp_inv(ctx):
        d = ctx.get(ctx.self, "data")
        q = z3.Int(sv.uid("q"))
        return z3.ForAll([q], Implies(And(0 <= q, q < ctx.k), tm(d, q) < ctx.time.e))

    reg.add(Contract(
        f"{OUT}._interpolate", self_cls="Output", props=["C08.1"], params={"time": Time}, result=Pay,
        requires=interp_pre, ensures=interp_post,
        raises={"FinamTimeError": out_of_range}, must_raise={"FinamTimeError": out_of_range},
        modifies=lambda ctx: [], raise_frame_empty=True,
        loops={1: dict(invariant=interp_inv)},
    ))

REPLAY = {"finam.sdk.output.Output._interpolate": "output_hist.py"}
